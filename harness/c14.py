"""C14 — peak and star finders return exactly the sources their contract selects.

K: the Coq model (C14_Model.v: find_peaks, _find_stars footprint/border, the three catalog
   filters) is evaluated by vm_compute on every case the real API ran and must reproduce the
   returned table (ids, order, membership, values) exactly.  Floating-point numbers are only
   COMPARED by this code, never computed with, so a double is handed to Coq as the integer
   given by its IEEE-754 bit pattern read as sign-magnitude (a strictly monotone map);
   NaN -> None.
V: independent plain-Python statements of the property clauses, evaluated on the
   implementation's output for every case.
"""
import itertools
import math
import struct
import warnings

import numpy as np

from .core import coq, Some, Raw

PID = 'C14'
FILES = ['lib/Cases.v', 'C14_Model.v', 'C14_Proofs.v', 'C14_Properties.v']


# --------------------------------------------------------------------------
# encodings
# --------------------------------------------------------------------------
def enc_int(x):
    """monotone double -> int (sign-magnitude reading of the bit pattern); NaN -> None"""
    x = float(x)
    if x != x:
        return None
    b = struct.unpack('<q', struct.pack('<d', x))[0]
    if b < 0:
        b = -(b & 0x7FFFFFFFFFFFFFFF)
    return b


def enc(x):
    b = enc_int(x)
    return None if b is None else Some(b)


def jnum(v):
    """float -> JSON-able"""
    v = float(v)
    if v != v:
        return None
    if v == math.inf:
        return 'inf'
    if v == -math.inf:
        return '-inf'
    return v


def unj(v):
    if v is None:
        return math.nan
    if v == 'inf':
        return math.inf
    if v == '-inf':
        return -math.inf
    return float(v)


def jarr(a):
    return [[jnum(v) for v in row] for row in np.asarray(a, float)]


def unjarr(a):
    return np.array([[unj(v) for v in row] for row in a], float)


def coq_bools2(a):
    return [[bool(v) for v in row] for row in np.asarray(a)]


# --------------------------------------------------------------------------
# independent statement of the find_peaks clause (plain Python)
# --------------------------------------------------------------------------
def fp_offsets(fp):
    """pixel offsets of a footprint, scipy.ndimage centre convention"""
    fp = np.asarray(fp).astype(bool)
    fy, fx = fp.shape
    return [(i - fy // 2, j - fx // 2) for i in range(fy) for j in range(fx) if fp[i, j]]


def spec_peaks(data, thr, offs, mask, border, pad_zero=False, nan_as_min=False):
    """The set the property selects, in raster order, as (x, y, value):
    not NaN, unmasked, not within `border` pixels of an edge, strictly above the threshold,
    equal to the maximum of the in-image, non-NaN pixels of its footprint neighbourhood.
    Only when the footprint does not contain its own centre can the padding matter; pixels
    outside of the image (and NaN pixels) then count as the data minimum.
    Constant images are NOT special here (the implementation's early exit is).
    pad_zero / nan_as_min restate the two unrepaired behaviours (out-of-image neighbours count
    as 0.0; NaN pixels take part as the data minimum) and are used ONLY to name a violation."""
    data = np.asarray(data, float)
    ny, nx = data.shape
    centre = (0, 0) in offs
    good = ~np.isnan(data)
    gmin = data[good].min() if good.any() else None
    if border is not None:
        by, bx = min(int(border[0]), ny), min(int(border[1]), nx)
    out = []
    for y in range(ny):
        for x in range(nx):
            v = data[y, x]
            if v != v:
                if not nan_as_min or gmin is None:
                    continue
                v = gmin
            if mask is not None and mask[y, x]:
                continue
            if border is not None and (y < by or y >= ny - by or x < bx or x >= nx - bx):
                continue
            t = thr if np.isscalar(thr) else thr[y, x]
            if not v > t:
                continue
            cand, pad = [], False
            for dy, dx in offs:
                yy, xx = y + dy, x + dx
                if 0 <= yy < ny and 0 <= xx < nx:
                    if data[yy, xx] == data[yy, xx]:
                        cand.append(data[yy, xx])
                    else:
                        pad = True
                        if nan_as_min:
                            cand.append(gmin)
                elif pad_zero:
                    cand.append(0.0)
                else:
                    pad = True
            if not centre and pad and gmin is not None:
                cand.append(gmin)
            if cand and v == max(cand):
                out.append((x, y, float(v)))
    return out


def is_const(data):
    with np.errstate(invalid='ignore'):
        return bool(np.all(data == data.flat[0]))


def topn_ok(rows, pool, n):
    """rows is a valid 'n highest of pool' answer: right size, sub-multiset of the pool,
    every kept value >= every dropped value."""
    if len(rows) != min(n, len(pool)):
        return False
    rest = list(pool)
    for r in rows:
        if r not in rest:
            return False
        rest.remove(r)
    if rows and rest and min(r[2] for r in rows) < max(r[2] for r in rest):
        return False
    return True


# --------------------------------------------------------------------------
# find_peaks: generator, implementation, oracle, Coq term
# --------------------------------------------------------------------------
def gen_peaks(rng, small=False):
    hi = 4 if small else 8
    ny, nx = rng.randint(1, hi), rng.randint(1, hi)
    kind = rng.choice(['rand', 'rand', 'rand', 'plateau', 'plateau', 'negative', 'negative', 'negative', 'ties', 'ties',
                       'border', 'border', 'border', 'const', 'mixed', 'mixed'])
    if kind == 'rand':
        d = [[rng.randint(-4, 9) for _ in range(nx)] for _ in range(ny)]
    elif kind == 'plateau':
        d = [[rng.choice([0, 0, 3, 3, 5]) for _ in range(nx)] for _ in range(ny)]
    elif kind == 'negative':
        d = [[rng.randint(-9, -1) for _ in range(nx)] for _ in range(ny)]
    elif kind == 'ties':
        d = [[rng.choice([-1, 2, 2, 4]) for _ in range(nx)] for _ in range(ny)]
    elif kind == 'border':      # a peak candidate on every border cell
        base = rng.choice([-6, -3, 0, 2])
        d = [[base for _ in range(nx)] for _ in range(ny)]
        for y in range(ny):
            for x in range(nx):
                if y in (0, ny - 1) or x in (0, nx - 1):
                    d[y][x] = base + rng.randint(1, 3) if (x + y) % 2 == 0 or rng.random() < 0.3 else base
    elif kind == 'const':
        c = rng.choice([-2, 0, 3])
        d = [[c for _ in range(nx)] for _ in range(ny)]
    else:
        d = [[rng.choice([-5, -1, 0, 0, 1, 6]) for _ in range(nx)] for _ in range(ny)]
    scale = rng.choice([1.0, 1.0, 0.25, 0.5])
    data = np.array(d, float) * scale
    if rng.random() < 0.35:
        for _ in range(rng.randint(1, 3)):
            data[rng.randrange(ny), rng.randrange(nx)] = np.nan
    if rng.random() < 0.1:
        data[rng.randrange(ny), rng.randrange(nx)] = rng.choice([np.inf, -np.inf])
    vals = sorted(set(float(v) for v in data.ravel() if v == v and abs(v) != np.inf)) or [0.0]
    # thresholds sit on data values (ties at the threshold) or between them
    t0 = rng.choice(vals[:max(1, (len(vals) + 1) // 2)]) + rng.choice([0, 0, -0.5, -1, 0.5]) * scale \
        if rng.random() < 0.7 else min(vals) - 1
    if rng.random() < 0.3:
        thr = np.array([[t0 + rng.choice([-1, 0, 0, 1]) * scale for _ in range(nx)] for _ in range(ny)], float)
        if rng.random() < 0.1:
            thr[rng.randrange(ny), rng.randrange(nx)] = np.nan
    else:
        thr = float(t0)
    r = rng.random()
    box, fp = None, None
    if r < 0.45:
        box = rng.randint(1, 5)
    elif r < 0.65:
        box = (rng.randint(1, 5), rng.randint(1, 5))
    else:
        fy, fx = rng.randint(1, 4), rng.randint(1, 4)
        fp = np.array([[rng.random() < 0.6 for _ in range(fx)] for _ in range(fy)])
        if not fp.any():
            fp[rng.randrange(fy), rng.randrange(fx)] = True
        if rng.random() < 0.7:          # most footprints contain their centre
            fp[fy // 2, fx // 2] = True
    mask = None
    if rng.random() < 0.4:
        mask = np.array([[rng.random() < 0.25 for _ in range(nx)] for _ in range(ny)])
    r = rng.random()
    if r < 0.35:
        border = None
    elif r < 0.6:
        border = rng.randint(0, 3)
    else:
        border = (rng.choice([0, 0, 1, 2, ny, ny + 2]), rng.choice([0, 0, 1, 2, nx, nx + 1]))
    npeaks = None if rng.random() < 0.5 else rng.randint(0, 6)
    return dict(data=data, thr=thr, box=box, fp=fp, mask=mask, border=border, npeaks=npeaks, kind=kind)


def peaks_footprint(c):
    if c['fp'] is not None:
        return np.asarray(c['fp']).astype(bool)
    b = c['box']
    sy, sx = (b, b) if np.isscalar(b) else b
    return np.ones((sy, sx), bool)


def peaks_border(c):
    b = c['border']
    if b is None:
        return None
    return (b, b) if np.isscalar(b) else tuple(b)


def run_peaks(c, **extra):
    from photutils.detection import find_peaks
    kw = dict(mask=None if c['mask'] is None else c['mask'].copy(), border_width=c['border'])
    if c['fp'] is not None:
        kw['footprint'] = c['fp'].copy()
    else:
        kw['box_size'] = c['box']
    if c['npeaks'] is not None:
        kw['npeaks'] = c['npeaks']
    kw.update(extra)
    thr = c['thr'] if np.isscalar(c['thr']) else c['thr'].copy()
    with warnings.catch_warnings():
        warnings.simplefilter('ignore')
        tbl = find_peaks(c['data'].copy(), thr, **kw)
    return tbl


def peaks_rows(tbl):
    if tbl is None:
        return None
    return ([int(i) for i in tbl['id']],
            [(int(x), int(y), float(v)) for x, y, v in zip(tbl['x_peak'], tbl['y_peak'], tbl['peak_value'])])


def describe_peaks(c):
    return {'kind': 'find_peaks', 'data': jarr(c['data']),
            'threshold': jnum(c['thr']) if np.isscalar(c['thr']) else jarr(c['thr']),
            'box_size': c['box'] if c['box'] is None or np.isscalar(c['box']) else list(c['box']),
            'footprint': None if c['fp'] is None else np.asarray(c['fp']).astype(int).tolist(),
            'mask': None if c['mask'] is None else c['mask'].astype(int).tolist(),
            'border_width': c['border'] if c['border'] is None or np.isscalar(c['border']) else list(c['border']),
            'npeaks': c['npeaks']}


def undescribe_peaks(r):
    thr = r['threshold']
    box = r['box_size']
    bw = r['border_width']
    return dict(data=unjarr(r['data']), thr=unjarr(thr) if isinstance(thr, list) else unj(thr),
                box=tuple(box) if isinstance(box, list) else box,
                fp=None if r['footprint'] is None else np.array(r['footprint'], bool),
                mask=None if r['mask'] is None else np.array(r['mask'], bool),
                border=tuple(bw) if isinstance(bw, list) else bw, npeaks=r['npeaks'], kind='replay')


def _matches(rows, spec, n):
    if n is not None and len(spec) > n:
        return topn_ok(rows, spec, n)
    return rows == spec


ZP = ('find_peaks:zero-padding-hides-edge-peak',
      'a non-positive local maximum next to the image edge is not reported (maximum filter pads with 0)')
NP = ('find_peaks:nan-pixel-reported',
      'a NaN pixel (internally replaced by the data minimum) is reported as a peak')


def oracle_peaks(c, got):
    """-> list of (signature, what); empty = the property holds.  `got` = peaks_rows(table)."""
    data = c['data']
    offs = fp_offsets(peaks_footprint(c))
    args = (data, c['thr'], offs, c['mask'], peaks_border(c))
    spec = spec_peaks(*args)
    n = c['npeaks']
    if got is None:
        if not spec:
            return []
        if is_const(data):
            return [('find_peaks:constant-image',
                     'constant image above the threshold: every unmasked non-border pixel equals its neighbourhood '
                     'maximum, but None is returned (early exit)')]
        rows, ids = [], []
    else:
        ids, rows = got
        if ids != list(range(1, len(rows) + 1)):
            return [('find_peaks:ids', 'ids are not 1..N')]
        if _matches(rows, spec, n):
            return []
    # name the violation: does one of the two known unrepaired behaviours explain the output?
    def explains(pz, nm):
        alt = spec_peaks(*args, pad_zero=pz, nan_as_min=nm)
        return (not alt) if got is None else _matches(rows, alt, n)
    if explains(True, False):
        return [ZP]
    if explains(False, True):
        return [NP]
    if explains(True, True):
        return [ZP, NP]
    if n is not None and len(spec) > n and all(r in spec for r in rows):
        return [('find_peaks:npeaks', 'the rows kept are not the npeaks highest of the qualifying pixels')]
    return [('find_peaks:selection',
             'returned peaks differ from {unmasked, non-border, > threshold, == neighbourhood maximum}')]


def coq_thr(thr):
    if np.isscalar(thr):
        return Raw(f'(TScalar {coq(enc(thr))})')
    return Raw(f'(TArray {coq([enc(v) for v in np.asarray(thr, float).ravel()])})')


def coq_peaks(c, got):
    d = c['data']
    ny, nx = d.shape
    b = peaks_border(c)
    exp = None
    if got is not None:
        exp = Some((got[0], [(x, y, enc_int(v)) for x, y, v in got[1]]))
    return ('CPeaks ' + ' '.join(coq(t) for t in (
        ny, nx, [enc(v) for v in d.ravel()], coq_thr(c['thr']), coq_bools2(peaks_footprint(c)),
        None if c['mask'] is None else Some([bool(m) for m in c['mask'].ravel()]),
        None if b is None else Some((int(b[0]), int(b[1]))),
        None if c['npeaks'] is None else Some(int(c['npeaks'])), exp)))


# centroid_func clause -------------------------------------------------------
def cen_first_moment(data, mask=None):
    """a transparent centroid function: centre of mass of the (shifted-positive) unmasked pixels;
    on dyadic data with a power-of-two total it is exact; it is compared bit for bit anyway
    because the oracle calls the very same function on the very same cutout."""
    d = np.array(data, float)
    keep = np.ones(d.shape, bool) if mask is None else ~np.asarray(mask, bool)
    d = np.where(keep, d - min(d[keep].min(), 0.0), 0.0) if keep.any() else np.zeros(d.shape)
    tot = d.sum()
    yy, xx = np.mgrid[0:d.shape[0], 0:d.shape[1]]
    if tot == 0:
        return (d.shape[1] - 1) / 2.0, (d.shape[0] - 1) / 2.0
    return float((d * xx).sum() / tot), float((d * yy).sum() / tot)


def cen_argmax(data, mask=None):
    d = np.array(data, float)
    if mask is not None:
        d = np.where(mask, -np.inf, d)
    y, x = np.unravel_index(np.argmax(d), d.shape)
    return float(x) + 0.25, float(y) - 0.25


def oracle_centroids(c, tbl, func):
    """x_centroid/y_centroid of every row = func(window of the footprint box centred on the peak, trimmed at
    the frame, mask = input mask | ~footprint | NaN pixels) + window origin.  NaN pixels must not contribute:
    the oracle hands the centroid function a window whose NaN pixels hold an arbitrary sentinel (NOT the fill
    value find_peaks uses for its peak search) and are masked; the three centroid functions used here ignore
    the values of masked pixels, so an implementation that centroids the fill value disagrees."""
    data = np.array(c['data'], float)
    nan = np.isnan(data)
    data[nan] = 12345.0
    fp = peaks_footprint(c)
    fy, fx = fp.shape
    ny, nx = data.shape
    for xp, yp, xc, yc in zip(tbl['x_peak'], tbl['y_peak'], tbl['x_centroid'], tbl['y_centroid']):
        y0, x0 = int(yp) - fy // 2, int(xp) - fx // 2
        ys, xs = max(y0, 0), max(x0, 0)
        ye, xe = min(y0 + fy, ny), min(x0 + fx, nx)
        cut = data[ys:ye, xs:xe]
        m = ~fp[ys - y0:ye - y0, xs - x0:xe - x0] | nan[ys:ye, xs:xe]
        if c['mask'] is not None:
            m = m | c['mask'][ys:ye, xs:xe]
        ex, ey = func(cut.copy(), mask=m)
        same = lambda a, b: a == b or (a != a and b != b)
        if not (same(float(xc), ex + xs) and same(float(yc), ey + ys)):
            return False
    return True


# --------------------------------------------------------------------------
# _find_stars on synthetic convolved images (ties, plateaus, fractional separations)
# --------------------------------------------------------------------------
def disk_offsets(ms):
    """integer pixel offsets within the separation `ms` (independent statement)"""
    r = int(math.floor(ms))
    return [(dy, dx) for dy in range(-r, r + 1) for dx in range(-r, r + 1) if dy * dy + dx * dx <= ms * ms]


def gen_stars(rng):
    ny, nx = rng.randint(3, 10), rng.randint(3, 10)
    kind = rng.choice(['distinct', 'distinct', 'ties', 'blobs'])
    if kind == 'distinct':
        perm = list(range(ny * nx))
        rng.shuffle(perm)
        conv = np.array(perm, float).reshape(ny, nx) - rng.choice([0, 5, ny * nx])
    elif kind == 'ties':
        conv = np.array([[rng.choice([0, 1, 1, 4, 7]) for _ in range(nx)] for _ in range(ny)], float)
    else:
        conv = np.array([[rng.randint(-3, 3) for _ in range(nx)] for _ in range(ny)], float)
        for _ in range(rng.randint(1, 4)):
            conv[rng.randrange(ny), rng.randrange(nx)] += rng.randint(5, 20)
    if rng.random() < 0.15:
        conv[rng.randrange(ny), rng.randrange(nx)] = np.nan
    ky, kx = rng.choice([1, 3, 3, 5]), rng.choice([1, 3, 3, 5])
    kmask = None
    if rng.random() < 0.3:
        kmask = np.array([[rng.random() < 0.7 for _ in range(kx)] for _ in range(ky)])
        kmask[ky // 2, kx // 2] = True
    ms = rng.choice([0.0, 0.0, 1.0, 1.5, 2.0, 2.25, 2.5, 2.75, 3.0, 3.5, 0.5])
    thr = float(rng.choice([-1e9, conv[~np.isnan(conv)].min(), 0.0, 2.0, float(np.nanmedian(conv))]))
    mask = None
    if rng.random() < 0.3:
        mask = np.array([[rng.random() < 0.2 for _ in range(nx)] for _ in range(ny)])
    return dict(conv=conv, ky=ky, kx=kx, kmask=kmask, ms=ms, thr=thr, mask=mask, eb=rng.random() < 0.5, kind=kind)


class _FakeKernel:
    """stands for _StarFinderKernel in _find_stars (only .mask, .yradius, .xradius are read)"""

    def __init__(self, mask):
        self.mask = mask.astype(int)
        self.shape = mask.shape
        self.yradius = mask.shape[0] // 2
        self.xradius = mask.shape[1] // 2


def run_stars(c):
    from photutils.detection.core import StarFinderBase
    kernel = np.ones((c['ky'], c['kx'])) if c['kmask'] is None else _FakeKernel(c['kmask'])
    with warnings.catch_warnings():
        warnings.simplefilter('ignore')
        try:
            xy = StarFinderBase._find_stars(c['conv'].copy(), kernel, c['thr'], min_separation=c['ms'],
                                            mask=None if c['mask'] is None else c['mask'].copy(),
                                            exclude_border=c['eb'])
        except ValueError as e:
            return 'error: ' + str(e)[:80]
    return None if xy is None else [(int(x), int(y)) for x, y in xy]


def stars_spec(conv, thr, kfp, ms, mask, eb):
    offs = fp_offsets(kfp) if ms == 0 else disk_offsets(ms)
    border = ((kfp.shape[0] - 1) // 2, (kfp.shape[1] - 1) // 2) if eb else None
    return [(x, y) for x, y, _ in spec_peaks(conv, thr, offs, mask, border)]


def separation_pairs(conv, xy, ms):
    """pairs of returned peaks closer than (or at) the configured separation: (non-tied, tied)"""
    bad, tied = [], []
    for (x1, y1), (x2, y2) in itertools.combinations(xy, 2):
        if (x1 - x2) ** 2 + (y1 - y2) ** 2 <= ms * ms:
            (tied if conv[int(y1), int(x1)] == conv[int(y2), int(x2)] else bad).append(((x1, y1), (x2, y2)))
    return bad, tied


def oracle_stars(conv, thr, kfp, ms, mask, eb, got, who='_find_stars'):
    """-> list of (signature, what); empty = property holds"""
    out = []
    if isinstance(got, str):
        return [(f'{who}:min_separation-fractional' if ms != int(ms) else f'{who}:exception',
                 f'peak finding raised ({got}) for min_separation={ms}')]
    if is_const(conv):
        return out if got is None else [(f'{who}:selection', 'peaks reported on a constant image')]
    spec = stars_spec(conv, thr, kfp, ms, mask, eb)
    g = got or []
    if ms > 0 and g:
        bad, tied = separation_pairs(conv, g, ms)
        if bad:
            out.append((f'{who}:min_separation-fractional' if ms != int(ms) else f'{who}:min_separation',
                        f'two detected peaks of different height are closer than min_separation={ms}'))
        if tied:
            out.append((f'{who}:min_separation-ties',
                        'two exactly tied peaks closer than min_separation are both returned'))
    if g != spec and not out:
        # name the violation: does a known unrepaired behaviour explain the output?
        border = ((kfp.shape[0] - 1) // 2, (kfp.shape[1] - 1) // 2) if eb else None
        offs_new = fp_offsets(kfp) if ms == 0 else disk_offsets(ms)
        offs_old = offs_new
        if ms != int(ms):                # np.arange(-ms, ms + 1): a shifted, asymmetric footprint
            idx = np.arange(-ms, ms + 1)
            xx, yy = np.meshgrid(idx, idx)
            fp_old = (xx ** 2 + yy ** 2) <= ms ** 2
            offs_old = fp_offsets(fp_old) if fp_old.any() else None
        named = False
        for pz, offs, sig, what in (
                (True, offs_new, f'{who}:zero-padding-hides-edge-peak',
                 'a non-positive local maximum of the convolved image next to the frame is not detected'),
                (False, offs_old, f'{who}:min_separation-fractional',
                 f'fractional min_separation={ms}: the separation footprint is shifted/asymmetric, the detected '
                 'peaks are not the local maxima within the separation'),
                (True, offs_old, f'{who}:min_separation-fractional+zero-padding',
                 'fractional min_separation footprint and zero padding')):
            if offs is not None and (offs is not offs_new or pz) and \
                    g == [(x, y) for x, y, _ in spec_peaks(conv, thr, offs, mask, border, pad_zero=pz)]:
                out.append((sig, what))
                named = True
                break
        if not named:
            out.append((f'{who}:selection', 'detected peaks differ from the local maxima of the convolved image '
                        'above the threshold over the kernel footprint / separation disk'))
    return out


def describe_stars(c):
    return {'kind': '_find_stars', 'convolved': jarr(c['conv']), 'kernel_shape': [c['ky'], c['kx']],
            'kernel_mask': None if c['kmask'] is None else c['kmask'].astype(int).tolist(),
            'min_separation': c['ms'], 'threshold': c['thr'],
            'mask': None if c['mask'] is None else c['mask'].astype(int).tolist(), 'exclude_border': c['eb']}


def undescribe_stars(r):
    return dict(conv=unjarr(r['convolved']), ky=r['kernel_shape'][0], kx=r['kernel_shape'][1],
                kmask=None if r['kernel_mask'] is None else np.array(r['kernel_mask'], bool),
                ms=r['min_separation'], thr=r['threshold'],
                mask=None if r['mask'] is None else np.array(r['mask'], bool), eb=r['exclude_border'])


def coq_stars(conv, thr, kfp, ms, mask, eb, xy_in, got, scale=1):
    ny, nx = conv.shape
    ms4 = int(round(ms * 4))
    assert ms4 == ms * 4
    pos = lambda l: [(int(round(x * scale)), int(round(y * scale))) for x, y in l]
    return ('CStars ' + ' '.join(coq(t) for t in (
        ny, nx, [enc(v) for v in conv.ravel()], enc(thr), coq_bools2(kfp), ms4,
        None if mask is None else Some([bool(m) for m in mask.ravel()]), bool(eb),
        None if xy_in is None else Some(pos(xy_in)),
        None if got is None else Some(pos(got)))))


# --------------------------------------------------------------------------
# the three star finders
# --------------------------------------------------------------------------
DAO_ATTRS = ['xcentroid', 'ycentroid', 'hx', 'hy', 'sharpness', 'roundness1', 'roundness2', 'peak', 'flux',
             'npix', 'mag', 'daofind_mag']
DAO_VIS = [0, 1, 4, 5, 6, 7, 8, 9, 10, 11]
DAO_COLS = ['xcentroid', 'ycentroid', 'sharpness', 'roundness1', 'roundness2', 'peak', 'flux', 'npix', 'mag',
            'daofind_mag']
IRAF_ATTRS = ['xcentroid', 'ycentroid', 'sharpness', 'roundness', 'pa', 'sky', 'peak', 'flux', '#count', 'fwhm',
              'npix', 'mag']
IRAF_VIS = [0, 1, 2, 3, 4, 6, 7, 9, 10, 11]
IRAF_COLS = ['xcentroid', 'ycentroid', 'sharpness', 'roundness', 'pa', 'peak', 'flux', 'fwhm', 'npix', 'mag']
SF_ATTRS = ['xcentroid', 'ycentroid', 'fwhm', 'roundness', 'pa', 'max_value', 'flux', 'mag']
SF_VIS = [0, 1, 2, 3, 4, 5, 6, 7]
SF_COLS = SF_ATTRS
SPEC = {'DAO': (DAO_ATTRS, DAO_VIS, DAO_COLS, 8, 7), 'IRAF': (IRAF_ATTRS, IRAF_VIS, IRAF_COLS, 7, 6),
        'SF': (SF_ATTRS, SF_VIS, SF_COLS, 6, 5)}      # (..., flux index, peak index)
# attributes that the property requires to be finite in the output
FINITE = {'DAO': ['xcentroid', 'ycentroid', 'sharpness', 'roundness1', 'roundness2', 'peak', 'flux'],
          'IRAF': ['xcentroid', 'ycentroid', 'sharpness', 'roundness', 'pa', 'peak', 'flux', 'fwhm'],
          'SF': ['xcentroid', 'ycentroid', 'fwhm', 'roundness', 'pa', 'max_value', 'flux']}


def make_image(rng):
    n = rng.choice([15, 17, 21, 25])
    ny, nx = n, n + rng.choice([0, 2, 4])
    yy, xx = np.mgrid[0:ny, 0:nx]
    img = np.zeros((ny, nx))
    nsrc = rng.randint(0, 6)
    srcs = []
    for _ in range(nsrc):
        where = rng.random()
        if where < 0.3:       # at / next to the frame
            y = rng.choice([0, 1, 2, ny - 3, ny - 2, ny - 1])
            x = rng.randrange(nx)
            if rng.random() < 0.5:
                y, x = rng.randrange(ny), rng.choice([0, 1, 2, nx - 3, nx - 2, nx - 1])
        else:
            y, x = rng.randint(3, ny - 4), rng.randint(3, nx - 4)
        y += rng.choice([0, 0, 0.5, 0.25])
        x += rng.choice([0, 0, 0.5, 0.25])
        srcs.append((y, x, rng.choice([20, 40, 40, 80, 160]), rng.choice([0.8, 1.0, 1.3, 2.0]),
                     rng.choice([1.0, 1.0, 0.6])))
    if srcs and rng.random() < 0.4:     # a close companion (inside the separation) of the first source
        y, x, a, s, q = srcs[0]
        srcs.append((min(max(y + rng.choice([-2, 0, 2, 3]), 0), ny - 1), min(max(x + rng.choice([-3, -2, 2]), 0), nx - 1),
                     a * rng.choice([1.0, 0.5, 0.75]), s, q))
    for y, x, a, s, q in srcs:
        img += a * np.exp(-((xx - x) ** 2 / (2 * s * s) + (yy - y) ** 2 / (2 * (s * q) ** 2)))
    sym = rng.random() < 0.2
    if sym:                      # mirror-symmetric frame: exact ties between mirrored sources
        img = img + img[:, ::-1]
    noise = rng.choice([0, 0, 1, 3])
    if noise:
        nz = np.array([[rng.randint(-noise, noise) for _ in range(nx)] for _ in range(ny)], float)
        img += (nz + nz[:, ::-1]) / 2 if sym else nz
    img -= rng.choice([0, 0, 0, 2, 5])       # negative regions
    if rng.random() < 0.15:
        for _ in range(rng.randint(1, 2)):
            img[rng.randrange(ny), rng.randrange(nx)] = np.nan
    if rng.random() < 0.1:       # saturated plateau
        y, x = rng.randint(2, ny - 4), rng.randint(2, nx - 4)
        img[y:y + 2, x:x + 2] = 500.0
    mask = None
    if rng.random() < 0.3:
        mask = np.array([[rng.random() < 0.05 for _ in range(nx)] for _ in range(ny)])
        if srcs and rng.random() < 0.5:
            y, x = int(srcs[-1][0]), int(srcs[-1][1])
            mask[max(y - 1, 0):y + 2, max(x - 1, 0):x + 2] = True
    return img, mask


def sf_kernel(p):
    ky, kx, s = p
    yy, xx = np.mgrid[0:ky, 0:kx]
    return np.exp(-((xx - kx // 2) ** 2 + (yy - ky // 2) ** 2) / (2 * s * s)) * 2.0


def make_finder(kind, p):
    from photutils.detection import DAOStarFinder, IRAFStarFinder, StarFinder
    xy = None if p.get('xycoords') is None else np.array(p['xycoords'], float)
    if kind == 'DAO':
        return DAOStarFinder(p['threshold'], p['fwhm'], ratio=p['ratio'], theta=p['theta'],
                             sharplo=p['sharplo'], sharphi=p['sharphi'], roundlo=p['roundlo'], roundhi=p['roundhi'],
                             exclude_border=p['exclude_border'], brightest=p['brightest'], peakmax=p['peakmax'],
                             xycoords=xy, min_separation=p['min_separation'])
    if kind == 'IRAF':
        return IRAFStarFinder(p['threshold'], p['fwhm'], sharplo=p['sharplo'], sharphi=p['sharphi'],
                              roundlo=p['roundlo'], roundhi=p['roundhi'], exclude_border=p['exclude_border'],
                              brightest=p['brightest'], peakmax=p['peakmax'], xycoords=xy,
                              min_separation=p['min_separation'])
    return StarFinder(p['threshold'], sf_kernel(p['kernel']), min_separation=p['min_separation'],
                      exclude_border=p['exclude_border'], brightest=p['brightest'], peakmax=p['peakmax'])


def gen_finder_params(rng, kind):
    # 0 and 0.0 (int and float zero) appear for every numeric option that admits them
    p = dict(threshold=rng.choice([0, 0.0, 0.5, 2.0, 5.0, 10.0]), exclude_border=rng.random() < 0.4,
             brightest=None, peakmax=None, xycoords=None)
    if kind == 'DAO':
        p.update(fwhm=rng.choice([1.5, 2.0, 2.5, 3.0]), ratio=rng.choice([1.0, 1, 0.7, 0.5]),
                 theta=rng.choice([0.0, 0, 30.0, 90.0]), sharplo=0.2, sharphi=1.0, roundlo=-1.0, roundhi=1.0,
                 min_separation=rng.choice([0.0, 0, 1.0, 2.0, 2.5, 3.75, 4.0, 8.0]))
    elif kind == 'IRAF':
        p.update(fwhm=rng.choice([1.5, 2.0, 2.5, 3.0]), sharplo=0.5, sharphi=2.0, roundlo=0.0, roundhi=0.2,
                 min_separation=rng.choice([None, None, 0, 0.0, 1.0, 2.0, 2.5, 3.25, 5.0, 9.0]))
    else:
        p.update(kernel=(rng.choice([3, 5, 7]), rng.choice([3, 5, 7]), rng.choice([0.8, 1.2, 2.0])),
                 min_separation=rng.choice([5.0, 0, 0.0, 1.0, 2.0, 2.5, 3.5, 4.75, 9.0]))
    return p


def make_pair_scene(rng):
    """two compact sources of clearly different height 2..6 pixels apart (plus optionally a third one far
    away), well inside the frame: whether the fainter one is detected is decided by min_separation alone"""
    ny, nx = 21, 23
    yy, xx = np.mgrid[0:ny, 0:nx]
    img = np.array([[rng.randint(0, 1) for _ in range(nx)] for _ in range(ny)], float)
    y, x = rng.randint(7, 12), rng.randint(7, 13)
    dy, dx = rng.choice([(0, 2), (0, 3), (2, 2), (0, 4), (3, 3), (0, 5), (4, 3), (0, 6), (3, 0), (5, 0)])
    s_ = rng.choice([0.7, 0.9, 1.1])
    for (yy0, xx0, a) in [(y, x, 200.0), (y + dy, x + dx, rng.choice([90.0, 120.0, 150.0]))]:
        img += a * np.exp(-((xx - xx0) ** 2 + (yy - yy0) ** 2) / (2 * s_ * s_))
    if rng.random() < 0.5:
        img += 80.0 * np.exp(-((xx - 3) ** 2 + (yy - 17) ** 2) / (2 * s_ * s_))
    return img, (dy, dx)


def raw_rows(kind, cat):
    """per-source attributes of a raw (unfiltered) catalog, in the model's attribute order"""
    attrs = SPEC[kind][0]
    cols = []
    for a in attrs:
        if a == '#count':
            v = np.count_nonzero(cat.cutout_data, axis=(1, 2)).astype(float)
        else:
            v = np.asarray(getattr(cat, a), float)
        cols.append(np.atleast_1d(v))
    return [[float(col[i]) for col in cols] for i in range(len(cat))]


def requested_kernel(kind, p):
    """the detection kernel that the REQUESTED arguments define (never read back from a finder object)"""
    if kind == 'SF':
        return sf_kernel(p['kernel'])
    from photutils.detection.core import _StarFinderKernel
    if kind == 'DAO':
        return _StarFinderKernel(p['fwhm'], ratio=p['ratio'], theta=p['theta'], sigma_radius=1.5)
    return _StarFinderKernel(p['fwhm'], ratio=1.0, theta=0.0, sigma_radius=1.5)


def requested_min_separation(kind, p):
    """the separation that the REQUESTED arguments define; IRAFStarFinder documents
    min_separation=None -> max(2, int(fwhm * minsep_fwhm + 0.5)) with minsep_fwhm = 2.5; an explicit 0 is 0"""
    ms = p['min_separation']
    if ms is None:
        assert kind == 'IRAF'
        return float(max(2, int(p['fwhm'] * 2.5 + 0.5)))
    return float(ms)


def conv_of(kind, p, data):
    """the convolved image, the threshold and the kernel footprint that _find_stars must be given, derived
    from the requested arguments"""
    from photutils.utils._convolution import _filter_data
    kern = requested_kernel(kind, p)
    if kind == 'SF':
        k = np.array(kern, float)
        k = k / np.max(k)
        den = np.sum(k ** 2) - (np.sum(k) ** 2 / k.size)
        if den > 0:
            k = (k - np.sum(k) / k.size) / den
        conv = _filter_data(data, k, mode='constant', fill_value=0.0, check_normalization=False)
        return conv, float(p['threshold']), np.ones(k.shape, bool), kern
    conv = _filter_data(data, kern.data, mode='constant', fill_value=0.0, check_normalization=False)
    thr = float(p['threshold'] * kern.relerr) if kind == 'DAO' else float(p['threshold'])
    return conv, thr, kern.mask.astype(bool), kern


def py_pass(kind, p, r):
    """independent statement of the configured predicates on one raw row"""
    attrs = SPEC[kind][0]
    g = dict(zip(attrs, r))
    fin = list(FINITE[kind])
    if kind == 'DAO':
        fin += ['hx', 'hy']
    if kind == 'IRAF':
        fin += ['sky']
    if not all(math.isfinite(g[a]) for a in fin):
        return False
    if kind == 'IRAF' and not g['#count'] > 1:
        return False
    if kind == 'DAO':
        if not (p['sharplo'] <= g['sharpness'] <= p['sharphi'] and p['roundlo'] <= g['roundness1'] <= p['roundhi']
                and p['roundlo'] <= g['roundness2'] <= p['roundhi']):
            return False
    if kind == 'IRAF':
        if not (p['sharplo'] <= g['sharpness'] <= p['sharphi'] and p['roundlo'] <= g['roundness'] <= p['roundhi']):
            return False
    pk = g['peak'] if kind != 'SF' else g['max_value']
    if p['peakmax'] is not None and not pk <= p['peakmax']:
        return False
    return True


def run_finder(kind, p, data, mask):
    """-> dict(raw rows, raw xypos, table rows, conv, thr, kfp)"""
    finder = make_finder(kind, p)
    with warnings.catch_warnings():
        warnings.simplefilter('ignore')
        cat = finder._get_raw_catalog(data.copy(), mask=None if mask is None else mask.copy())
        rows = None if cat is None else raw_rows(kind, cat)
        xypos = None if cat is None else [(float(x), float(y)) for x, y in np.atleast_2d(cat.xypos)]
        finder2 = make_finder(kind, p)
        tbl = finder2(data.copy(), mask=None if mask is None else mask.copy())
        conv, thr, kfp, kern = conv_of(kind, p, data.copy())
    out = None
    if tbl is not None:
        cols = SPEC[kind][2]
        out = ([int(i) for i in tbl['id']],
               [[float(np.asarray(tbl[c_], float)[i]) for c_ in cols] for i in range(len(tbl))],
               list(tbl.colnames))
    return dict(rows=rows, xypos=xypos, table=out, conv=conv, thr=thr, kfp=kfp, kernel=kern)


def _first_moment_centroid(c):
    """(x, y) centre of mass of a non-negative cutout in cutout coordinates (NaN propagates)"""
    yy, xx = np.mgrid[0:c.shape[0], 0:c.shape[1]]
    with np.errstate(all='ignore'):
        tot = c.sum()
        return (c * xx).sum() / tot, (c * yy).sum() / tot


def recompute_centroid(kind, kern, data, xp, yp):
    """The centroid the finder documents for a source detected at the integer pixel (xp, yp),
    recomputed from the image alone:
      StarFinder: first moments of the kernel-sized window centred on the peak, TRIMMED at the frame,
                  negative pixels set to 0, plus the window origin;
      IRAFStarFinder: first moments of the kernel-sized window (zero-padded outside of the frame) after
                  subtraction of the mean of the window pixels outside of the kernel footprint, restricted
                  to the footprint, negatives set to 0, plus (peak - kernel radius).
    -> (x, y) or None when not applicable (DAOStarFinder: marginal Gaussian fits, not recomputed)."""
    data = np.asarray(data, float)
    ny, nx = data.shape
    xp, yp = int(xp), int(yp)
    if kind == 'SF':
        ky, kx = np.asarray(kern).shape
        if ky % 2 == 0 or kx % 2 == 0:
            return None
        y0, x0 = max(yp - ky // 2, 0), max(xp - kx // 2, 0)
        y1, x1 = min(yp + ky // 2 + 1, ny), min(xp + kx // 2 + 1, nx)
        c = data[y0:y1, x0:x1]
        c = np.where(c < 0, 0.0, c)
        cx, cy = _first_moment_centroid(c)
        return cx + x0, cy + y0
    if kind == 'IRAF':
        k = kern
        m = k.mask.astype(bool)
        ky, kx = m.shape
        ry, rx = ky // 2, kx // 2
        pad = np.zeros((ny + 2 * ry, nx + 2 * rx))
        pad[ry:ry + ny, rx:rx + nx] = data
        c = pad[yp:yp + ky, xp:xp + kx]
        nsky = np.count_nonzero(~m)
        if nsky == 0:
            return None
        with np.errstate(all='ignore'):
            sky = (c * ~m).sum() / nsky
            c = (c - sky) * m
        c = np.where(c < 0, 0.0, c)
        cx, cy = _first_moment_centroid(c)
        return cx + xp - rx, cy + yp - ry
    return None


def _close(a, b):
    return (a != a and b != b) or a == b or abs(a - b) <= 1e-9 * max(1.0, abs(a), abs(b))


def oracle_finder(kind, p, data, mask, res):
    """direct property oracles on the output table -> list of (signature, what)"""
    out = []
    who = {'DAO': 'DAOStarFinder', 'IRAF': 'IRAFStarFinder', 'SF': 'StarFinder'}[kind]
    attrs, vis, cols, iflux, ipeak = SPEC[kind]
    rows, xypos, table = res['rows'], res['xypos'], res['table']
    ms = requested_min_separation(kind, p)
    # detected peaks / xycoords
    if p.get('xycoords') is not None:
        want = [(float(x), float(y)) for x, y in p['xycoords']]
        if xypos != want:
            out.append((f'{who}:xycoords', 'raw catalog positions differ from the supplied xycoords'))
    else:
        xy = None if xypos is None else [(int(x), int(y)) for x, y in xypos]
        out += oracle_stars(res['conv'], res['thr'], res['kfp'], ms, mask, p['exclude_border'], xy, who=who)
    ky, kx = res['kfp'].shape
    if not (ky % 2 == 1 and kx % 2 == 1 and res['kfp'][ky // 2, kx // 2]):
        out.append((f'{who}:kernel-footprint', 'the kernel footprint is not odd-sized with its centre included '
                    '(hypothesis of find_stars_spec)'))
    passing = [] if rows is None else [i for i, r in enumerate(rows) if py_pass(kind, p, r)]
    # None iff nothing qualifies
    if (table is None) != (not passing):
        out.append((f'{who}:none-iff-empty', 'None returned although sources qualify' if table is None
                    else 'a table is returned although no source passes the configured predicates'))
        return out
    if table is None:
        return out
    ids, trows, colnames = table
    if sorted(colnames) != sorted(['id'] + cols):
        out.append((f'{who}:columns', f'unexpected table columns {colnames}'))
    if ids != list(range(1, len(ids) + 1)):
        out.append((f'{who}:ids', 'ids are not 1..N'))
    g = [dict(zip(cols, r)) for r in trows]
    for r in g:
        bad = [a for a in FINITE[kind] if not math.isfinite(r[a])]
        if bad:
            out.append((f'{who}:finite', f'non-finite {bad} in the output table'))
            break
    # the remaining (derived) columns: npix and the magnitudes
    derived = sorted({a for r in g for a in cols if a not in FINITE[kind] and not math.isfinite(r[a])})
    if derived:
        out.append((f'{who}:nonfinite-mag', f'non-finite values in the derived column(s) {derived} of the output '
                    'table (magnitude of a non-positive flux / of a zero threshold)'))
    for r in g:
        if kind == 'DAO':
            ok = (p['sharplo'] <= r['sharpness'] <= p['sharphi'] and p['roundlo'] <= r['roundness1'] <= p['roundhi']
                  and p['roundlo'] <= r['roundness2'] <= p['roundhi'])
        elif kind == 'IRAF':
            ok = p['sharplo'] <= r['sharpness'] <= p['sharphi'] and p['roundlo'] <= r['roundness'] <= p['roundhi']
        else:
            ok = True
        pk = r['peak'] if kind != 'SF' else r['max_value']
        if p['peakmax'] is not None and not pk <= p['peakmax']:
            ok = False
        if not ok:
            out.append((f'{who}:bounds', 'a reported sharpness/roundness/peak lies outside of the configured bounds'))
            break
    # every output row is one of the passing raw rows (all visible columns, bit for bit);
    # without `brightest`: exactly the passing rows in detection order
    key = lambda r: tuple(enc_int(v) for v in r)
    rawvis = [key([rows[i][j] for j in vis]) for i in passing]
    tkeys = [key(r) for r in trows]
    rest = list(rawvis)
    member = True
    for k in tkeys:
        if k in rest:
            rest.remove(k)
        else:
            member = False
    if not member:
        out.append((f'{who}:membership', 'an output row is not one of the raw sources that pass the predicates'))
    jf = cols.index('flux')
    if p['brightest'] is None:
        if member and tkeys != rawvis:
            out.append((f'{who}:membership', 'output rows are not exactly the passing sources in detection order'))
    else:
        if len(trows) != min(p['brightest'], len(passing)):
            out.append((f'{who}:brightest', 'brightest=N does not keep min(N, #passing) sources'))
        elif member:
            kept = [r[jf] for r in trows]
            dropped = [dict(zip(attrs, rows[i]))['flux'] for i in passing]
            for v in kept:
                dropped.remove(v)
            if dropped and min(kept) < max(dropped):
                out.append((f'{who}:brightest', 'a dropped source has a larger flux than a kept one'))
            if any(a < b for a, b in zip(kept, kept[1:])):
                out.append((f'{who}:brightest', 'kept sources are not in order of decreasing flux'))
    # centroid within the kernel of ITS OWN detected peak / supplied position
    ky, kx = res['kfp'].shape
    ny_, nx_ = np.asarray(data).shape
    if xypos is not None and member:
        own = []
        rest_idx = list(passing)
        for k in tkeys:
            j = next(i for i in rest_idx if key([rows[i][jj] for jj in vis]) == k)
            rest_idx.remove(j)
            own.append(xypos[j])
        for r, (x, y) in zip(g, own):
            if not (abs(r['xcentroid'] - x) <= kx / 2.0 and abs(r['ycentroid'] - y) <= ky / 2.0):
                out.append((f'{who}:centroid-outside-kernel', 'a reported centroid is not within the kernel '
                            f'footprint of its detected peak: centroid ({r["xcentroid"]}, {r["ycentroid"]}), '
                            f'peak ({x}, {y}), kernel {kx}x{ky}'))
                break
            if kind == 'SF' and not (0 <= r['xcentroid'] <= nx_ - 1 and 0 <= r['ycentroid'] <= ny_ - 1):
                out.append((f'{who}:centroid-outside-image', 'a centre of mass of non-negative in-image pixels lies '
                            f'outside of the image: ({r["xcentroid"]}, {r["ycentroid"]})'))
                break
    # ... and equal to the centroid recomputed independently from the documented cutout (every raw source)
    if xypos is not None and rows is not None and p.get('xycoords') is None and kind in ('SF', 'IRAF'):
        for (x, y), r in zip(xypos, rows):
            rc = recompute_centroid(kind, res['kernel'], data, x, y)
            if rc is None:
                continue
            if not (_close(r[0], float(rc[0])) and _close(r[1], float(rc[1]))):
                out.append((f'{who}:centroid-value', f'the centroid of the source detected at ({x}, {y}) is '
                            f'({r[0]}, {r[1]}), but the first moments of its documented cutout give '
                            f'({float(rc[0])}, {float(rc[1])})'))
                break
    return out


def coq_filter(kind, p, res):
    rows = res['rows'] or []
    f = {'DAO': f"(DAO {coq(bool(res['thr'] == 0))})" if kind == 'DAO' else '', 'IRAF': 'IRAF',
         'SF': 'SF'}[kind]
    if kind == 'SF':
        bounds = []
    else:
        bounds = [enc_int(p[k]) for k in ('sharplo', 'sharphi', 'roundlo', 'roundhi')]
    exp = None
    if res['table'] is not None:
        exp = Some((res['table'][0], [[enc(v) for v in r] for r in res['table'][1]]))
    return ('CFilter ' + ' '.join(coq(t) for t in (
        Raw(f), bounds, None if p['peakmax'] is None else Some(enc_int(p['peakmax'])),
        None if p['brightest'] is None else Some(int(p['brightest'])),
        [[enc(v) for v in r] for r in rows], exp)))


def describe_finder(kind, p, data, mask):
    return {'kind': 'finder', 'finder': kind, 'params': p, 'data': jarr(data),
            'mask': None if mask is None else mask.astype(int).tolist()}


def refine_params(rng, kind, p, rows):
    """second pass: put filter bounds exactly on measured statistics (inclusive-bound cases),
    choose brightest / peakmax / xycoords from what was really measured"""
    attrs, vis, cols, iflux, ipeak = SPEC[kind]
    q = dict(p)
    fin = [r for r in (rows or []) if all(math.isfinite(v) for v in r[:iflux + 1])]
    if fin and kind != 'SF' and rng.random() < 0.6:
        g = dict(zip(attrs, rng.choice(fin)))
        which = rng.choice(['sharplo', 'sharphi', 'roundlo', 'roundhi', 'wide'])
        if which == 'wide':
            q.update(sharplo=-1e3, sharphi=1e3, roundlo=-1e3, roundhi=1e3)
        elif which.startswith('sharp'):
            q[which] = g['sharpness']
            q['roundlo'], q['roundhi'] = -1e3, 1e3
        else:
            q[which] = g['roundness1'] if kind == 'DAO' and rng.random() < 0.5 else \
                g['roundness2' if kind == 'DAO' else 'roundness']
            q['sharplo'], q['sharphi'] = -1e3, 1e3
        if q['sharplo'] > q['sharphi'] or q['roundlo'] > q['roundhi']:
            pass          # an empty interval is a legal configuration: nothing passes
    elif kind != 'SF' and rng.random() < 0.5:
        q.update(sharplo=-1e3, sharphi=1e3, roundlo=-1e3, roundhi=1e3)
    if kind != 'SF' and rng.random() < 0.25:       # a bound that is exactly (int or float) zero
        q[rng.choice(['sharplo', 'sharphi', 'roundlo', 'roundhi'])] = rng.choice([0, 0.0])
    if fin and rng.random() < 0.35:
        q['peakmax'] = rng.choice(fin)[ipeak] if rng.random() < 0.7 else rng.choice([100.0, 0, 0.0])
    if rng.random() < 0.45:
        q['brightest'] = rng.randint(1, max(1, len(fin) + 1))
    return q


def make_edge_scene(rng, i, half=3):
    """bright compact sources whose peaks sit 0..half pixels from one edge / corner (cycled by i)"""
    n = rng.choice([15, 17, 19])
    ny, nx = n, n + rng.choice([0, 2])
    yy, xx = np.mgrid[0:ny, 0:nx]
    img = np.array([[rng.randint(0, 2) for _ in range(nx)] for _ in range(ny)], float)
    where = ['left', 'right', 'bottom', 'top', 'bl', 'br', 'tl', 'tr'][i % 8]
    d1, d2 = rng.randint(0, half), rng.randint(0, half)
    if where in ('left', 'right'):
        y = rng.randint(half + 1, ny - half - 2)
        x = d1 if where == 'left' else nx - 1 - d1
    elif where in ('bottom', 'top'):
        x = rng.randint(half + 1, nx - half - 2)
        y = d1 if where == 'bottom' else ny - 1 - d1
    else:
        y = d1 if where[0] == 'b' else ny - 1 - d1
        x = d2 if where[1] == 'l' else nx - 1 - d2
    srcs = [(y, x)]
    if rng.random() < 0.5:          # a second source well inside
        srcs.append((ny // 2, nx // 2))
    for (y, x) in srcs:
        s_ = rng.choice([0.9, 1.2, 1.6])
        # slightly off-centre so that the moment centroid is not the peak pixel itself
        img += rng.choice([60, 100]) * np.exp(-((xx - x - rng.choice([0, 0.3])) ** 2 +
                                                 (yy - y - rng.choice([0, -0.3])) ** 2) / (2 * s_ * s_))
    if rng.random() < 0.3:
        img -= 1.0
    return img, where


# --------------------------------------------------------------------------
# the same scene in other number representations
# --------------------------------------------------------------------------
DTYPES = ['float32', 'int16', 'int32', 'int64', 'uint8', 'uint16', 'uint32']


def make_int_scene(rng):
    """small non-negative integer pixel values (0..250): exactly representable in every DTYPE"""
    n = rng.choice([15, 17, 21])
    ny, nx = n, n + rng.choice([0, 2])
    yy, xx = np.mgrid[0:ny, 0:nx]
    img = np.zeros((ny, nx))
    for _ in range(rng.randint(1, 5)):
        y, x = (rng.randint(3, ny - 4), rng.randint(3, nx - 4)) if rng.random() < 0.7 else \
            (rng.choice([0, 1, ny - 2, ny - 1]), rng.randrange(nx))
        s = rng.choice([0.8, 1.0, 1.3, 1.8])
        img += rng.choice([40, 80, 120]) * np.exp(-((xx - x) ** 2 + (yy - y) ** 2) / (2 * s * s))
    img = np.rint(img) + np.array([[rng.randint(0, 3) for _ in range(nx)] for _ in range(ny)], float)
    img = np.clip(img, 0, 250)
    mask = None
    if rng.random() < 0.25:
        mask = np.array([[rng.random() < 0.05 for _ in range(nx)] for _ in range(ny)])
    return img, mask


def tables_equal(a, b, rtol):
    """ids, number and order of rows identical; values equal to the precision of the representation"""
    if a is None or b is None:
        return a is None and b is None
    if a[0] != b[0] or len(a[1]) != len(b[1]):
        return False
    for ra, rb in zip(a[1], b[1]):
        if not np.allclose(ra, rb, rtol=rtol, atol=rtol, equal_nan=True):
            return False
    return True


# --------------------------------------------------------------------------
# run
# --------------------------------------------------------------------------
def run(ctx):
    from . import c14d
    # C17M: moment centroid within the kernel box; C14D: the per-source statistics of the three star finders
    ctx.build_with_translator(FILES, extra_files=['C17_Model.v', 'C17_Proofs.v', 'C17M_Proofs.v', 'C17M_Properties.v']
                              + c14d.COQ_FILES,
                              extra_obligation_files=['C17M_Properties.v'] + c14d.OBLIGATION_FILES)
    ctx.cov['rule'] = (
        'find_peaks: random small images (random/plateau/all-negative/ties/a candidate on every border cell/'
        'constant, quarter-dyadic scaling, NaN, +-inf) x thresholds on or between data values (scalar/2-D, NaN '
        'entries) x box sizes 1..5 (even/odd, pairs) or random footprints (with/without centre) x masks x '
        'border widths (None, int, pairs incl. 0 and >= shape) x npeaks (None, 0..6) x centroid_func; '
        '_find_stars: permutation/tie/blob images x ndarray kernels and masked kernels x min_separation '
        '(0, integers, fractions) x exclude_border; DAOStarFinder/IRAFStarFinder/StarFinder: synthetic frames '
        '(0..7 Gaussians incl. at the frame and close pairs, mirror-symmetric frames, noise, negative '
        'background, NaN pixels, saturated plateaus, masks) x fwhm/ratio/theta or array kernels x thresholds '
        'incl. 0 x bounds placed exactly on measured statistics x peakmax x brightest x min_separation x '
        'exclude_border x xycoords; representation: find_peaks and finder scenes with small non-negative integer '
        'pixels re-run as float32/int16/int32/int64/uint8/uint16/uint32 and compared with the float64 run; '
        'non-trivial = at least one pixel/source qualifies')
    ctx.assumptions += [
        'per-source statistics (sharpness, roundness, centroid, flux, peak ...) and the convolution are library '
        'numerics: the model takes the values the real raw catalog measured as inputs',
        'doubles are compared through a strictly monotone integer encoding (IEEE bit pattern, sign-magnitude); '
        'the anchored code only compares them (==, <, <=, min, max, argsort, isfinite)']
    ctx.cov['partial_clauses'] = [
        '"refines them with the supplied centroid function": tested (bit-for-bit against the same function on '
        'the independently cut footprint window), not modelled in Coq',
        '"centroid lies within the kernel of a detected peak": tested on every output row against its own peak; '
        'for IRAFStarFinder and StarFinder the centroid of every raw source is also recomputed independently from '
        'the documented (trimmed / zero-padded) cutout and must agree to 1e-9; DAOStarFinder marginal fits are not '
        'recomputed',
        'order among exactly tied values after a top-N selection is numpy\'s; any valid N-highest answer is accepted',
        '"separation satisfies the configured bound": proved up to exact ties of the convolved image '
        '(min_separation_partial); tied peaks inside the separation are a known finding',
        'constant images: find_peaks returns None by an early exit although every pixel qualifies (known finding); '
        'find_peaks_spec / find_peaks_none_iff state the early exit explicitly',
        'the density-enhancement kernel (shape, mask, zero sum, relerr) and threshold_eff are tested, not modelled',
        'number representation: integer images (signed/unsigned) must give exactly the float64 output and '
        'float32 must give exactly the float64 find_peaks output; float32 star-finder runs are only recorded '
        '(single-precision convolution changes marginal noise peaks)']
    quick = ctx.tier == 'quick'
    rng = ctx.rng
    terms, meta = [], []

    # ---------------- find_peaks ----------------
    n_peaks = 500 if quick else 5000
    for i in range(n_peaks):
        c = gen_peaks(rng, small=(i % 3 == 0))
        tbl = run_peaks(c)
        got = peaks_rows(tbl)
        ctx.stat('find_peaks kinds', c['kind'])
        ctx.stat('find_peaks result', 'None' if got is None else 'table')
        ctx.stat('find_peaks nbhd', 'footprint' if c['fp'] is not None else
                 ('box-even' if any(s % 2 == 0 for s in np.atleast_1d(c['box'])) else 'box-odd'))
        ctx.stat('find_peaks border', 'None' if c['border'] is None else
                 ('has-zero' if 0 in np.atleast_1d(c['border']) else 'positive'))
        if np.isnan(c['data']).any():
            ctx.stat('find_peaks data', 'has-NaN')
        d = describe_peaks(c)
        ctx.count_case(d, got is not None)
        if i < 2:
            ctx.sample({'case': d, 'impl': got})
        errs = oracle_peaks(c, got)
        for sig, what in errs:
            ctx.violation(sig, what, {'case': d, 'impl': got, 'cmd': 'bin/check C14 --replay <this file>'})
        terms.append(coq_peaks(c, got))
        meta.append(('peaks', d, not errs))
        # border_width=0 / (0, 0) is a no-op
        if c['border'] is not None and set(np.atleast_1d(c['border']).tolist()) == {0}:
            c2 = dict(c, border=None)
            if peaks_rows(run_peaks(c2)) != got:
                ctx.violation('find_peaks:border_width=0', 'border_width=0 changes the result', {'case': d})
            ctx.support('border_zero_is_noop (direct)')

    # centroid_func clause (support test)
    from photutils.centroids import centroid_com
    n_cen = 80 if quick else 600
    done = 0
    while done < n_cen:
        c = gen_peaks(rng, small=False)
        fp = peaks_footprint(c)
        if fp.shape[0] % 2 == 0 or fp.shape[1] % 2 == 0 or c['kind'] == 'const' or c['npeaks'] == 0:
            continue            # (npeaks=0 with a centroid_func: centroid_sources rejects an empty position list)
        func = rng.choice([cen_first_moment, cen_argmax, centroid_com])
        try:
            tbl = run_peaks(c, centroid_func=func)
        except ValueError as e:          # a peak whose window is completely masked: documented error
            if 'completely masked' in str(e):
                ctx.stat('centroid_func', 'window-completely-masked-error')
                done += 1
                continue
            raise
        done += 1
        if tbl is None:
            ctx.stat('centroid_func', 'None')
            continue
        ctx.stat('centroid_func', func.__name__)
        d = describe_peaks(c)
        ctx.count_case(['centroid', func.__name__, d], True)
        got = peaks_rows(tbl)
        for sig, what in oracle_peaks(c, got):
            ctx.violation(sig, what, {'case': d, 'impl': got})
        if 'x_centroid' not in tbl.colnames or not oracle_centroids(c, tbl, func):
            ctx.violation('find_peaks:centroid_func', 'x_centroid/y_centroid differ from centroid_func applied to the '
                          'footprint window around the peak', {'case': d, 'centroid_func': func.__name__,
                                                              'x_centroid': [jnum(v) for v in tbl['x_centroid']],
                                                              'y_centroid': [jnum(v) for v in tbl['y_centroid']]})
        ctx.support('centroid_func refines every peak')

    # ---------------- _find_stars on synthetic convolved images ----------------
    n_st = 250 if quick else 2500
    for i in range(n_st):
        c = gen_stars(rng)
        got = run_stars(c)
        kfp = np.ones((c['ky'], c['kx']), bool) if c['kmask'] is None else c['kmask']
        d = describe_stars(c)
        ctx.stat('_find_stars min_separation', 'zero' if c['ms'] == 0 else
                 ('integer' if c['ms'] == int(c['ms']) else 'fractional'))
        ctx.count_case(d, got is not None)
        errs = oracle_stars(c['conv'], c['thr'], kfp, c['ms'], c['mask'], c['eb'], got)
        for sig, what in errs:
            ctx.violation(sig, what, {'case': d, 'impl': got, 'cmd': 'bin/check C14 --replay <this file>'})
        if not isinstance(got, str):
            terms.append(coq_stars(c['conv'], c['thr'], kfp, c['ms'], c['mask'], c['eb'], None, got))
            meta.append(('stars', d, not errs))

    # ---------------- the three finders ----------------
    n_f = 150 if quick else 1500
    for i in range(n_f):
        kind = ['DAO', 'IRAF', 'SF'][i % 3]
        data, mask = make_image(rng)
        p0 = gen_finder_params(rng, kind)
        try:
            res0 = run_finder(kind, p0, data, mask)
        except Exception as e:      # the finder itself failed on a legal input
            ctx.violation(f'{kind}:exception:{type(e).__name__}', f'finder raised {e!r}'[:200],
                          describe_finder(kind, p0, data, mask))
            continue
        p = refine_params(rng, kind, p0, res0['rows'])
        if kind != 'SF' and rng.random() < 0.25:
            ny, nx = data.shape
            xy = [(float(x), float(y)) for x, y in (res0['xypos'] or [])[:rng.randint(0, 4)]]
            for _ in range(rng.randint(1, 3)):
                xy.append((rng.randint(0, nx - 1) + rng.choice([0, 0, 0.25, 0.5]),
                           rng.randint(0, ny - 1) + rng.choice([0, 0, 0.25, 0.5])))
            xy = [(min(x, nx - 1.0), min(y, ny - 1.0)) for x, y in xy]
            p['xycoords'] = xy
        try:
            res = run_finder(kind, p, data, mask)
        except Exception as e:
            ctx.violation(f'{kind}:exception:{type(e).__name__}', f'finder raised {e!r}'[:200],
                          describe_finder(kind, p, data, mask))
            continue
        d = describe_finder(kind, p, data, mask)
        ctx.stat('finder', kind)
        ctx.stat('finder result', 'None' if res['table'] is None else 'table')
        ctx.stat('finder raw', 'no-peaks' if res['rows'] is None else 'peaks')
        if p['xycoords'] is not None:
            ctx.stat('finder options', 'xycoords')
        if p['brightest'] is not None:
            ctx.stat('finder options', 'brightest')
        if p['peakmax'] is not None:
            ctx.stat('finder options', 'peakmax')
        if res['rows'] and res['table'] is not None and len(res['table'][0]) < len(res['rows']):
            ctx.stat('finder options', 'some-rows-filtered')
        ctx.count_case(d, res['table'] is not None)
        if i < 3:
            ctx.sample({'finder': kind, 'params': p, 'n_raw': None if res['rows'] is None else len(res['rows']),
                        'table_ids': None if res['table'] is None else res['table'][0]})
        errs = oracle_finder(kind, p, data, mask, res)
        for sig, what in errs:
            ctx.violation(sig, what, dict(d, cmd='bin/check C14 --replay <this file>'))
        if res['table'] is not None:
            ctx.support('centroid within kernel of a detected peak', len(res['table'][0]))
        # K: peak finding
        ms = requested_min_separation(kind, p)
        if ms * 4 == int(ms * 4):
            xin = p['xycoords']
            terms.append(coq_stars(res['conv'], res['thr'], res['kfp'], ms, mask, p['exclude_border'],
                                   xin, res['xypos'], scale=4 if xin is not None else 1))
            meta.append(('finder-peaks', d, not errs))
        # K: filters
        terms.append(coq_filter(kind, p, res))
        meta.append(('finder-filter', d, not errs))

    # ---------------- close pairs x every kind of min_separation; detection mode vs xycoords mode ----------------
    MS = {'DAO': [0, 0.0, 1.0, 2.5, 4.0, 8.0], 'IRAF': [None, 0, 0.0, 1.0, 2.5, 4.0, 8.0],
          'SF': [0, 0.0, 1.0, 2.5, 5.0, 8.0]}
    n_pp = 2 if quick else 12
    for kind in ('DAO', 'IRAF', 'SF'):
        for ms_arg in MS[kind]:
            for rep in range(n_pp):
                data, sep = make_pair_scene(rng)
                p = gen_finder_params(rng, kind)
                p.update(threshold=rng.choice([2.0, 5.0]), min_separation=ms_arg, exclude_border=False)
                if kind != 'SF':
                    p.update(sharplo=-1e3, sharphi=1e3, roundlo=-1e3, roundhi=1e3, fwhm=rng.choice([1.5, 2.0, 2.5]))
                else:
                    p['kernel'] = (5, 5, rng.choice([0.8, 1.2]))
                d = dict(describe_finder(kind, p, data, None), pair_offset=list(sep))
                try:
                    res = run_finder(kind, p, data, None)
                except Exception as e:
                    ctx.violation(f'{kind}:exception:{type(e).__name__}', f'finder raised {e!r}'[:200], d)
                    continue
                ctx.stat('pair scenes', f'{kind}/min_separation={ms_arg!r}')
                ctx.stat('pair scenes detected', 'none' if res['xypos'] is None else str(min(len(res['xypos']), 4)))
                ctx.count_case(d, res['table'] is not None)
                errs = oracle_finder(kind, p, data, None, res)
                for sig, what in errs:
                    ctx.violation(sig, what, dict(d, cmd='bin/check C14 --replay <this file>'))
                ms = requested_min_separation(kind, p)
                terms.append(coq_stars(res['conv'], res['thr'], res['kfp'], ms, None, False, None, res['xypos']))
                meta.append(('finder-peaks', d, not errs))
                # the same peaks supplied through xycoords: same raw catalog, same table
                if kind != 'SF' and res['xypos']:
                    who = {'DAO': 'DAOStarFinder', 'IRAF': 'IRAFStarFinder'}[kind]
                    p2 = dict(p, xycoords=[tuple(q) for q in res['xypos']])
                    res2 = run_finder(kind, p2, data, None)
                    k_ = lambda rows: None if rows is None else [tuple(enc_int(v) for v in r) for r in rows]
                    if k_(res2['rows']) != k_(res['rows']) or not tables_equal(res2['table'], res['table'], 0.0):
                        ctx.violation(f'{who}:xycoords-vs-detection', 'supplying the detected peaks through xycoords '
                                      'does not give the same catalog / table as detecting them', dict(d, xycoords=p2['xycoords']))
                    ctx.support('xycoords mode == detection mode on the same peaks')

    # ---------------- sources at the four edges and corners (centroid clause) ----------------
    n_e = 24 if quick else 240
    for i in range(n_e):
        kind = ['DAO', 'IRAF', 'SF'][(i // 8) % 3] if quick else ['DAO', 'IRAF', 'SF'][(i // 8) % 3]
        data, where = make_edge_scene(rng, i)
        p = gen_finder_params(rng, kind)
        p.update(threshold=rng.choice([1.0, 3.0]), exclude_border=bool((i // 4) % 2 if i % 3 else i % 2),
                 min_separation=rng.choice([0.0, 2.0]) if kind == 'DAO' else rng.choice([2.0, 3.0]))
        if kind != 'SF':
            p.update(sharplo=-1e3, sharphi=1e3, roundlo=-1e3, roundhi=1e3)
        else:
            p['kernel'] = (rng.choice([5, 7]), rng.choice([5, 7]), rng.choice([1.2, 2.0]))
        d = dict(describe_finder(kind, p, data, None), where=where)
        try:
            res = run_finder(kind, p, data, None)
        except Exception as e:
            ctx.violation(f'{kind}:exception:{type(e).__name__}', f'finder raised {e!r}'[:200], d)
            continue
        ctx.stat('edge scenes', f'{kind}/{where}/exclude_border={p["exclude_border"]}')
        ctx.stat('edge scenes result', 'None' if res['table'] is None else 'table')
        ctx.count_case(d, res['table'] is not None)
        errs = oracle_finder(kind, p, data, None, res)
        for sig, what in errs:
            ctx.violation(sig, what, dict(d, cmd='bin/check C14 --replay <this file>'))
        if res['rows']:
            ctx.support('centroid = first moments of the documented cutout (IRAF, StarFinder)', len(res['rows']))
        terms.append(coq_filter(kind, p, res))
        meta.append(('finder-filter', d, not errs))

    # ---------------- the same scene stored as float32 / signed / unsigned integers ----------------
    # (pixel values are small non-negative integers: every representation holds them exactly, so the
    #  finders must select the same sources as for the float64 image)
    n_dp = 40 if quick else 400
    for i in range(n_dp):
        c = gen_peaks(rng, small=False)
        if c['kind'] == 'const':
            continue
        d = np.nan_to_num(np.abs(np.rint(c['data'] * 4)), nan=1.0, posinf=9.0, neginf=0.0)
        c = dict(c, data=np.clip(d, 0, 200), thr=(abs(c['thr']) * 2 if np.isscalar(c['thr']) and c['thr'] == c['thr']
                                                  else 1.5))
        ref = peaks_rows(run_peaks(c))
        for dt in DTYPES:
            c2 = dict(c, data=c['data'].astype(dt))
            try:
                got = peaks_rows(run_peaks(c2))
            except Exception as e:
                got = 'error: ' + repr(e)[:100]
            ctx.stat('dtype find_peaks', dt)
            dd = dict(describe_peaks(c), dtype=dt)
            ctx.count_case(dd, ref is not None)
            same = got == ref if (c['npeaks'] is None or ref is None or isinstance(got, str)) else \
                (got is not None and got[0] == ref[0] and sorted(r[2] for r in got[1]) == sorted(r[2] for r in ref[1])
                 and not oracle_peaks(c, got))
            if not same:
                ctx.violation('find_peaks:data-dtype', f'the result for the same image stored as {dt} differs from '
                              'the float64 result', {'case': dd, 'float64': ref, dt: got})
        terms.append(coq_peaks(c, ref))
        meta.append(('peaks', describe_peaks(c), not oracle_peaks(c, ref)))
    n_df = 18 if quick else 180
    for i in range(n_df):
        kind = ['DAO', 'IRAF', 'SF'][i % 3]
        data, mask = make_int_scene(rng)
        p = gen_finder_params(rng, kind)
        if kind != 'SF' and rng.random() < 0.5:
            p.update(sharplo=-1e3, sharphi=1e3, roundlo=-1e3, roundhi=1e3)
        if rng.random() < 0.3:
            p['brightest'] = rng.randint(1, 4)
        if rng.random() < 0.3:
            p['peakmax'] = rng.choice([60.0, 100.0])
        try:
            ref = run_finder(kind, p, data, mask)
        except Exception as e:
            ctx.violation(f'{kind}:exception:{type(e).__name__}', f'finder raised {e!r}'[:200],
                          describe_finder(kind, p, data, mask))
            continue
        for sig, what in oracle_finder(kind, p, data, mask, ref):
            ctx.violation(sig, what, dict(describe_finder(kind, p, data, mask), cmd='bin/check C14 --replay <this file>'))
        who = {'DAO': 'DAOStarFinder', 'IRAF': 'IRAFStarFinder', 'SF': 'StarFinder'}[kind]
        dts = [rng.choice(['uint8', 'uint16', 'uint32']), rng.choice(['int16', 'int32', 'int64']), 'float32']
        for dt in dts[:2] if i % 2 else dts:
            d2 = data.astype(dt)
            dd = dict(describe_finder(kind, p, data, mask), dtype=dt)
            ctx.stat('dtype finder', f'{kind}/{dt}')
            ctx.count_case(dd, ref['table'] is not None)
            try:
                res = run_finder(kind, p, d2, mask)
            except Exception as e:
                ctx.violation(f'{who}:data-dtype', f'finder raised {e!r} for the image stored as {dt}'[:200], dd)
                continue
            # float32: the convolution and the statistics are computed in single precision
            rtol = 2e-3 if dt == 'float32' else 1e-9
            same_pos = (res['xypos'] == ref['xypos'])
            if dt == 'float32':
                # single-precision convolution legitimately creates/destroys marginal noise maxima and moves
                # statistics by ~1e-7: recorded, not required (the integer representations are exact)
                ctx.stat('dtype finder float32', 'same positions and table' if same_pos and
                         tables_equal(res['table'], ref['table'], rtol) else
                         ('same table' if tables_equal(res['table'], ref['table'], rtol) else 'differs'))
                ctx.support('float32 image vs float64 image (recorded only)')
                continue
            if not (same_pos and tables_equal(res['table'], ref['table'], rtol)):
                ctx.violation(f'{who}:data-dtype', f'the output for the same image stored as {dt} differs from the '
                              'float64 output (detected positions, ids, membership, order or values)',
                              dict(dd, float64_ids=None if ref['table'] is None else ref['table'][0],
                                   other_ids=None if res['table'] is None else res['table'][0],
                                   float64_npeaks=None if ref['xypos'] is None else len(ref['xypos']),
                                   other_npeaks=None if res['xypos'] is None else len(res['xypos'])))
            if dt != 'float32':
                errs = oracle_finder(kind, p, d2.astype(float), mask, res)
                for sig, what in errs:
                    ctx.violation(sig, what, dict(dd, cmd='bin/check C14 --replay <this file>'))
                terms.append(coq_filter(kind, p, res))
                meta.append(('finder-filter', dd, not errs))

    # ---------------- the density-enhancement kernel (support test) ----------------
    from photutils.detection.core import _StarFinderKernel
    for _ in range(60 if quick else 600):
        fwhm = rng.choice([0.5, 1.0, 1.5, 2.0, 2.5, 3.0, 4.5])
        ratio = rng.choice([1.0, 0.9, 0.7, 0.5, 0.3])
        theta = rng.choice([0.0, 15.0, 30.0, 45.0, 90.0, 135.0, 200.0])
        sr = rng.choice([1.0, 1.5, 2.0])
        k = _StarFinderKernel(fwhm, ratio=ratio, theta=theta, sigma_radius=sr)
        ky, kx = k.shape
        m = k.mask.astype(bool)
        ok = (ky % 2 == 1 and kx % 2 == 1 and k.data.shape == m.shape == (k.ny, k.nx) and m[ky // 2, kx // 2]
              and k.yradius == ky // 2 and k.xradius == kx // 2 and np.array_equal(m, m[::-1, ::-1])
              and abs(k.data.sum()) < 1e-9 and not k.data[~m].any()
              and np.isclose(k.relerr, 1.0 / np.sqrt((k.gaussian_kernel ** 2).sum()
                                                       - k.gaussian_kernel.sum() ** 2 / k.npixels)))
        ctx.count_case(['kernel', fwhm, ratio, theta, sr], True)
        ctx.support('kernel: odd shape, centre in footprint, point-symmetric mask, zero sum, relerr')
        if not ok:
            ctx.violation('_StarFinderKernel:shape', 'kernel is not odd-sized / centred / zero-sum / point-symmetric',
                          {'fwhm': fwhm, 'ratio': ratio, 'theta': theta, 'sigma_radius': sr})
        from photutils.detection import DAOStarFinder
        t = rng.choice([0.0, 1.0, 2.5])
        f = DAOStarFinder(t, fwhm, ratio=ratio, theta=theta, sigma_radius=sr)
        if f.threshold_eff != t * f.kernel.relerr:
            ctx.violation('DAOStarFinder:threshold_eff', 'threshold_eff != threshold * kernel.relerr',
                          {'fwhm': fwhm, 'ratio': ratio, 'theta': theta, 'sigma_radius': sr, 'threshold': t})

    bad = ctx.coq_eval_cases(['C14_Model'], 'check_case', terms, case_type='case')
    ctx.stat('coq', 'disagreements', len(bad))
    for i in bad[:20]:
        part, d, ok = meta[i]
        if not ok:
            continue            # the oracle has already reported a violation with this input
        detail = {'part': part, 'case': d,
                  'model': ctx.coq_eval_term(['C14_Model'], f'model_out ({terms[i]})') if len(bad) < 30 else None}
        ctx.violation(f'correspondence:C14_Model.check_case:{part}',
                      'model and implementation disagree although the direct oracle accepts the output',
                      detail, found_input=False)

    # per-source statistics of DAOStarFinder / IRAFStarFinder / StarFinder against C14D_Model (own PRNG)
    c14d.run_statistics_correspondence(ctx, 120 if ctx.tier == 'quick' else 1500)


# --------------------------------------------------------------------------
# replay
# --------------------------------------------------------------------------
def replay(obj):
    r = obj['replay']
    c = r.get('case', r)
    if c.get('kind') == 'find_peaks':
        case = undescribe_peaks(c)
        if c.get('dtype'):
            ref = peaks_rows(run_peaks(case))
            got2 = peaks_rows(run_peaks(dict(case, data=case['data'].astype(c['dtype']))))
            print(c['dtype'], ':', got2, '\nfloat64 :', ref)
        got = peaks_rows(run_peaks(case))
        errs = oracle_peaks(case, got)
        ok = not errs
        print('impl:', got)
        print('spec:', spec_peaks(case['data'], case['thr'], fp_offsets(peaks_footprint(case)), case['mask'],
                                  peaks_border(case)))
        print('property holds on this input' if ok else f'property FAILS on this input: {errs}')
        return 0 if ok else 1
    if c.get('kind') == '_find_stars':
        case = undescribe_stars(c)
        got = run_stars(case)
        kfp = np.ones((case['ky'], case['kx']), bool) if case['kmask'] is None else case['kmask']
        errs = oracle_stars(case['conv'], case['thr'], kfp, case['ms'], case['mask'], case['eb'], got)
        print('impl:', got)
        print('spec:', stars_spec(case['conv'], case['thr'], kfp, case['ms'], case['mask'], case['eb']))
        print('property holds on this input' if not errs else f'property FAILS on this input: {errs}')
        return 0 if not errs else 1
    if c.get('kind') == 'finder':
        data = unjarr(c['data'])
        mask = None if c['mask'] is None else np.array(c['mask'], bool)
        p = dict(c['params'])
        other = c.get('dtype')
        if p.get('kernel') is not None:
            p['kernel'] = tuple(p['kernel'])
        if p.get('xycoords') is not None:
            p['xycoords'] = [tuple(q) for q in p['xycoords']]
        res = run_finder(c['finder'], p, data, mask)
        errs = oracle_finder(c['finder'], p, data, mask, res)
        if other:
            r2 = run_finder(c['finder'], p, data.astype(other), mask)
            if not (r2['xypos'] == res['xypos'] and
                    tables_equal(r2['table'], res['table'], 2e-3 if other == 'float32' else 1e-9)):
                errs.append(('data-dtype', f'output for {other} differs from float64'))
            print(f'{other}: n_peaks', None if r2['xypos'] is None else len(r2['xypos']),
                  'ids', None if r2['table'] is None else r2['table'][0])
        print('raw positions:', res['xypos'])
        print('table ids:', None if res['table'] is None else res['table'][0])
        print('property holds on this input' if not errs else f'property FAILS on this input: {errs}')
        return 0 if not errs else 1
    print('unknown replay kind')
    return 2
