"""C13R -- ties of the real-number stretch development coq/C13R_*.v (continuous normalisation of
CircularGaussianPSF / GaussianPSF / MoffatPSF, Gaussian integral, PRF = pixel integral of PSF) to the
source photutils/psf/functional_models.py.  Helper module of property C13 (not a check of its own).

Wiring (two lines in harness/c13.py, run(ctx)):

    from . import c13r
    ctx.build_with_translator(FILES, extra_files=c13r.EXTRA_FILES,
                              extra_obligation_files=c13r.EXTRA_OBLIGATION_FILES)
    c13r.tie(ctx)

`tie(ctx)` does two things, both on every run, both against the CURRENT source / installed package:

 (T) source tie: sha256 of the ast (docstrings removed) of the six transcribed methods and of the module
     constant GAUSSIAN_FWHM_TO_SIGMA, compared with coq/C13R_source_hashes.json.  A mismatch means the
     real-number theorems speak about an older text.
 (K) numeric correspondence: the `Definition`s of coq/C13R_Model.v are parsed (a 60-line translator for the
     let/arith/application fragment used there) into float expressions, with exp, ln, sqrt, cos, sin, PI,
     Rpower, erf mapped to math / scipy, and compared with the REAL public API (model instances called at
     points; MoffatPSF(...).fwhm) on parameters drawn from ctx.rng: relative difference <= 1e-12.  This is a
     float comparison on purpose -- the theorems are about real numbers and cannot be tied exactly; it
     detects a transcription that does not compute the same formula as the code.

A failure of either is reported as a broken obligation (`C13R-transcription-stale` / `-mismatch`).
"""
import ast
import hashlib
import json
import math
import re

EXTRA_FILES = ['C13R_Model.v', 'C13R_GaussInt.v', 'C13R_Proofs.v', 'C13R_Plane.v', 'C13R_Properties.v']
EXTRA_OBLIGATION_FILES = ['C13R_Properties.v']

SRC = 'photutils/psf/functional_models.py'
TARGETS = ['GaussianPSF.evaluate', 'CircularGaussianPSF.evaluate', 'CircularGaussianPSF.sigma',
           'MoffatPSF.evaluate', 'MoffatPSF.fwhm', 'GaussianPRF.evaluate', 'CircularGaussianPRF.evaluate',
           'GAUSSIAN_FWHM_TO_SIGMA']


# ------------------------------------------------------------------------------------- (T) source hashes
def source_hashes(repo):
    tree = ast.parse((repo / SRC).read_text())
    out = {}

    def strip_doc(fn):
        body = fn.body
        if body and isinstance(body[0], ast.Expr) and isinstance(getattr(body[0], 'value', None), ast.Constant) \
                and isinstance(body[0].value.value, str):
            body = body[1:]
        return [ast.dump(b, include_attributes=False) for b in body]

    for node in tree.body:
        if isinstance(node, ast.Assign) and len(node.targets) == 1 and isinstance(node.targets[0], ast.Name) \
                and node.targets[0].id == 'GAUSSIAN_FWHM_TO_SIGMA':
            out['GAUSSIAN_FWHM_TO_SIGMA'] = ast.dump(node.value, include_attributes=False)
        if isinstance(node, ast.ClassDef):
            for f in node.body:
                if isinstance(f, ast.FunctionDef) and f'{node.name}.{f.name}' in TARGETS:
                    out[f'{node.name}.{f.name}'] = json.dumps(
                        [[a.arg for a in f.args.args], strip_doc(f)])
    return {k: hashlib.sha256(v.encode()).hexdigest() for k, v in out.items()}


def source_tie(ctx):
    from .core import COQ, REPO
    want = json.loads((COQ / 'C13R_source_hashes.json').read_text())['functions']
    try:
        got = source_hashes(REPO)
    except Exception as e:      # unreadable source
        got = {'_error': repr(e)[:200]}
    bad = [{'function': k, 'expected': h, 'found': got.get(k, 'missing')} for k, h in want.items()
           if got.get(k) != h]
    ctx.stat('c13r', 'source-spans-hashed', len(want))
    ctx.cov.setdefault('translated_spans', []).append(
        {'file': 'coq/C13R_Model.v', 'tie': 'sha256 of the ast of the transcribed methods of ' + SRC,
         'functions': sorted(want), 'stale': [b['function'] for b in bad]})
    if bad:
        ctx.broken_obligation('C13R-transcription-stale', {'changed_source_spans': bad})
    return bad


# ------------------------------------------------------------------------------------- (K) Coq -> float
TOKEN = re.compile(r'\s*(?:(\d+\.\d+|\d+)|([A-Za-z_][A-Za-z_0-9\']*)|(:=|[-+*/^()]))')
FUNCS = {'exp': 'math.exp', 'ln': 'math.log', 'sqrt': 'math.sqrt', 'cos': 'math.cos', 'sin': 'math.sin',
         'Rpower': '_rpower', 'erf': '_erf'}
CONSTS = {'PI': 'math.pi'}


class _P:
    """expression parser for the fragment of Gallina used in C13R_Model.v (fail-closed)."""

    def __init__(self, text, defs):
        self.toks, pos = [], 0
        text = text.strip()
        while pos < len(text):
            m = TOKEN.match(text, pos)
            if not m or m.end() == pos:
                raise ValueError('cannot tokenise: ' + text[pos:pos + 30])
            self.toks.append(m.group(1) or m.group(2) or m.group(3))
            pos = m.end()
        self.i, self.defs = 0, defs

    def peek(self):
        return self.toks[self.i] if self.i < len(self.toks) else None

    def eat(self, t=None):
        tok = self.peek()
        if t is not None and tok != t:
            raise ValueError(f'expected {t}, got {tok}')
        self.i += 1
        return tok

    def expr(self):
        if self.peek() == 'let':
            self.eat('let'); name = self.eat(); self.eat(':='); val = self.arith(); self.eat('in')
            body = self.expr()
            return f'(lambda {_py(name)}: {body})({val})'
        return self.arith()

    def arith(self):                       # level 50: + -
        left = self.term()
        while self.peek() in ('+', '-'):
            op = self.eat(); right = self.term(); left = f'({left} {op} {right})'
        return left

    def term(self):                        # level 40: * /
        left = self.unary()
        while self.peek() in ('*', '/'):
            op = self.eat(); right = self.unary(); left = f'({left} {op} {right})'
        return left

    def unary(self):                       # level 35: - x   (binds tighter than *, looser than ^)
        if self.peek() == '-':
            self.eat(); return f'(-{self.unary()})'
        return self.power()

    def power(self):                       # level 30, right associative; exponent is a nat literal
        base = self.app()
        if self.peek() == '^':
            self.eat(); e = self.eat()
            if not e.isdigit():
                raise ValueError('non-literal exponent')
            return f'({base} ** {e})'
        return base

    def starts_atom(self):
        t = self.peek()
        return t is not None and (t == '(' or re.match(r'[\dA-Za-z_]', t)) and t not in ('in', 'let')

    def app(self):
        head = self.peek()
        if head in FUNCS or head in self.defs:
            self.eat(); args = []
            while self.starts_atom():
                args.append(self.atom())
            fn = FUNCS.get(head) or f'_d[{head!r}]'
            if not args:
                return f'{fn}()' if head in self.defs else fn
            return f'{fn}({", ".join(args)})'
        return self.atom()

    def atom(self):
        t = self.eat()
        if t == '(':
            e = self.expr(); self.eat(')'); return e
        if re.match(r'\d', t):
            return repr(float(t))
        if t in CONSTS:
            return CONSTS[t]
        if t in self.defs:                 # constant definition used as an atom
            return f'_d[{t!r}]()'
        if re.match(r'[A-Za-z_]', t) and t not in FUNCS:
            return _py(t)
        raise ValueError('unexpected token ' + t)


def _py(name):
    return 'v_' + name.replace("'", '_p')


def _strip_comments(txt):
    out, depth, i = [], 0, 0
    while i < len(txt):
        if txt.startswith('(*', i):
            depth += 1; i += 2
        elif txt.startswith('*)', i) and depth:
            depth -= 1; i += 2
        else:
            if not depth:
                out.append(txt[i])
            i += 1
    return ''.join(out)


WANTED = ['GAUSSIAN_FWHM_TO_SIGMA', 'deg2rad', 'circular_gaussian_psf', 'cg_sigma', 'gaussian_psf', 'moffat_psf',
          'moffat_fwhm', 'circular_gaussian_prf', 'gaussian_prf']


def load_model(coq_dir):
    """{name: python callable} for the transcribed definitions of C13R_Model.v"""
    from scipy.special import erf as _sp_erf
    txt = _strip_comments((coq_dir / 'C13R_Model.v').read_text())
    env = {'math': math, '_rpower': lambda a, b: float(a) ** float(b), '_erf': lambda z: float(_sp_erf(z)), '_d': {}}
    defs = []
    for m in re.finditer(r'Definition\s+(\w+)\s*((?:\([^()]*\)\s*)*):\s*R\s*:=(.*?)\.\s*(?=\n|$)', txt, re.S):
        name, binders, body = m.group(1), m.group(2), m.group(3)
        if name not in WANTED:
            continue
        args = []
        for b in re.findall(r'\(([^()]*)\)', binders):
            names, ty = b.split(':')
            if ty.strip() != 'R':
                raise ValueError('binder type ' + ty)
            args += names.split()
        defs.append((name, args, body))
    known = set()
    for name, args, body in defs:
        p = _P(body, known)
        src = p.expr()
        if p.peek() is not None:
            raise ValueError(f'{name}: trailing tokens {p.toks[p.i:]}')
        env['_d'][name] = eval(f'lambda {", ".join(_py(a) for a in args)}: {src}', env)
        known.add(name)
    missing = [w for w in WANTED if w not in env['_d']]
    if missing:
        raise ValueError('definitions not found in C13R_Model.v: ' + ', '.join(missing))
    return env['_d']


def _close(a, b, rel=1e-12):
    if a == b:
        return True
    if not (math.isfinite(a) and math.isfinite(b)):
        return False
    return abs(a - b) <= rel * max(abs(a), abs(b)) + 1e-300


def numeric_tie(ctx, n=None):
    from .core import COQ
    import numpy as np
    from photutils.psf import (CircularGaussianPRF, CircularGaussianPSF, GaussianPRF, GaussianPSF, MoffatPSF)
    from photutils.psf import functional_models as fm
    rng = ctx.rng
    n = n or (60 if ctx.tier == 'quick' else 400)
    try:
        M = load_model(COQ)
    except Exception as e:
        ctx.broken_obligation('C13R-transcription-mismatch', {'model-not-parsable': repr(e)[:300]})
        return
    bad = []

    def chk(what, params, got, want):
        ctx.stat('c13r', 'numeric:' + what)
        if not _close(float(got), float(want)):
            bad.append({'what': what, 'params': params, 'model': float(got), 'implementation': float(want)})

    chk('GAUSSIAN_FWHM_TO_SIGMA', {}, M['GAUSSIAN_FWHM_TO_SIGMA'](), fm.GAUSSIAN_FWHM_TO_SIGMA)
    for _ in range(n):
        flux = rng.choice([1.0, rng.uniform(-5, 5), rng.uniform(0, 1e4), 10 ** rng.uniform(-6, 6)])
        x0, y0 = rng.uniform(-20, 20), rng.uniform(-20, 20)
        fw, fx, fy = (10 ** rng.uniform(-0.7, 1.0) for _ in range(3))
        theta = rng.choice([0.0, 90.0, 180.0, -90.0, 45.0, rng.uniform(-400, 800)])
        alpha, beta = 10 ** rng.uniform(-0.7, 1.0), rng.choice([2.0, 1.0 + 10 ** rng.uniform(-2, 1)])
        scale = rng.choice([0.0, 0.3, 1.0, 3.0])
        x, y = x0 + scale * fw * rng.uniform(-1, 1), y0 + scale * fw * rng.uniform(-1, 1)
        if rng.random() < 0.3:
            x, y = float(round(x)), float(round(y))
        p = dict(x=x, y=y, flux=flux, x_0=x0, y_0=y0)
        with np.errstate(all='ignore'):
            chk('circular_gaussian_psf', dict(p, fwhm=fw), M['circular_gaussian_psf'](x, y, flux, x0, y0, fw),
                CircularGaussianPSF(flux=flux, x_0=x0, y_0=y0, fwhm=fw)(x, y))
            chk('cg_sigma', dict(fwhm=fw), M['cg_sigma'](fw), CircularGaussianPSF(fwhm=fw).sigma)
            chk('gaussian_psf', dict(p, x_fwhm=fx, y_fwhm=fy, theta=theta),
                M['gaussian_psf'](x, y, flux, x0, y0, fx, fy, theta),
                GaussianPSF(flux=flux, x_0=x0, y_0=y0, x_fwhm=fx, y_fwhm=fy, theta=theta)(x, y))
            chk('moffat_psf', dict(p, alpha=alpha, beta=beta), M['moffat_psf'](x, y, flux, x0, y0, alpha, beta),
                MoffatPSF(flux=flux, x_0=x0, y_0=y0, alpha=alpha, beta=beta)(x, y))
            chk('moffat_fwhm', dict(alpha=alpha, beta=beta), M['moffat_fwhm'](alpha, beta),
                MoffatPSF(alpha=alpha, beta=beta).fwhm)
            chk('circular_gaussian_prf', dict(p, fwhm=fw), M['circular_gaussian_prf'](x, y, flux, x0, y0, fw),
                CircularGaussianPRF(flux=flux, x_0=x0, y_0=y0, fwhm=fw)(x, y))
            chk('gaussian_prf', dict(p, x_fwhm=fx, y_fwhm=fy, theta=theta),
                M['gaussian_prf'](x, y, flux, x0, y0, fx, fy, theta),
                GaussianPRF(flux=flux, x_0=x0, y_0=y0, x_fwhm=fx, y_fwhm=fy, theta=theta)(x, y))
    ctx.cov.setdefault('translated_spans', []).append(
        {'file': 'coq/C13R_Model.v', 'tie': 'definitions parsed to floats and compared with the public API (rel 1e-12)',
         'functions': WANTED, 'cases': n, 'mismatches': len(bad)})
    if bad:
        ctx.broken_obligation('C13R-transcription-mismatch', {'first': bad[:5], 'count': len(bad)})
    return bad


def tie(ctx):
    source_tie(ctx)
    numeric_tie(ctx)


if __name__ == '__main__':     # regenerate coq/C13R_source_hashes.json from the current source
    from .core import COQ, REPO
    (COQ / 'C13R_source_hashes.json').write_text(json.dumps({
        '_comment': 'sha256 of the ast (docstrings removed, argument names included) of the methods of '
                    + SRC + ' transcribed in coq/C13R_Model.v; harness/c13r.py recomputes them from the current '
                    'source on every run; a mismatch means the real-number theorems of C13R_Properties.v speak about '
                    'an older text (broken obligation C13R-transcription-stale)',
        'functions': source_hashes(REPO)}, indent=1) + '\n')
    print('written', COQ / 'C13R_source_hashes.json')
