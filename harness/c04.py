"""C04 — detect_sources is exact connected-component labelling above threshold."""
import itertools
import warnings

import numpy as np

from .core import coq, Some, Raw

PID = 'C04'
FILES = ['lib/Cases.v', 'lib/Conn.v', 'C04_Model.v', 'C04_Proofs.v', 'C04_Properties.v']
INF = 10 ** 9


def _val(v):
    if np.isnan(v):
        return None
    if np.isinf(v):
        return Some(INF if v > 0 else -INF)
    return Some(int(v))


def gen_case(rng, small=False):
    ny = rng.randint(1, 5 if small else 10)
    nx = rng.randint(1, 5 if small else 10)
    kind = rng.choice(['binary', 'plateau', 'ramp', 'ties', 'blobs'])
    if kind == 'binary':
        dens = rng.choice([0.2, 0.4, 0.5, 0.6, 0.8])
        data = np.array([[1.0 if rng.random() < dens else 0.0 for _ in range(nx)] for _ in range(ny)])
        thr = 0.0
    elif kind == 'plateau':
        data = np.array([[float(rng.choice([0, 0, 3, 3, 5])) for _ in range(nx)] for _ in range(ny)])
        thr = float(rng.choice([0, 2, 3, 4]))
    elif kind == 'ramp':
        data = np.array([[float(rng.randint(-4, 9)) for _ in range(nx)] for _ in range(ny)])
        thr = float(rng.randint(-2, 6))
    elif kind == 'ties':
        thr = float(rng.randint(0, 4))
        data = np.array([[thr + rng.choice([-1, 0, 0, 1]) for _ in range(nx)] for _ in range(ny)])
    else:
        data = np.zeros((ny, nx))
        for _ in range(rng.randint(1, 4)):
            y, x = rng.randrange(ny), rng.randrange(nx)
            h, w = rng.randint(1, 3), rng.randint(1, 3)
            data[y:y + h, x:x + w] += rng.randint(1, 5)
        thr = float(rng.randint(0, 3))
    # diagonal-only contacts
    if rng.random() < 0.2 and ny >= 2 and nx >= 2:
        for i in range(min(ny, nx)):
            data[i, i] = thr + 2
    thr2d = None
    if rng.random() < 0.3:
        thr2d = np.array([[thr + rng.choice([-1, 0, 0, 1]) for _ in range(nx)] for _ in range(ny)], float)
    if rng.random() < 0.3:
        for _ in range(rng.randint(1, 3)):
            data[rng.randrange(ny), rng.randrange(nx)] = rng.choice([np.nan, np.inf, -np.inf])
    mask = None
    if rng.random() < 0.4:
        mask = np.array([[rng.random() < 0.25 for _ in range(nx)] for _ in range(ny)])
        if mask.all():
            mask[0, 0] = False
    conn = rng.choice([4, 8])
    npix = rng.choice([1, 1, 2, 3, 4, ny * nx])
    return dict(data=data, thr=thr2d if thr2d is not None else thr, mask=mask, conn=conn, npix=npix, kind=kind)


def run_impl(case):
    from photutils.segmentation import detect_sources
    from photutils.utils.exceptions import NoDetectionsWarning
    with warnings.catch_warnings(record=True) as w:
        warnings.simplefilter('always')
        segm = detect_sources(case['data'].copy(), case['thr'] if np.isscalar(case['thr']) else case['thr'].copy(),
                              case['npix'], connectivity=case['conn'],
                              mask=None if case['mask'] is None else case['mask'].copy())
    warned = any(issubclass(x.category, NoDetectionsWarning) for x in w)
    return segm, warned


def fresh_agrees(segm):
    """Property clause: labels/slices/areas agree with a fresh SegmentationImage."""
    from photutils.segmentation import SegmentationImage
    fresh = SegmentationImage(np.array(segm.data))
    ok = (np.array_equal(np.asarray(segm.labels), np.asarray(fresh.labels))
          and list(segm.slices) == list(fresh.slices)
          and np.array_equal(np.asarray(segm.areas), np.asarray(fresh.areas)))
    return ok


def to_coq(case, segm):
    d = case['data']
    ny, nx = d.shape
    thr = case['thr']
    thr = np.full(d.shape, thr) if np.isscalar(thr) else thr
    mask = case['mask'] if case['mask'] is not None else np.zeros(d.shape, bool)
    if segm is None:
        exp = None
    else:
        sl = [(s[0].start, s[0].stop, s[1].start, s[1].stop) for s in segm.slices]
        exp = Some(([int(v) for v in segm.data.ravel()], [int(v) for v in segm.labels],
                    [int(v) for v in segm.areas], sl))
    return coq((ny, nx, case['conn'] == 8, int(case['npix']), [_val(v) for v in d.ravel()],
                [_val(v) for v in thr.ravel()], [bool(m) for m in mask.ravel()], exp))


def oracle(case, segm):
    """Independent statement of the property on the implementation's output
    (union-find in Python), used for the violation search."""
    d = case['data']
    ny, nx = d.shape
    thr = case['thr']
    with np.errstate(invalid='ignore'):
        fg = d > thr
    if case['mask'] is not None:
        fg &= ~case['mask']
    lab = np.zeros(d.shape, int)
    cur = 0
    comps = []
    for y in range(ny):
        for x in range(nx):
            if fg[y, x] and lab[y, x] == 0:
                cur += 1
                stack = [(y, x)]
                lab[y, x] = cur
                pix = []
                while stack:
                    cy, cx = stack.pop()
                    pix.append((cy, cx))
                    for dy in (-1, 0, 1):
                        for dx in (-1, 0, 1):
                            if (dy or dx) and (case['conn'] == 8 or abs(dy) + abs(dx) == 1):
                                yy, xx = cy + dy, cx + dx
                                if 0 <= yy < ny and 0 <= xx < nx and fg[yy, xx] and lab[yy, xx] == 0:
                                    lab[yy, xx] = cur
                                    stack.append((yy, xx))
                comps.append(pix)
    out = np.zeros(d.shape, int)
    k = 0
    for pix in comps:
        if len(pix) >= case['npix']:
            k += 1
            for (y, x) in pix:
                out[y, x] = k
    if k == 0:
        return segm is None
    return segm is not None and np.array_equal(out, segm.data)


def exhaustive_cases():
    for (ny, nx) in [(1, 1), (1, 4), (2, 2), (2, 3), (3, 3), (3, 4), (4, 3)]:
        n = ny * nx
        for bits in range(1 << n):
            data = np.array([(bits >> i) & 1 for i in range(n)], float).reshape(ny, nx)
            for conn in (4, 8):
                for npix in ([1, 2, 3] if n > 6 else range(1, n + 1)):
                    yield dict(data=data, thr=0.0, mask=None, conn=conn, npix=npix, kind='exh')


def describe(case):
    return {'data': np.where(np.isnan(case['data']), None, case['data']).tolist() if False else
            [[(None if np.isnan(v) else ('inf' if v == np.inf else ('-inf' if v == -np.inf else v))) for v in r]
             for r in case['data']],
            'threshold': case['thr'] if np.isscalar(case['thr']) else case['thr'].tolist(),
            'mask': None if case['mask'] is None else case['mask'].astype(int).tolist(),
            'connectivity': case['conn'], 'npixels': int(case['npix'])}


def run(ctx):
    ctx.build(FILES)
    ctx.cov['rule'] = ('random small images (binary, plateaus, ramps, ties at threshold, blobs, diagonal contacts, '
                       'NaN/inf, 2-D thresholds, masks) x connectivity x npixels; thorough adds all binary images up '
                       'to 3x4/4x3; non-trivial = at least one pixel above threshold; distinct = distinct '
                       '(data, threshold, mask, conn, npixels)')
    ctx.assumptions += ['scipy.ndimage.label / find_objects are not modelled separately: the whole of '
                        'detect_sources (including them) is compared with the proved model on every case']
    ctx.cov['partial_clauses'] = ['detect_threshold with sigma-clipped background/error: only the given '
                                  'background/error form (background + nsigma*error) is checked, numerically']
    n = 400 if ctx.tier == 'quick' else 3000
    cases = [gen_case(ctx.rng, small=(i % 3 == 0)) for i in range(n)]
    if ctx.tier == 'thorough':
        ex = list(exhaustive_cases())
        ctx.stat('generator', 'exhaustive_binary', len(ex))
        cases += ex
    impl = []
    coq_cases = []
    for c in cases:
        segm, warned = run_impl(c)
        impl.append(segm)
        ctx.stat('kinds', c['kind'])
        ctx.stat('result', 'None' if segm is None else 'segments')
        nontrivial = bool(np.nansum(np.where(np.isfinite(c['data']), c['data'] > c['thr'], c['data'] == np.inf)) > 0)
        ctx.count_case(describe(c), nontrivial)
        # property clauses that need no model
        if (segm is None) != warned:
            ctx.violation('detect_sources:none-iff-warning', 'None returned without NoDetectionsWarning or vice versa',
                          describe(c))
        if segm is not None and not fresh_agrees(segm):
            ctx.violation('detect_sources:preseeded-attrs', 'labels/slices/areas differ from a fresh SegmentationImage',
                          describe(c))
        coq_cases.append(to_coq(c, segm))
    ctx.sample({'case': describe(cases[1]), 'impl_labels': None if impl[1] is None else impl[1].data.tolist()})
    bad = ctx.coq_eval_cases(['C04_Model'], 'check_case', coq_cases, case_type='case')
    ctx.stat('coq', 'disagreements', len(bad))
    for i in bad[:20]:
        c = cases[i]
        holds = oracle(c, impl[i])
        detail = {'case': describe(c), 'impl': None if impl[i] is None else impl[i].data.tolist(),
                  'model': ctx.coq_eval_term(['C04_Model'], f'model_out {coq_cases[i]}') if len(bad) < 50 else None,
                  'cmd': 'bin/check C04 --replay <this file>'}
        if not holds:
            ctx.violation('detect_sources:components', 'segmentation differs from the connected components above '
                          'threshold with >= npixels pixels labelled 1..N in raster order', detail)
        else:
            ctx.violation('correspondence:C04_Model.check_case', 'model and implementation disagree on derived '
                          'attributes', detail, found_input=False)
    # detect_threshold = background + nsigma * error (pixel-wise), exact lattice
    from photutils.segmentation import detect_threshold
    for _ in range(50 if ctx.tier == 'quick' else 400):
        ny, nx = ctx.rng.randint(1, 6), ctx.rng.randint(1, 6)
        data = np.array([[float(ctx.rng.randint(-5, 5)) for _ in range(nx)] for _ in range(ny)])
        bkg = np.array([[ctx.rng.randint(-8, 8) / 4 for _ in range(nx)] for _ in range(ny)])
        err = np.array([[ctx.rng.randint(0, 8) / 4 for _ in range(nx)] for _ in range(ny)])
        ns = ctx.rng.choice([0.5, 1.0, 2.0, 3.0])
        b = bkg if ctx.rng.random() < 0.7 else float(bkg[0, 0])
        e = err if ctx.rng.random() < 0.7 else float(err[0, 0])
        got = detect_threshold(data, ns, background=b, error=e)
        want = np.broadcast_to(b, data.shape) + ns * np.broadcast_to(e, data.shape)
        ctx.count_case(['thr', data.tolist(), np.asarray(b).tolist(), np.asarray(e).tolist(), ns])
        if got.shape != data.shape or not np.array_equal(got, want):
            ctx.violation('detect_threshold:formula', 'detect_threshold != background + nsigma*error',
                          {'data': data.tolist(), 'background': np.asarray(b).tolist(),
                           'error': np.asarray(e).tolist(), 'nsigma': ns, 'got': got.tolist()})
    ctx.stat('generator', 'detect_threshold_cases', 50 if ctx.tier == 'quick' else 400)
    # SourceFinder(deblend=False) equals detect_sources
    from photutils.segmentation import SourceFinder, detect_sources
    for c in cases[:60]:
        if c['mask'] is not None and c['mask'].all():
            continue
        with warnings.catch_warnings():
            warnings.simplefilter('ignore')
            a = SourceFinder(npixels=c['npix'], connectivity=c['conn'], deblend=False, progress_bar=False)(
                c['data'], c['thr'], mask=c['mask'])
            b, _ = run_impl(c)
        same = (a is None and b is None) or (a is not None and b is not None and np.array_equal(a.data, b.data))
        if not same:
            ctx.violation('SourceFinder:deblend-false', 'SourceFinder(deblend=False) != detect_sources', describe(c))


def replay(obj):
    r = obj['replay']
    c = r.get('case', r)
    case = dict(data=np.array([[np.nan if v is None else (np.inf if v == 'inf' else (-np.inf if v == '-inf' else v))
                                for v in row] for row in c['data']], float),
                thr=c['threshold'] if np.isscalar(c['threshold']) else np.array(c['threshold'], float),
                mask=None if c['mask'] is None else np.array(c['mask'], bool),
                conn=c['connectivity'], npix=c['npixels'])
    segm, _ = run_impl(case)
    ok = oracle(case, segm)
    print('impl:', None if segm is None else segm.data.tolist())
    print('property holds on this input' if ok else 'property FAILS on this input')
    return 0 if ok else 1
