"""C04 — detect_sources is exact connected-component labelling above threshold.

K: every case runs the real detect_sources; Coq evaluates check_case_path = C04_Model.check_case (one-step model:
array, labels 1..N, areas, tight slices) && the staged code-path model C04_PathModel.detect_path (scipy numbering,
find_objects before removal, removal through cutout views, label-map array, PRE-SEEDED labels/slices, areas counted
through the cached slices) && the fresh derivation from the array; check_scipy ties the modelled scipy.ndimage.label /
find_objects to scipy itself.
V: plain-Python oracles on the implementation's output: components by flood fill (oracle), attributes recomputed from
segm.data by loops and from fresh SegmentationImages queried in two orders (attrs_mismatch), None iff warning,
SourceFinder(deblend=False), detect_threshold formula."""
import itertools
import warnings
from fractions import Fraction

import numpy as np

from .core import coq, Some, Raw

PID = 'C04'
FILES = ['lib/Cases.v', 'lib/Conn.v', 'C04_Model.v', 'C04_Proofs.v', 'C04_PathModel.v', 'C04_PathProofs.v',
         'C04_Properties.v']
INF = 10 ** 9


def _val(v):
    if np.isnan(v):
        return None
    if np.isinf(v):
        return Some(INF if v > 0 else -INF)
    return Some(int(v))


def gen_case(rng, small=False):
    ny = rng.randint(1, 5 if small else 10)
    nx = rng.randint(1, 5 if small else 10)
    kind = rng.choice(['binary', 'plateau', 'ramp', 'ties', 'blobs'])
    if kind == 'binary':
        dens = rng.choice([0.2, 0.4, 0.5, 0.6, 0.8])
        data = np.array([[1.0 if rng.random() < dens else 0.0 for _ in range(nx)] for _ in range(ny)])
        thr = 0.0
    elif kind == 'plateau':
        data = np.array([[float(rng.choice([0, 0, 3, 3, 5])) for _ in range(nx)] for _ in range(ny)])
        thr = float(rng.choice([0, 2, 3, 4]))
    elif kind == 'ramp':
        data = np.array([[float(rng.randint(-4, 9)) for _ in range(nx)] for _ in range(ny)])
        thr = float(rng.randint(-2, 6))
    elif kind == 'ties':
        thr = float(rng.randint(0, 4))
        data = np.array([[thr + rng.choice([-1, 0, 0, 1]) for _ in range(nx)] for _ in range(ny)])
    else:
        data = np.zeros((ny, nx))
        for _ in range(rng.randint(1, 4)):
            y, x = rng.randrange(ny), rng.randrange(nx)
            h, w = rng.randint(1, 3), rng.randint(1, 3)
            data[y:y + h, x:x + w] += rng.randint(1, 5)
        thr = float(rng.randint(0, 3))
    # diagonal-only contacts
    if rng.random() < 0.2 and ny >= 2 and nx >= 2:
        for i in range(min(ny, nx)):
            data[i, i] = thr + 2
    thr2d = None
    if rng.random() < 0.3:
        thr2d = np.array([[thr + rng.choice([-1, 0, 0, 1]) for _ in range(nx)] for _ in range(ny)], float)
    if rng.random() < 0.3:
        for _ in range(rng.randint(1, 3)):
            data[rng.randrange(ny), rng.randrange(nx)] = rng.choice([np.nan, np.inf, -np.inf])
    mask = None
    if rng.random() < 0.4:
        mask = np.array([[rng.random() < 0.25 for _ in range(nx)] for _ in range(ny)])
        if mask.all():
            mask[0, 0] = False
    if thr2d is not None and rng.random() < 0.35:   # undefined / infinite threshold pixels (e.g. an RMS map border)
        for _ in range(rng.randint(1, 2)):
            thr2d[rng.randrange(ny), rng.randrange(nx)] = rng.choice([np.nan, np.nan, np.inf, -np.inf])
    conn = rng.choice([4, 8])
    case = dict(data=data, thr=thr2d if thr2d is not None else thr, mask=mask, conn=conn, npix=1, kind=kind)
    # npixels near the decision boundaries: component sizes and bounding-box areas (+-1), or arbitrary
    cand = [1, 1, 2, 3, 4, ny * nx]
    for pix in components(case):
        ys, xs = [p[0] for p in pix], [p[1] for p in pix]
        bb = (max(ys) - min(ys) + 1) * (max(xs) - min(xs) + 1)
        cand += [len(pix), len(pix) + 1, max(1, len(pix) - 1), bb, bb + 1, max(1, bb - 1)]
    case['npix'] = rng.choice(cand)
    # the same numbers in another dtype (all values are small integers)
    if rng.random() < 0.25 and np.isfinite(data).all():
        case['dtype'] = rng.choice(['int16', 'int32', 'int64', 'float32'])
    return case


def gen_shapes_case(rng):
    """Larger frames with irregular components (L, plus, ring, diagonal streak, staircase) placed so that
    bounding boxes overlap or nest without the components touching."""
    ny, nx = rng.randint(6, 12), rng.randint(6, 12)
    data = np.zeros((ny, nx))
    shapes = {
        'L': [(0, 0), (1, 0), (2, 0), (2, 1), (2, 2)],
        'L2': [(0, 2), (1, 2), (2, 2), (2, 1), (2, 0)],
        'plus': [(0, 1), (1, 0), (1, 1), (1, 2), (2, 1)],
        'ring': [(0, 0), (0, 1), (0, 2), (0, 3), (1, 0), (1, 3), (2, 0), (2, 3), (3, 0), (3, 1), (3, 2), (3, 3)],
        'diag': [(0, 0), (1, 1), (2, 2), (3, 3)],
        'stair': [(0, 0), (0, 1), (1, 1), (1, 2), (2, 2), (2, 3)],
        'dot': [(0, 0)],
        'bar': [(0, 0), (0, 1), (0, 2), (0, 3), (0, 4)],
        'blob': [(0, 0), (0, 1), (0, 2), (1, 0), (1, 1), (1, 2), (2, 0), (2, 1), (2, 2), (3, 1)],
    }
    for _ in range(rng.randint(2, 5)):
        name = rng.choice(list(shapes))
        pts = shapes[name]
        if rng.random() < 0.5:
            pts = [(x, y) for (y, x) in pts]
        if rng.random() < 0.5:
            pts = [(-y, x) for (y, x) in pts]
        oy, ox = rng.randint(-1, ny - 1), rng.randint(-1, nx - 1)
        v = rng.randint(2, 6)
        for (y, x) in pts:
            yy, xx = oy + y - min(p[0] for p in pts), ox + x - min(p[1] for p in pts)
            if 0 <= yy < ny and 0 <= xx < nx:
                data[yy, xx] = v
    thr = float(rng.choice([0, 1, 1, 2]))
    mask = None
    if rng.random() < 0.2:
        mask = np.array([[rng.random() < 0.1 for _ in range(nx)] for _ in range(ny)])
    conn = rng.choice([4, 8])
    case = dict(data=data, thr=thr, mask=mask, conn=conn, npix=1, kind='shapes')
    cand = [1, 2]
    for pix in components(case):
        ys, xs = [p[0] for p in pix], [p[1] for p in pix]
        bb = (max(ys) - min(ys) + 1) * (max(xs) - min(xs) + 1)
        cand += [len(pix), len(pix) + 1, bb, bb + 1, bb + 2, 2 * bb]
    case['npix'] = rng.choice(cand)
    return case


LAYOUTS = ['C', 'F', 'T', 'strided', 'rev', 'swap']


def with_layout(a, layout):
    """The same 2-D array (same shape, dtype kind and values) in another memory layout.  The answer of detect_sources
    is a function of the values only."""
    a = np.asarray(a)
    if layout == 'F':        # Fortran-ordered copy
        out = np.asfortranarray(a)
    elif layout == 'T':      # transposed view of the C-ordered transposed scene (F-contiguous, does not own its data)
        out = np.ascontiguousarray(a.T).T
    elif layout == 'strided':   # non-contiguous view into a larger array whose other cells hold junk
        ny, nx = a.shape
        if a.dtype == bool:
            big = np.indices((2 * ny + 1, 3 * nx + 2)).sum(axis=0) % 2 == 0
        else:
            big = np.full((2 * ny + 1, 3 * nx + 2), 77).astype(a.dtype)
        out = big[1:1 + 2 * ny:2, 2:2 + 3 * nx:3]
        out[...] = a
    elif layout == 'rev':    # negative strides on both axes
        out = a[::-1, ::-1].copy()[::-1, ::-1]
    elif layout == 'swap':   # non-native byte order (no effect on one-byte types)
        out = a.astype(a.dtype.newbyteorder('S'))
    else:
        out = np.ascontiguousarray(a).copy()
    assert out.shape == a.shape and np.array_equal(out, a, equal_nan=(a.dtype.kind == 'f'))
    return out


def assign_layout(rng, case):
    """Memory layouts of data / 2-D threshold / mask: mostly the same for the three (an F-ordered scene stays F-ordered
    through `data > threshold` and `&= inverse_mask`), sometimes independent."""
    r = rng.random()
    if r < 0.4:
        lay = {'data': 'C', 'thr': 'C', 'mask': 'C'}
    elif r < 0.85:
        k = rng.choice(LAYOUTS[1:])
        lay = {'data': k, 'thr': k, 'mask': k}
    else:
        lay = {'data': rng.choice(LAYOUTS), 'thr': rng.choice(LAYOUTS), 'mask': rng.choice(LAYOUTS)}
    case['layout'] = lay
    return case


SCENE_BIG = {
    'L': [(0, 0), (1, 0), (2, 0), (2, 1), (2, 2)],
    'tallL': [(0, 0), (1, 0), (2, 0), (3, 0), (3, 1), (3, 2)],
    'wideL': [(0, 0), (1, 0), (1, 1), (1, 2), (1, 3)],
    'U': [(0, 0), (1, 0), (2, 0), (2, 1), (2, 2), (1, 2), (0, 2)],
    'wideU': [(0, 0), (1, 0), (2, 0), (2, 1), (2, 2), (2, 3), (1, 3), (0, 3)],
    'ring': [(0, 0), (0, 1), (0, 2), (0, 3), (1, 0), (1, 3), (2, 0), (2, 3), (3, 0), (3, 1), (3, 2), (3, 3)],
    'bigring': [(0, 0), (0, 1), (0, 2), (0, 3), (0, 4), (1, 0), (1, 4), (2, 0), (2, 4), (3, 0), (3, 4),
                (4, 0), (4, 1), (4, 2), (4, 3), (4, 4)],
    'stair': [(0, 0), (0, 1), (1, 1), (1, 2), (2, 2), (2, 3)],
    'hook': [(0, 0), (0, 1), (0, 2), (1, 2), (2, 2), (2, 1)],
    'T': [(0, 0), (0, 1), (0, 2), (1, 1), (2, 1)],
    'plus': [(0, 1), (1, 0), (1, 1), (1, 2), (2, 1)],
    'bar': [(0, 0), (0, 1), (0, 2), (0, 3)],
    'square': [(0, 0), (0, 1), (1, 0), (1, 1)],
    'S': [(0, 1), (0, 2), (1, 1), (2, 1), (2, 0)],
}
SCENE_SMALL = {'dot': [(0, 0)], 'pair': [(0, 0), (0, 1)], 'tri': [(0, 0), (0, 1), (1, 0)]}


def gen_scene_case(rng):
    """Several kept (>= 4 pixels) irregular components whose bounding boxes overlap / nest / interleave without the
    components touching, plus 1..4 small components (1-3 pixels, pruned by a typical npixels) dropped anywhere: before,
    between and after the kept ones in raster order, inside and outside their bounding boxes.  Every arrangement of
    'pruned' and 'kept' labels in scipy's numbering, with intruders from lower- and higher-numbered components inside
    a kept component's bounding box, has positive probability."""
    conn = rng.choice([4, 8])
    ny, nx = rng.randint(5, 12), rng.randint(5, 12)
    occupied = {}
    boxes = []

    def transform(pts):
        if rng.random() < 0.5:
            pts = [(x, y) for (y, x) in pts]
        if rng.random() < 0.5:
            pts = [(-y, x) for (y, x) in pts]
        if rng.random() < 0.5:
            pts = [(y, -x) for (y, x) in pts]
        my, mx = min(p[0] for p in pts), min(p[1] for p in pts)
        return [(y - my, x - mx) for (y, x) in pts]

    def free(pts):
        for (y, x) in pts:
            if not (0 <= y < ny and 0 <= x < nx):
                return False
            for dy in (-1, 0, 1):
                for dx in (-1, 0, 1):
                    # never edge-adjacent; corner contact allowed only under 4-connectivity (and then only sometimes)
                    if (y + dy, x + dx) in occupied and (conn == 8 or dy == 0 or dx == 0 or not diag_ok):
                        return False
        return True

    def bbox(pts):
        return (min(p[0] for p in pts), max(p[0] for p in pts), min(p[1] for p in pts), max(p[1] for p in pts))

    def meets(b, c):
        return not (b[1] < c[0] or c[1] < b[0] or b[3] < c[2] or c[3] < b[2])

    diag_ok = rng.random() < 0.3
    nbig = rng.randint(1, 4)
    for i in range(nbig):
        shape = transform(SCENE_BIG[rng.choice(sorted(SCENE_BIG))])
        for attempt in range(40):
            oy, ox = rng.randint(0, ny - 1), rng.randint(0, nx - 1)
            pts = [(oy + y, ox + x) for (y, x) in shape]
            if not free(pts):
                continue
            # the first tries insist on an overlap with the bounding box of a component already placed
            if boxes and attempt < 30 and not any(meets(bbox(pts), b) for b in boxes):
                continue
            v = rng.randint(2, 6)
            for q in pts:
                occupied[q] = v
            boxes.append(bbox(pts))
            break
    nsmall = rng.randint(0, 4)
    for i in range(nsmall):
        shape = transform(SCENE_SMALL[rng.choice(['dot', 'dot', 'pair', 'pair', 'tri'])])
        where = rng.choice(['any', 'any', 'top', 'bottom', 'inbox'])
        for attempt in range(30):
            if where == 'top':
                oy, ox = rng.randint(0, 1), rng.randint(0, nx - 1)
            elif where == 'bottom':
                oy, ox = rng.randint(ny - 2, ny - 1), rng.randint(0, nx - 1)
            elif where == 'inbox' and boxes:
                b = rng.choice(boxes)
                oy, ox = rng.randint(b[0], b[1]), rng.randint(b[2], b[3])
            else:
                oy, ox = rng.randint(0, ny - 1), rng.randint(0, nx - 1)
            pts = [(oy + y, ox + x) for (y, x) in shape]
            if free(pts):
                v = rng.randint(2, 6)
                for q in pts:
                    occupied[q] = v
                break
    data = np.zeros((ny, nx))
    for (y, x), v in occupied.items():
        data[y, x] = v
    thr = float(rng.choice([0, 1, 1]))
    mask = None
    if rng.random() < 0.15:     # a few masked pixels split / shrink components
        mask = np.zeros((ny, nx), bool)
        for _ in range(rng.randint(1, 3)):
            mask[rng.randrange(ny), rng.randrange(nx)] = True
    case = dict(data=data, thr=thr, mask=mask, conn=conn, npix=1, kind='scene')
    sizes = sorted(len(pix) for pix in components(case))
    cand = [2, 3, 4, 4]
    for k in sizes:
        cand += [k, k + 1]
    case['npix'] = rng.choice(cand)
    return case


# ---------------------------------------------------------------------------------------------------------------
# image dtype x threshold representation, values at the rounding boundaries of the narrower type
# ---------------------------------------------------------------------------------------------------------------
_NPDT = {'float64': np.float64, 'float32': np.float32, 'float16': np.float16, 'f64': np.float64, 'f32': np.float32,
         'f16': np.float16, 'npf64': np.float64, 'npf32': np.float32, 'npf16': np.float16, 'pyfloat': np.float64,
         'f64-0d': np.float64, 'f32-0d': np.float32}


def _snap(v, kind):
    """v rounded into the value set of `kind` (a float dtype name or an integer kind), returned exactly as float64."""
    if kind in _NPDT:
        with np.errstate(over='ignore'):
            return float(_NPDT[kind](v))
    return float(round(v))


def _step(v, kind, up):
    """The neighbour of v (a member of the value set of `kind`) in that value set."""
    if kind in _NPDT:
        dt = _NPDT[kind]
        return float(np.nextafter(dt(v), dt(np.inf if up else -np.inf)))
    return v + (1.0 if up else -1.0)


def _around(v, kind, other, rng):
    """A value of `other`'s value set close to v (member of `kind`'s value set): equal / adjacent in `other` / inside
    the rounding interval of v in `kind` (a quarter of the spacing away: rounds to v in `kind` but differs from it)."""
    how = rng.choice(['same', 'up', 'down', 'quarter-up', 'quarter-down', 'up2', 'down2'])
    w = _snap(v, other)
    if how == 'same':
        return w
    if how in ('up', 'down'):
        return _step(w, other, how == 'up')
    if how in ('up2', 'down2'):
        return _step(_step(w, other, how == 'up2'), other, how == 'up2')
    q = (_step(v, kind, True) - v) / 4 if how == 'quarter-up' else -(v - _step(v, kind, False)) / 4
    return _snap(v + q, other)


def gen_precision_case(rng):
    """Image dtype in {float64, float32, float16, integers} x threshold given as a 2-D array (float64 / float32 /
    float16 / int32), a Python float / int, a numpy scalar or a 0-d array.  On the bright pixels data and threshold
    sit on, next to, or within the rounding interval of each other in the narrower of the two types (ties, one
    float64 step apart, values that only round to the other one).  case['data'] / case['thr'] hold the exact values
    (float64 holds every float16 / float32 / small integer exactly); the expected answer is the exact comparison."""
    ny, nx = rng.randint(2, 7), rng.randint(2, 7)
    dtype = rng.choice(['float32', 'float32', 'float32', 'float16', 'float64', 'int16', 'int32', 'uint8', 'int64'])
    two_d = rng.random() < 0.6
    rep = (rng.choice(['f64', 'f64', 'f64', 'f32', 'f16', 'i32']) if two_d else
           rng.choice(['pyfloat', 'pyfloat', 'npf64', 'npf64', 'npf32', 'npf16', 'pyint', 'f64-0d', 'f32-0d']))
    dk = dtype if dtype.startswith('float') else 'int'
    tk = rep if rep in _NPDT else 'int'
    signed = dtype != 'uint8'
    bases = [0.1, 0.3, 0.7, 1.1, 2.3, 1 / 3, 0.001, 100.1, 5.0, 17.0, 0.1 + 2 * 0.1, 2.5, 0.5, 33.3, 1e-3 + 1e-4]

    def base():
        c = rng.choice(bases) * rng.choice([1, 1, 1, 2, 3, 0.5])
        if dk == 'int' or tk == 'int':
            c = c + rng.randint(0, 40)
        return -c if (signed and rng.random() < 0.15) else c

    bright = np.zeros((ny, nx), bool)
    for _ in range(rng.randint(1, 3)):
        y, x = rng.randrange(ny), rng.randrange(nx)
        bright[y:y + rng.randint(1, 3), x:x + rng.randint(1, 4)] = True
    data = np.zeros((ny, nx))
    thr = np.zeros((ny, nx))
    t0 = None
    if not two_d:
        c = base()
        if rng.random() < 0.5:       # a threshold that is (usually) not a member of the image's value set
            t0 = _around(_snap(c, dk), dk, tk, rng)
        else:
            t0 = _snap(c, tk)
    for y in range(ny):
        for x in range(nx):
            if two_d:
                c = base()
                if rng.random() < 0.5:          # anchor on the data value, threshold around it
                    d = _snap(c, dk)
                    t = _around(d, dk, tk, rng)
                else:                           # anchor on the threshold, data around it
                    t = _snap(c, tk)
                    d = _around(t, tk, dk, rng)
            else:
                t = t0
                d = _around(_snap(t, dk), dk, dk, rng) if rng.random() < 0.8 else _around(t, tk, dk, rng)
            if not bright[y, x] and rng.random() < 0.8:      # background: clearly below
                d = _snap(t - abs(t) / 2 - 1, dk) if signed else 0.0
            elif bright[y, x] and rng.random() < 0.25:       # clearly above
                d = _snap(t + abs(t) / 2 + 1, dk)
            data[y, x], thr[y, x] = d, t
    if dk != 'int' and rng.random() < 0.15:      # +inf pixels against a finite threshold beyond the narrow range
        y, x = rng.randrange(ny), rng.randrange(nx)
        data[y, x] = np.inf
        if two_d and tk == 'f64':
            thr[y, x] = 1e39 if dtype == 'float32' else (1e5 if dtype == 'float16' else 1e300)
    if dk != 'int' and rng.random() < 0.1:
        data[rng.randrange(ny), rng.randrange(nx)] = np.nan
    if dtype == 'uint8':
        data = np.clip(data, 0, 255)
    mask = None
    if rng.random() < 0.2:
        mask = np.array([[rng.random() < 0.15 for _ in range(nx)] for _ in range(ny)])
        if mask.all():
            mask[0, 0] = False
    case = dict(data=data, thr=thr if two_d else t0, mask=mask, conn=rng.choice([4, 8]), npix=1, kind='precision',
                dtype=dtype, thr_repr=rep)
    cand = [1, 1, 2]
    for pix in components(case):
        cand += [len(pix), len(pix) + 1]
    case['npix'] = rng.choice(cand)
    return case


WEAK_SIG = 'detect_sources:python-float-threshold-rounded-to-image-dtype'
WEAK_WHAT = ('a Python float threshold with a float32/float16 image is rounded to the image dtype by `data > threshold` in '
             '_detect_sources (NumPy weak scalars): pixels strictly above the threshold as passed are not detected; the answer '
             'is the exact labelling for the rounded threshold')


def directed_cases():
    """Present on every run of both tiers (no PRNG draw): plateaus of float32(0.3) / float16(0.3) against the Python
    float 0.1 + 2*0.1 = 0.30000000000000004 (strictly below both), and the same value as np.float64 scalar / 2-D float64
    map, which must be compared exactly."""
    t = 0.1 + 2 * 0.1
    out = []
    for dtype in ('float32', 'float16'):
        v = float(_NPDT[dtype](0.3))
        data = np.array([[v, v, 0.0], [v, v, 0.0]])
        for rep in ('pyfloat', 'npf64', 'f64'):
            out.append(dict(data=data.copy(), thr=np.full(data.shape, t) if rep == 'f64' else t, mask=None, conn=8, npix=4,
                            kind='directed', dtype=dtype, thr_repr=rep, layout={'data': 'C', 'thr': 'C', 'mask': 'C'}))
    return out


def weak_scalar_threshold(case):
    """NumPy (NEP 50) treats a Python float / int operand as weakly typed: `float32_array > python_float` converts the
    scalar to float32 first.  Returns the value the comparison then really uses when it differs from the value the
    caller passed, else None."""
    if case.get('thr_repr') not in ('pyfloat', 'pyint') or case.get('dtype') not in ('float32', 'float16'):
        return None
    with np.errstate(over='ignore'):
        eff = float(_NPDT[case['dtype']](case['thr']))
    return None if eff == float(case['thr']) else eff


def snapshot(x):
    """Bitwise image of an argument (None / scalar / ndarray in any layout / Quantity)."""
    if x is None or isinstance(x, (bool, int, float)):
        return repr(x)
    unit = getattr(x, 'unit', None)
    a = np.asarray(getattr(x, 'value', x))
    return (str(unit), a.dtype.str, a.shape, a.tobytes())


def thr_object(case):
    """The threshold argument in the case's representation: 2-D array of a dtype, Python float / int, numpy scalar,
    0-d array.  case['thr'] always holds the exact values as float64 (scalar or 2-D)."""
    t = case['thr']
    rep = case.get('thr_repr')
    if rep is None:
        return t
    if np.isscalar(t):
        obj = {'pyfloat': float, 'pyint': lambda v: int(round(v)), 'npf64': np.float64, 'npf32': np.float32,
               'npf16': np.float16, 'f64-0d': lambda v: np.array(v, np.float64),
               'f32-0d': lambda v: np.array(v, np.float32)}[rep](t)
        assert float(obj) == float(t), (rep, t)      # the representation holds the value exactly
        return obj
    dt = {'f64': np.float64, 'f32': np.float32, 'f16': np.float16, 'i32': np.int32, 'i16': np.int16}[rep]
    with np.errstate(invalid='ignore', over='ignore'):
        obj = t.astype(dt)
    assert np.array_equal(obj.astype(np.float64), t, equal_nan=True), (rep, t)
    return obj


def impl_args(case):
    """Fresh (data, threshold, mask) arguments for the implementation, in the case's dtypes and memory layouts."""
    lay = case.get('layout') or {}
    data = case['data'].copy() if not case.get('dtype') else case['data'].astype(case['dtype'])
    if case.get('dtype'):
        assert np.array_equal(data.astype(np.float64), case['data'], equal_nan=True)   # the dtype holds the values exactly
    data = with_layout(data, lay.get('data', 'C'))
    thr = thr_object(case)
    if np.ndim(thr) == 2:
        thr = with_layout(thr, lay.get('thr', 'C'))
    mask = None if case['mask'] is None else with_layout(case['mask'], lay.get('mask', 'C'))
    return data, thr, mask


def run_impl(case):
    from photutils.segmentation import detect_sources
    from photutils.utils.exceptions import NoDetectionsWarning
    with warnings.catch_warnings(record=True) as w:
        warnings.simplefilter('always')
        data, thr, mask = impl_args(case)
        before = [snapshot(data), snapshot(thr), snapshot(mask)]
        segm = detect_sources(data, thr, case['npix'], connectivity=case['conn'], mask=mask)
        after = [snapshot(data), snapshot(thr), snapshot(mask)]
    case['_modified'] = [k for k, b, a in zip(('data', 'threshold', 'mask'), before, after) if a != b]
    warned = any(issubclass(x.category, NoDetectionsWarning) for x in w)
    return segm, warned


# ---------------------------------------------------------------------------------------------------------------
# histories: the same argument objects re-used across consecutive calls
# ---------------------------------------------------------------------------------------------------------------
def gen_history(rng):
    """A JSON-able script: one image, one background and one error (scalar or 2-D, several dtypes / layouts, optionally
    Quantities), an optional mask, 2-4 detect_threshold calls with different nsigma on the SAME objects, then 2-3
    detect_sources / SourceFinder calls with different npixels / connectivity on the SAME data / threshold / mask
    objects (threshold = the array returned by the last detect_threshold call).  All values are multiples of 1/4 so
    background + nsigma*error is exact in float64."""
    ny, nx = rng.randint(2, 6), rng.randint(2, 7)
    spec = {'kind': 'history', 'ny': ny, 'nx': nx,
            'dtype': rng.choice(['float64', 'float64', 'float32', 'int32', 'int16']),
            'data': [[rng.randint(-2, 12) for _ in range(nx)] for _ in range(ny)],
            'units': rng.random() < 0.2}
    for name, lo in (('background', -8), ('error', 0)):
        form = rng.choice(['2d', '2d', '2d', 'scalar'])
        spec[name] = {'form': form, 'dtype': rng.choice(['float64', 'float64', 'float32']),
                      'layout': rng.choice(LAYOUTS),
                      'values': ([[rng.randint(lo, 8) / 4 for _ in range(nx)] for _ in range(ny)] if form == '2d'
                                 else rng.randint(lo, 8) / 4)}
    spec['data_layout'] = rng.choice(LAYOUTS)
    spec['mask'] = None
    if rng.random() < 0.4:
        m = [[int(rng.random() < 0.2) for _ in range(nx)] for _ in range(ny)]
        m[0][0] = 0
        spec['mask'] = m
        spec['mask_layout'] = rng.choice(LAYOUTS)
    spec['nsigmas'] = [rng.choice([0.5, 1.0, 2.0, 3.0, 1.5, 4.0, 2.5]) for _ in range(rng.randint(2, 4))]
    spec['detect'] = [{'api': rng.choice(['detect_sources', 'detect_sources', 'SourceFinder']),
                       'npixels': rng.randint(1, 4), 'connectivity': rng.choice([4, 8])}
                      for _ in range(rng.randint(2, 3))]
    return spec


def run_history(spec):
    """Run the script on the implementation.  Returns a list of (signature, description) failures."""
    import astropy.units as u
    from photutils.segmentation import SourceFinder, detect_sources, detect_threshold
    fails = []
    unit = u.Jy if spec['units'] else None

    def build(values, dtype, layout):
        if np.ndim(values) == 0:
            obj = float(values)
            return (obj * unit if unit is not None else obj), float(values)
        a = with_layout(np.array(values, float).astype(dtype), layout)
        return (u.Quantity(a, unit, copy=False) if unit is not None else a), np.array(values, float)

    data, data0 = build(spec['data'], spec['dtype'], spec['data_layout'])
    bkg, bkg0 = build(spec['background']['values'], spec['background']['dtype'], spec['background']['layout'])
    err, err0 = build(spec['error']['values'], spec['error']['dtype'], spec['error']['layout'])
    mask = None if spec['mask'] is None else with_layout(np.array(spec['mask'], bool), spec['mask_layout'])
    mask0 = None if mask is None else np.array(spec['mask'], bool)
    live = {'data': data, 'background': bkg, 'error': err, 'mask': mask}
    snaps = {k: snapshot(v) for k, v in live.items()}

    def unchanged(sig, step):
        for k, v in live.items():
            if snapshot(v) != snaps[k]:
                fails.append((sig, f'{step}: argument `{k}` was modified in place'))
                snaps[k] = snapshot(v)      # report each modification once

    thr = want = None
    for i, ns in enumerate(spec['nsigmas']):
        step = f'detect_threshold call {i + 1} (nsigma={ns})'
        try:
            with warnings.catch_warnings():
                warnings.simplefilter('ignore')
                thr = detect_threshold(data, ns, background=bkg, error=err)
        except Exception as e:
            fails.append(('detect_threshold:exception', f'{step}: {type(e).__name__}: {str(e)[:150]}'))
            return fails
        want = np.broadcast_to(bkg0, data0.shape) + ns * np.broadcast_to(err0, data0.shape)    # from the ORIGINAL values
        got = np.asarray(getattr(thr, 'value', thr))
        if (unit is not None) != hasattr(thr, 'unit') or got.shape != want.shape or not np.array_equal(got, want):
            fails.append(('detect_threshold:history', f'{step}: result != background + nsigma*error of the original '
                          f'arrays: got {got.tolist()}, want {want.tolist()}'))
        unchanged('detect_threshold:input-modified', step)
    live['threshold'] = thr
    snaps['threshold'] = snapshot(thr)
    thr_true = np.asarray(getattr(thr, 'value', thr)).astype(float)    # what the later calls are given
    for i, d in enumerate(spec['detect']):
        step = f"{d['api']} call {i + 1} (npixels={d['npixels']}, connectivity={d['connectivity']})"
        case = dict(data=data0, thr=thr_true, mask=mask0, conn=d['connectivity'], npix=d['npixels'])
        try:
            with warnings.catch_warnings():
                warnings.simplefilter('ignore')
                if d['api'] == 'detect_sources':
                    segm = detect_sources(data, thr, d['npixels'], connectivity=d['connectivity'], mask=mask)
                else:
                    segm = SourceFinder(npixels=d['npixels'], connectivity=d['connectivity'], deblend=False,
                                        progress_bar=False)(data, thr, mask=mask)
        except Exception as e:
            fails.append((d['api'] + ':exception', f'{step}: {type(e).__name__}: {str(e)[:150]}'))
            continue
        if not oracle(case, segm):
            fails.append((d['api'] + ':history', f'{step}: segmentation differs from the connected components of the '
                          f'original data above the threshold handed over: '
                          f'{None if segm is None else segm.data.tolist()}'))
        elif segm is not None and attrs_mismatch(segm):
            fails.append((d['api'] + ':preseeded-attrs', f'{step}: ' + ', '.join(attrs_mismatch(segm))))
        unchanged(d['api'] + ':input-modified', step)
    return fails


def fresh_agrees(segm):
    """Property clause: labels/slices/areas agree with a fresh SegmentationImage."""
    from photutils.segmentation import SegmentationImage
    fresh = SegmentationImage(np.array(segm.data))
    try:
        ok = (np.array_equal(np.asarray(segm.labels), np.asarray(fresh.labels))
              and list(segm.slices) == list(fresh.slices)
              and np.array_equal(np.asarray(segm.areas), np.asarray(fresh.areas)))
    except Exception:       # e.g. cached labels and slices of different lengths: `areas` raises
        ok = False
    return ok


def plain_attrs(arr):
    """labels / areas / tight slices of a label array, recomputed with plain Python loops (no
    SegmentationImage, no scipy, no numpy reductions): the meaning of the three attributes."""
    arr = np.asarray(arr)
    ny, nx = arr.shape
    box = {}
    cnt = {}
    for y in range(ny):
        for x in range(nx):
            v = int(arr[y, x])
            if v == 0:
                continue
            cnt[v] = cnt.get(v, 0) + 1
            b = box.get(v)
            box[v] = (y, y + 1, x, x + 1) if b is None else (min(b[0], y), max(b[1], y + 1), min(b[2], x), max(b[3], x + 1))
    labels = sorted(cnt)
    return labels, [cnt[v] for v in labels], [box[v] for v in labels]


def attrs_of(segm):
    """Every label-derived public attribute of a SegmentationImage, canonicalised to plain Python."""
    sl = [(s[0].start, s[0].stop, s[1].start, s[1].stop) for s in segm.slices]
    bb = [(b.iymin, b.iymax, b.ixmin, b.ixmax) for b in segm.bbox]
    return {'labels': [int(v) for v in segm.labels], 'areas': [int(v) for v in segm.areas], 'slices': sl, 'bbox': bb,
            'nlabels': int(segm.nlabels), 'max_label': int(segm.max_label),
            'is_consecutive': bool(segm.is_consecutive), 'missing_labels': [int(v) for v in segm.missing_labels],
            'background_area': int(segm.background_area),
            'segments': [(int(g.label), (g.slices[0].start, g.slices[0].stop, g.slices[1].start, g.slices[1].stop),
                          int(g.area)) for g in segm.segments],
            'get_areas': [int(v) for v in segm.get_areas(list(segm.labels))] if segm.nlabels else [],
            'get_indices': [int(v) for v in segm.get_indices(list(segm.labels))] if segm.nlabels else []}


def attrs_mismatch(segm):
    """Names of the attributes of the detector's (pre-seeded) SegmentationImage that differ from (a) their plain
    Python meaning recomputed from segm.data and (b) a fresh SegmentationImage of a copy of the same array, queried in
    two different orders (labels first / slices first: the two branches of the `labels` lazyproperty)."""
    from photutils.segmentation import SegmentationImage
    data = np.array(segm.data)
    labels, areas, slices = plain_attrs(data)
    n = len(labels)
    mx = max(labels) if labels else 0
    want = {'labels': labels, 'areas': areas, 'slices': slices, 'bbox': slices, 'nlabels': n, 'max_label': mx,
            'is_consecutive': n > 0 and labels == list(range(1, n + 1)),
            'missing_labels': [v for v in range(1, mx + 1) if v not in set(labels)],
            'background_area': int(data.size - sum(areas)),
            'segments': list(zip(labels, slices, areas)), 'get_areas': areas, 'get_indices': list(range(n))}
    try:
        got = attrs_of(segm)
    except Exception as e:  # inconsistent caches (e.g. labels and slices of different lengths) make attributes raise
        return [f'exception:{type(e).__name__}: {str(e)[:120]}']
    bad = ['plain:' + k for k in want if got[k] != want[k]]
    if not np.array_equal(np.asarray(segm.data), data) or np.asarray(segm.data).shape != data.shape:
        bad.append('data-changed-by-attribute-access')
    f1 = SegmentationImage(data.copy())
    _ = f1.labels
    f2 = SegmentationImage(data.copy())
    _ = f2.slices          # _raw_slices first: `labels` then takes its other branch
    for tag, f in (('fresh:', f1), ('fresh-slices-first:', f2)):
        g = attrs_of(f)
        bad += [tag + k for k in want if got[k] != g[k]]
        if np.asarray(segm.labels).dtype != np.asarray(f.labels).dtype:
            bad.append(tag + 'labels-dtype')
    return sorted(set(bad))


def scipy_to_coq(case):
    """The two scipy calls of _detect_sources on this case's foreground, as a Coq term for check_scipy."""
    from scipy.ndimage import find_objects
    from scipy.ndimage import label as ndi_label
    from photutils.segmentation.utils import _make_binary_structure
    d = case['data']
    with np.errstate(invalid='ignore'):
        fg = d > case['thr']
    if case['mask'] is not None:
        fg = fg & ~case['mask']
    img, k = ndi_label(fg, structure=_make_binary_structure(2, case['conn']))
    sl = [(s[0].start, s[0].stop, s[1].start, s[1].stop) for s in find_objects(img)]
    return coq((d.shape[0], d.shape[1], case['conn'] == 8, [bool(v) for v in fg.ravel()],
                [int(v) for v in img.ravel()], int(k), sl))


def to_coq(case, segm):
    d = case['data']
    ny, nx = d.shape
    thr = case['thr']
    thr = np.full(d.shape, thr) if np.isscalar(thr) else thr
    mask = case['mask'] if case['mask'] is not None else np.zeros(d.shape, bool)
    if segm is None:
        exp = None
    else:
        sl = [(s[0].start, s[0].stop, s[1].start, s[1].stop) for s in segm.slices]
        exp = Some(([int(v) for v in segm.data.ravel()], [int(v) for v in segm.labels],
                    [int(v) for v in segm.areas], sl))
    val = _val
    fin = [float(v) for a in (d, thr) for v in a.ravel() if np.isfinite(v)]
    if any(v != int(v) or abs(v) > 10 ** 6 for v in fin):
        # the model only compares threshold < data: an order-preserving map of the exact values (every float is a
        # rational) to integers is a faithful encoding
        rank = {q: i for i, q in enumerate(sorted({Fraction(v) for v in fin}))}

        def val(v):
            return _val(v) if not np.isfinite(v) else Some(rank[Fraction(float(v))])
    return coq((ny, nx, case['conn'] == 8, int(case['npix']), [val(v) for v in d.ravel()],
                [val(v) for v in thr.ravel()], [bool(m) for m in mask.ravel()], exp))


def gen_intruder_case(rng):
    """A small irregular component whose bounding box (area < npixels) also holds a pixel of a large,
    qualifying component that does not touch it; rotated/flipped at random."""
    conn = rng.choice([4, 8])
    small = rng.choice([
        [(0, 0), (1, 0), (2, 0), (2, 1), (2, 2)],            # L
        [(0, 0), (1, 0), (2, 0), (3, 0), (3, 1), (3, 2)],    # tall L
        [(2, 0), (2, 1), (2, 2), (1, 0)],                    # low L
        [(1, 0), (2, 0), (2, 1), (2, 2), (2, 3)],            # wide L
        [(0, 0), (1, 1), (2, 2)] if conn == 8 else [(0, 0), (1, 0), (2, 0), (2, 1)],
        [(2, 0), (2, 1), (1, 1), (2, 2), (2, 3)],            # T lying down
    ])
    h = max(p[0] for p in small) + 1
    w = max(p[1] for p in small) + 1
    bb = h * w
    npix = bb + rng.randint(1, 3)

    def adjacent(a, b):
        dy, dx = abs(a[0] - b[0]), abs(a[1] - b[1])
        return (dy + dx == 1) if conn == 4 else (max(dy, dx) == 1)
    top = [(0, x) for x in range(w) if (0, x) not in small and not any(adjacent((0, x), q) for q in small)]
    bw = (npix + 1) // 2 + rng.randint(0, 1)
    ny, nx = h + 3 + rng.randint(0, 2), max(w, bw) + rng.randint(1, 3)
    data = np.zeros((ny, nx))
    oy, ox = 3, rng.randint(0, nx - w)
    v1, v2 = rng.randint(2, 5), rng.randint(2, 5)
    for (y, x) in small:
        data[oy + y, ox + x] = v1
    if top:
        cx = ox + rng.choice(top)[1]
        data[oy, cx] = v2
        data[oy - 1, cx] = v2
        x0 = max(0, min(cx - rng.randint(0, bw - 1), nx - bw))
        data[oy - 3:oy - 1, x0:x0 + bw] = v2
        if not (x0 <= cx < x0 + bw):
            data[oy - 2, min(cx, x0):max(cx, x0 + bw)] = v2
    k = rng.randint(0, 3)
    data = np.rot90(data, k).copy()
    if rng.random() < 0.5:
        data = data[:, ::-1].copy()
    return dict(data=data, thr=float(rng.choice([0, 1])), mask=None, conn=conn, npix=npix, kind='intruder')


def components(case):
    """Connected components (lists of pixels, raster order of first pixel) of the unmasked pixels
    strictly above threshold — plain Python flood fill, independent of scipy and of the Coq model."""
    d = case['data']
    ny, nx = d.shape
    with np.errstate(invalid='ignore'):
        fg = d > case['thr']
    if case['mask'] is not None:
        fg = fg & ~case['mask']
    lab = np.zeros(d.shape, int)
    cur = 0
    comps = []
    for y in range(ny):
        for x in range(nx):
            if fg[y, x] and lab[y, x] == 0:
                cur += 1
                stack = [(y, x)]
                lab[y, x] = cur
                pix = []
                while stack:
                    cy, cx = stack.pop()
                    pix.append((cy, cx))
                    for dy in (-1, 0, 1):
                        for dx in (-1, 0, 1):
                            if (dy or dx) and (case['conn'] == 8 or abs(dy) + abs(dx) == 1):
                                yy, xx = cy + dy, cx + dx
                                if 0 <= yy < ny and 0 <= xx < nx and fg[yy, xx] and lab[yy, xx] == 0:
                                    lab[yy, xx] = cur
                                    stack.append((yy, xx))
                comps.append(pix)
    return comps


def oracle(case, segm):
    """Independent statement of the property on the implementation's output, used for the violation search."""
    out = np.zeros(case['data'].shape, int)
    k = 0
    for pix in components(case):
        if len(pix) >= case['npix']:
            k += 1
            for (y, x) in pix:
                out[y, x] = k
    if k == 0:
        return segm is None
    return segm is not None and np.array_equal(out, segm.data)


def exhaustive_cases():
    for (ny, nx) in [(1, 1), (1, 4), (2, 2), (2, 3), (3, 3), (3, 4), (4, 3)]:
        n = ny * nx
        for bits in range(1 << n):
            data = np.array([(bits >> i) & 1 for i in range(n)], float).reshape(ny, nx)
            for conn in (4, 8):
                for npix in ([1, 2, 3] if n > 6 else range(1, n + 1)):
                    yield dict(data=data, thr=0.0, mask=None, conn=conn, npix=npix, kind='exh')


def describe(case):
    return {'data': np.where(np.isnan(case['data']), None, case['data']).tolist() if False else
            [[(None if np.isnan(v) else ('inf' if v == np.inf else ('-inf' if v == -np.inf else v))) for v in r]
             for r in case['data']],
            'threshold': case['thr'] if np.isscalar(case['thr']) else
            [[(None if np.isnan(v) else ('inf' if v == np.inf else ('-inf' if v == -np.inf else v))) for v in r]
             for r in case['thr']],
            'dtype': case.get('dtype'),
            'mask': None if case['mask'] is None else case['mask'].astype(int).tolist(),
            'connectivity': case['conn'], 'npixels': int(case['npix']), 'layout': case.get('layout'),
            'threshold_repr': case.get('thr_repr')}


def run(ctx):
    ctx.build_with_translator(FILES)
    ctx.cov['rule'] = ('random small images (binary, plateaus, ramps, ties at threshold, blobs, diagonal contacts, NaN/inf data, 2-D '
                       'thresholds incl. NaN/inf entries, masks, integer/float32 dtypes) and larger frames of irregular '
                       'components with overlapping bounding boxes, x connectivity x npixels drawn near component sizes '
                       'and bounding-box areas; scenes of kept components with overlapping / nested bounding boxes '
                       'interleaved in raster order with small pruned components (before / between / after / inside the '
                       'boxes); every case in a memory layout of data / threshold / mask drawn from C, Fortran, transposed '
                       'view, strided view of a larger array, negative strides, non-native byte order; thorough adds all binary images up '
                       'to 3x4/4x3; non-trivial = at least one pixel above threshold; distinct = distinct '
                       '(data, threshold, mask, conn, npixels, layout, dtypes); precision cases: image dtype x threshold '
                       'representation (2-D float64/float32/float16/int32, Python float/int, numpy scalars, 0-d arrays) '
                       'with data and threshold equal / adjacent / inside the rounding interval of each other in the '
                       'narrower type, encoded for Coq by an order-preserving map of the exact values to integers; '
                       'histories: the same background / error / threshold / mask objects re-used across consecutive '
                       'detect_threshold / detect_sources / SourceFinder calls, every result compared with the oracle from '
                       'the ORIGINAL values and every argument compared bitwise before / after each call')
    ctx.assumptions += ['scipy.ndimage.label / find_objects are modelled (components numbered in raster order of their '
                        'first pixel; tight boxes) and that model is compared with scipy itself on every non-empty foreground '
                        '(check_scipy) in addition to the end-to-end comparison of detect_sources with the proved models '
                        '(check_case_path = one-step model + staged code-path model + fresh derivation)',
                        'SegmentationImage attributes other than labels/slices/areas (bbox, nlabels, max_label, '
                        'is_consecutive, missing_labels, background_area, segments, get_areas, get_indices) are compared '
                        'with their plain-Python meaning and with a fresh SegmentationImage only (no Coq model here; C05 '
                        'models them)']
    ctx.assumptions += ['recorded known finding ' + WEAK_SIG + ': a Python float threshold with a float32 / float16 image is '
                        'compared by NumPy in the image dtype (NEP 50 weak scalars); reported on every run (directed + random '
                        'cases, detect_sources and SourceFinder) only when the answer is the exact labelling for the rounded '
                        'scalar, after which the case continues with the rounded threshold; numpy scalars, 0-d arrays and 2-D '
                        'thresholds of any dtype must be compared exactly']
    ctx.cov['partial_clauses'] = ['detect_threshold is checked numerically against background + nsigma*error (given or '
                                  'sigma-clipped mean/std estimates, all image dtypes); no Coq model of it']
    n = 400 if ctx.tier == 'quick' else 3000
    cases = [gen_case(ctx.rng, small=(i % 3 == 0)) for i in range(n)]
    cases += [gen_shapes_case(ctx.rng) for _ in range(n // 2)]
    cases += [gen_intruder_case(ctx.rng) for _ in range(n // 8)]
    cases += [gen_scene_case(ctx.rng) for _ in range(n // 2)]
    cases += [gen_precision_case(ctx.rng) for _ in range(n // 2)]
    for c in cases:
        assign_layout(ctx.rng, c)
    ndir = len(directed_cases())
    cases = directed_cases() + cases
    if ctx.tier == 'thorough':
        ex = list(exhaustive_cases())
        for i, c in enumerate(ex):      # all layouts in turn (no PRNG draw: the exhaustive sweep stays exhaustive)
            k = LAYOUTS[i % len(LAYOUTS)]
            c['layout'] = {'data': k, 'thr': k, 'mask': k}
        ctx.stat('generator', 'exhaustive_binary', len(ex))
        cases += ex
    impl = []
    coq_cases = []
    scipy_cases = []
    ran = []
    for c in cases:
        try:
            segm, warned = run_impl(c)
        except Exception as e:      # valid input (2-D data, positive npixels, matching shapes): must not raise
            ctx.violation('detect_sources:exception', f'detect_sources raised {type(e).__name__}: {str(e)[:200]}',
                          describe(c))
            continue
        if c.get('_modified'):
            ctx.violation('detect_sources:input-modified', 'detect_sources changed its input array(s) in place: '
                          + ', '.join(c['_modified']), describe(c))
        eff = weak_scalar_threshold(c)
        if eff is not None:
            ctx.stat('weak_scalar', 'python scalar threshold not representable in the float32/float16 image dtype')
            c_eff = dict(c, thr=eff, thr_repr='np' + {'float32': 'f32', 'float16': 'f16'}[c['dtype']])
            if not oracle(c, segm) and oracle(c_eff, segm):
                # a pixel strictly above the threshold the caller passed is not detected: `float32_array > python_float`
                # is evaluated by NumPy (NEP 50) with the scalar rounded to the image dtype.  Recorded known finding
                # (fixes/C04-known.json) -- ONLY when the answer is the exact labelling for the rounded scalar; any
                # other answer falls through to the ordinary checks below with the threshold as passed.  The case then
                # continues with the threshold NumPy really used, so the labelling / attribute clauses stay checked.
                ctx.stat('weak_scalar', 'answer = exact labelling for the scalar rounded to the image dtype (NEP 50), '
                         '!= exact labelling for the scalar as passed')
                ctx.violation(WEAK_SIG, WEAK_WHAT + f' (detect_sources; threshold {float(c["thr"])!r} compared as {eff!r})',
                              describe(c), found_input=True)
                c_eff['_orig'] = c
                c = c_eff
        # the (redundant, plain-Python) attribute oracle runs on every random case and on every 3rd case of the
        # exhaustive sweep; fresh_agrees and the Coq comparison of labels / areas / slices run on all of them
        full_attrs = segm is not None and (c['kind'] != 'exh' or len(ran) % 3 == 0)
        bad_attrs = attrs_mismatch(segm) if full_attrs else []
        if any(b.startswith('exception:') for b in bad_attrs):
            ctx.violation('detect_sources:preseeded-attrs', 'an attribute of the returned SegmentationImage raises: '
                          + ', '.join(bad_attrs), describe(c))
            continue
        ran.append(c)
        impl.append(segm)
        ctx.stat('kinds', c['kind'])
        ctx.stat('layout', 'mixed(data/threshold/mask differ)' if len(set(c['layout'].values())) > 1
                 else c['layout']['data'])
        ctx.stat('result', 'None' if segm is None else 'segments')
        ncomp = len(components(c))
        nontrivial = ncomp > 0
        ctx.count_case(describe(c), nontrivial)
        # property clauses that need no model
        if (segm is None) != warned:
            ctx.violation('detect_sources:none-iff-warning', 'None returned without NoDetectionsWarning or vice versa',
                          describe(c))
        if segm is not None and not fresh_agrees(segm):
            ctx.violation('detect_sources:preseeded-attrs', 'labels/slices/areas differ from a fresh SegmentationImage',
                          describe(c))
        if full_attrs:
            ctx.stat('attrs', 'checked')
            ctx.stat('attrs', 'removed+relabelled' if ncomp != segm.nlabels else 'nothing-removed')
            if bad_attrs:
                ctx.violation('detect_sources:preseeded-attrs', 'attributes of the returned SegmentationImage differ from '
                              'their meaning recomputed from its array / from a fresh SegmentationImage: '
                              + ', '.join(bad_attrs), describe(c))
        coq_cases.append(to_coq(c, segm))
        if nontrivial:
            scipy_cases.append(scipy_to_coq(c))
    cases = ran
    ctx.sample({'case': describe(cases[1]), 'impl_labels': None if impl[1] is None else impl[1].data.tolist()})
    # check_case_path = the one-step model's check_case AND the staged code-path model (pre-seeded labels / slices,
    # areas counted through them) AND the fresh derivation from the model's array, against the implementation
    bad = ctx.coq_eval_cases(['C04_Model', 'C04_PathModel'], 'check_case_path', coq_cases, case_type='case')
    ctx.stat('coq', 'disagreements', len(bad))
    # the modelled behaviour of scipy.ndimage.label / find_objects (numbering in raster order of first pixel, tight
    # boxes) against scipy itself on every non-empty foreground
    bad_sp = ctx.coq_eval_cases(['C04_Model', 'C04_PathModel'], 'check_scipy', scipy_cases, case_type='scipy_case',
                                tag='scipy')
    ctx.stat('coq', 'scipy_cases', len(scipy_cases))
    ctx.stat('coq', 'scipy_disagreements', len(bad_sp))
    for i in bad_sp[:5]:
        ctx.violation('correspondence:C04_PathModel.check_scipy', 'scipy.ndimage.label / find_objects differ from the '
                      'modelled numbering / boxes', {'term': scipy_cases[i][:2000]}, found_input=False)
    for i in bad[:20]:
        c = cases[i]
        holds = oracle(c, impl[i])
        detail = {'case': describe(c), 'impl': None if impl[i] is None else impl[i].data.tolist(),
                  'model': ctx.coq_eval_term(['C04_Model', 'C04_PathModel'], f'model_out_path {coq_cases[i]}')
                  if len(bad) < 50 else None,
                  'impl_attrs': None if impl[i] is None else {k: v for k, v in attrs_of(impl[i]).items()
                                                              if k in ('labels', 'areas', 'slices')},
                  'cmd': 'bin/check C04 --replay <this file>'}
        if not holds:
            ctx.violation('detect_sources:components', 'segmentation differs from the connected components above '
                          'threshold with >= npixels pixels labelled 1..N in raster order', detail)
        elif impl[i] is not None and attrs_mismatch(impl[i]):
            ctx.violation('detect_sources:preseeded-attrs', 'labels/slices/areas of the returned SegmentationImage differ '
                          'from the model and from their meaning on the array: ' + ', '.join(attrs_mismatch(impl[i])), detail)
        else:
            ctx.violation('correspondence:C04_Model.check_case', 'model and implementation disagree on derived '
                          'attributes', detail, found_input=False)
    # detect_threshold = background + nsigma * error (pixel-wise): every image dtype, scalar / 2-D background and
    # error, dyadic and non-dyadic values (float64 result expected whatever the image dtype), masks, and the
    # estimated form (sigma-clipped mean / std of the unmasked data)
    from astropy.stats import SigmaClip
    from photutils.segmentation import detect_threshold
    nthr = 80 if ctx.tier == 'quick' else 600
    for it in range(nthr):
        ny, nx = ctx.rng.randint(1, 6), ctx.rng.randint(1, 6)
        dtype = ctx.rng.choice(['float64', 'float64', 'float32', 'int16', 'uint16', 'int32', 'int64'])
        lo = 0 if dtype == 'uint16' else -5
        data = np.array([[ctx.rng.randint(lo, 9) for _ in range(nx)] for _ in range(ny)]).astype(dtype)
        div = ctx.rng.choice([4, 4, 10, 3])     # dyadic (exact) or not
        bkg = np.array([[ctx.rng.randint(-8, 8) / div for _ in range(nx)] for _ in range(ny)])
        err = np.array([[ctx.rng.randint(0, 8) / div for _ in range(nx)] for _ in range(ny)])
        ns = ctx.rng.choice([0.5, 1.0, 2.0, 3.0, 1.5])
        form = ctx.rng.choice(['given', 'given', 'given', 'bkg-only', 'err-only', 'estimated'])
        b = None if form in ('err-only', 'estimated') else (bkg if ctx.rng.random() < 0.7 else float(bkg[0, 0]))
        e = None if form in ('bkg-only', 'estimated') else (err if ctx.rng.random() < 0.7 else float(err[0, 0]))
        mask = None
        if form != 'given' and ctx.rng.random() < 0.4 and ny * nx > 2:
            mask = np.array([[ctx.rng.random() < 0.2 for _ in range(nx)] for _ in range(ny)])
            if mask.all():
                mask[0, 0] = False
        with warnings.catch_warnings():
            warnings.simplefilter('ignore')
            args = [data.copy(), b.copy() if isinstance(b, np.ndarray) else b,
                    e.copy() if isinstance(e, np.ndarray) else e, None if mask is None else mask.copy()]
            before = [snapshot(a) for a in args]
            got = detect_threshold(args[0], ns, background=args[1], error=args[2], mask=args[3])
            changed = [k for k, a, sb in zip(('data', 'background', 'error', 'mask'), args, before) if snapshot(a) != sb]
            if changed:
                ctx.violation('detect_threshold:input-modified', 'detect_threshold changed its input array(s) in place: '
                              + ', '.join(changed),
                              {'data': data.tolist(), 'dtype': dtype, 'form': form,
                               'background': None if b is None else np.asarray(b).tolist(),
                               'error': None if e is None else np.asarray(e).tolist(), 'nsigma': ns,
                               'mask': None if mask is None else mask.astype(int).tolist()})
            if b is None or e is None:   # the documented estimate: sigma-clipped (3 sigma, 10 iterations) mean / std
                dd = np.ma.MaskedArray(data.astype(float), mask) if mask is not None else data.astype(float)
                clipped = SigmaClip(sigma=3.0, maxiters=10)(dd, masked=False, return_bounds=False, copy=True)
                wb = float(np.nanmean(clipped)) if b is None else b
                we = float(np.nanstd(clipped)) if e is None else e
            else:
                wb, we = b, e
        want = np.broadcast_to(wb, data.shape) + ns * np.broadcast_to(we, data.shape)
        ctx.count_case(['thr', dtype, form, data.tolist(), np.asarray(wb).tolist(), np.asarray(we).tolist(), ns])
        ctx.stat('detect_threshold', f'{form}/{dtype}')
        got = np.asarray(got)
        exact = (div == 4 and form == 'given')
        ok = got.shape == data.shape and (np.array_equal(got, want) if exact else
                                          np.allclose(got, want, equal_nan=True,
                                                      # estimates from float32 data are float32-precise
                                                      rtol=1e-5 if (dtype == 'float32' and form != 'given') else 1e-12,
                                                      atol=1e-5 if (dtype == 'float32' and form != 'given') else 1e-12))
        if not ok:
            ctx.violation('detect_threshold:formula', 'detect_threshold != background + nsigma*error pixel-wise',
                          {'data': data.tolist(), 'dtype': dtype, 'form': form,
                           'background': None if b is None else np.asarray(b).tolist(),
                           'error': None if e is None else np.asarray(e).tolist(), 'nsigma': ns,
                           'mask': None if mask is None else mask.astype(int).tolist(),
                           'got': got.tolist(), 'want': want.tolist()})
    ctx.stat('generator', 'detect_threshold_cases', nthr)
    nh = 60 if ctx.tier == 'quick' else 500
    for it in range(nh):
        spec = gen_history(ctx.rng)
        ctx.count_case(['history', spec])
        ctx.stat('history', 'units' if spec['units'] else 'plain')
        ctx.stat('history', f"error:{spec['error']['form']}/{spec['error']['dtype']}")
        for sig, what in run_history(spec)[:3]:
            ctx.violation(sig, what, spec)
    ctx.stat('generator', 'histories', nh)
    # SourceFinder(deblend=False) equals detect_sources
    from photutils.segmentation import SourceFinder, detect_sources
    rest = cases[ndir:]
    for c in (cases[:ndir] + rest[:60] + rest[n:n + 40] + rest[n + n // 2:n + n // 2 + 20]
              + rest[n + n // 2 + n // 8:n + n // 2 + n // 8 + 40]
              + rest[2 * n + n // 8:2 * n + n // 8 + 40]):
        if c['mask'] is not None and c['mask'].all():
            continue
        c_used, c = c, c.get('_orig', c)     # SourceFinder gets the arguments as generated (Python float included)
        with warnings.catch_warnings():
            warnings.simplefilter('ignore')
            try:
                d_, t_, m_ = impl_args(c)
                a = SourceFinder(npixels=c['npix'], connectivity=c['conn'], deblend=False, progress_bar=False)(
                    d_, t_, mask=m_)
                b, _ = run_impl(c)
            except Exception as e:
                ctx.violation('SourceFinder:exception', f'SourceFinder(deblend=False) raised {type(e).__name__}: '
                              f'{str(e)[:200]}', describe(c))
                continue
        same = (a is None and b is None) or (a is not None and b is not None and np.array_equal(a.data, b.data)
                                               and attrs_of(a) == attrs_of(b))
        if not same:
            ctx.violation('SourceFinder:deblend-false', 'SourceFinder(deblend=False) != detect_sources', describe(c))
        if not oracle(c, a):
            if c_used is not c and oracle(c_used, a):      # same `_detect_sources` line, reached through SourceFinder
                ctx.stat('weak_scalar', 'same answer through SourceFinder(deblend=False)')
                ctx.violation(WEAK_SIG, WEAK_WHAT + ' (reached through SourceFinder(deblend=False), same call site)',
                              dict(describe(c), api='SourceFinder'), found_input=True)
            else:
                ctx.violation('SourceFinder:components', 'SourceFinder(deblend=False): segmentation differs from the '
                              'connected components above threshold with >= npixels pixels', dict(describe(c), api='SourceFinder'))
        if a is not None and attrs_mismatch(a):
            ctx.violation('SourceFinder:preseeded-attrs', 'attributes of the SegmentationImage returned by '
                          'SourceFinder(deblend=False) differ from their meaning on its array: '
                          + ', '.join(attrs_mismatch(a)), describe(c))
        ctx.stat('generator', 'sourcefinder_cases')


def replay(obj):
    r = obj['replay']
    if r.get('kind') == 'history':
        fails = run_history(r)
        for sig, what in fails:
            print(f'[{sig}] {what}')
        print('property FAILS on this history' if fails else 'property holds on this history')
        return 1 if fails else 0
    c = r.get('case', r)
    case = dict(data=np.array([[np.nan if v is None else (np.inf if v == 'inf' else (-np.inf if v == '-inf' else v))
                                for v in row] for row in c['data']], float),
                thr=c['threshold'] if np.isscalar(c['threshold']) else
                np.array([[np.nan if v is None else (np.inf if v == 'inf' else (-np.inf if v == '-inf' else v))
                           for v in row] for row in c['threshold']], float),
                dtype=c.get('dtype'),
                mask=None if c['mask'] is None else np.array(c['mask'], bool),
                conn=c['connectivity'], npix=c['npixels'], layout=c.get('layout'),
                thr_repr=c.get('threshold_repr'))
    try:
        segm, _ = run_impl(case)
    except Exception as e:
        print(f'detect_sources raised {type(e).__name__}: {e}')
        print('property FAILS on this input')
        return 1
    ok = oracle(case, segm)
    eff = weak_scalar_threshold(case)
    if not ok and eff is not None and oracle(dict(case, thr=eff), segm):
        print(f'[{WEAK_SIG}] python scalar threshold compared in the image dtype (as {eff!r}): exact labelling for that '
              'value, not for the value passed')
    if case.get('_modified'):
        print('inputs modified in place:', case['_modified'])
        ok = False
    bad_attrs = attrs_mismatch(segm) if segm is not None else []
    if bad_attrs:
        print('attributes differing from their meaning on the array / a fresh SegmentationImage:', bad_attrs)
        ok = False
    print('impl:', None if segm is None else segm.data.tolist())
    print('property holds on this input' if ok else 'property FAILS on this input')
    return 0 if ok else 1
