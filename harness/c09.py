"""C09 — results never depend on access order or on earlier calls.

Random (and, in the thorough tier, exhaustive) interleavings of reads / setter
assignments / calls on ONE real object; after every step
  (V) the value is compared bitwise with what a FRESH object returns for the same
      request and any exception with the fresh object's exception (direct oracle of
      the property text), and
  (K) exception code, "equals fresh", and the private state / cache-key set are
      written as a Coq term and checked against the model of coq/C09_Model.v
      (which mirrors the repaired code) inside Coq.
Machines: (a) Background2D, (b) RadialProfile / CurveOfGrowth normalize,
(c) pixel apertures (+ LocalBackground's annulus), (d) PSFPhotometry,
IterativePSFPhotometry, star finders, Ellipse.fit_image, GriddedPSFModel.
"""
import itertools
import math
import warnings

import numpy as np

from .core import coq, Some, Raw, Nat

PID = 'C09'
FILES = ['lib/Cases.v', 'C09_Model.v', 'C09_Proofs.v', 'C09_Properties.v']


# --------------------------------------------------------------------------
# generic helpers
# --------------------------------------------------------------------------
def exc_code(e):
    if isinstance(e, TypeError):
        return 1
    if isinstance(e, ValueError):
        return 2
    if isinstance(e, AttributeError):
        return 3
    if isinstance(e, KeyError):
        return 4
    return 9


def same(a, b):
    """Exact (bitwise up to NaN payload / sign of zero) equality of two results."""
    import astropy.units as u
    from astropy.table import Table
    if a is None or b is None:
        return a is None and b is None
    if isinstance(a, Table) or isinstance(b, Table):
        if not (isinstance(a, Table) and isinstance(b, Table)):
            return False
        if a.colnames != b.colnames or len(a) != len(b):
            return False
        return all(same(a[c], b[c]) for c in a.colnames)
    if isinstance(a, u.Quantity) or isinstance(b, u.Quantity):
        if not (isinstance(a, u.Quantity) and isinstance(b, u.Quantity)):
            return False
        return a.unit == b.unit and same(np.asarray(a.value), np.asarray(b.value))
    if isinstance(a, dict) or isinstance(b, dict):
        if not (isinstance(a, dict) and isinstance(b, dict)) or sorted(a) != sorted(b):
            return False
        return all(same(a[k], b[k]) for k in a)
    if isinstance(a, (list, tuple)) or isinstance(b, (list, tuple)):
        if not (isinstance(a, (list, tuple)) and isinstance(b, (list, tuple))) or len(a) != len(b):
            return False
        return all(same(x, y) for x, y in zip(a, b))
    if hasattr(a, 'ixmin') and hasattr(a, 'iymax'):      # BoundingBox
        return (hasattr(b, 'ixmin') and
                (a.ixmin, a.ixmax, a.iymin, a.iymax) == (b.ixmin, b.ixmax, b.iymin, b.iymax))
    if type(a).__name__ == 'ApertureMask':
        return type(b).__name__ == 'ApertureMask' and same(a.bbox, b.bbox) and same(a.data, b.data)
    if type(a).__name__ == 'slice':
        return a == b
    aa, bb = np.asarray(a), np.asarray(b)
    if aa.dtype == object or bb.dtype == object:
        if aa.shape != bb.shape:
            return False
        return all(same(x, y) for x, y in zip(aa.ravel().tolist(), bb.ravel().tolist())) if aa.size else True
    if aa.shape != bb.shape or aa.dtype != bb.dtype:
        return False
    if aa.dtype.kind in 'fc':
        return bool(np.array_equal(aa, bb, equal_nan=True))
    return bool(np.array_equal(aa, bb))


def zf(x):
    """binary64 -> Coq [zf]: None = NaN, Some (mantissa, exponent)."""
    x = float(x)
    if math.isnan(x):
        return None
    if math.isinf(x):
        return Some((1 if x > 0 else -1, 5000))
    if x == 0.0:
        return Some((0, 0))
    m, e = math.frexp(x)
    m = int(m * (1 << 53))
    e -= 53
    while m % 2 == 0:
        m //= 2
        e += 1
    return Some((m, e))


def farr(a):
    import astropy.units as u
    if isinstance(a, u.Quantity):
        a = a.value
    return [zf(v) for v in np.atleast_1d(np.asarray(a, float)).ravel()]


def describe_arr(a):
    return np.where(np.isnan(a), None, a).tolist() if a.dtype.kind == 'f' and np.isnan(a).any() else a.tolist()


def report(ctx, signature, what, replay, found_input=True):
    """ctx.violation, once per signature and run (one replay file per failing call site)"""
    seen = ctx.__dict__.setdefault('_c09_reported', set())
    if signature in seen:
        ctx.stat('violations', 'further occurrences of ' + signature)
        return
    seen.add(signature)
    ctx.violation(signature, what, replay, found_input=found_input)


class Quiet:
    def __enter__(self):
        self.c = warnings.catch_warnings()
        self.c.__enter__()
        warnings.simplefilter('ignore')
        self.e = np.errstate(all='ignore')
        self.e.__enter__()

    def __exit__(self, *a):
        self.e.__exit__(*a)
        self.c.__exit__(*a)


# --------------------------------------------------------------------------
# (a) Background2D
# --------------------------------------------------------------------------
BREADS = ['background_mesh', 'background_rms_mesh', 'background_median', 'background_rms_median',
          'background', 'background_rms', 'npixels_mesh', 'npixels_map']
BLAZY = ['background_mesh', 'background_rms_mesh', 'background_median', 'background_rms_median']


def bkg_data(seed, shape, nanbox, star):
    r = np.random.default_rng(seed)
    d = r.integers(0, 40, shape).astype(float) / 4.0
    d += np.linspace(0, 6, shape[1])[None, :]
    if star:
        d[7:11, 8:13] += 100.0
    m = np.zeros(shape, bool)
    if nanbox:
        m[0:6, 0:7] = True          # a whole box masked -> NaN statistic -> IDW fill of the mesh
    return d, m


def bkg_make(cfg):
    from photutils.background import Background2D, BkgIDWInterpolator, BkgZoomInterpolator
    import astropy.units as u
    d, m = bkg_data(cfg['seed'], tuple(cfg['shape']), cfg['nanbox'], cfg['star'])
    if cfg['unit']:
        d = d * u.Jy
    interp = BkgIDWInterpolator() if cfg['interp'] == 'idw' else BkgZoomInterpolator()
    cov = None
    if cfg['coverage']:
        cov = np.zeros(tuple(cfg['shape']), bool)
        cov[-3:, :] = True
    return Background2D(d, tuple(cfg['box']), mask=m if cfg['nanbox'] else None, coverage_mask=cov,
                        filter_size=tuple(cfg['fsize']), filter_threshold=cfg['thr'],
                        exclude_percentile=10.0, edge_method=cfg['edge'], interpolator=interp,
                        fill_value=-1.0)


def bkg_configs(rng, tier):
    out = []
    for thrk, fsize, interp in itertools.product(['none', 'low', 'mid', 'high'], [(1, 1), (3, 3), (3, 5)],
                                                 ['zoom', 'idw']):
        cfg = dict(seed=rng.randrange(1000), shape=rng.choice([(24, 28), (25, 27), (30, 28)]),
                   box=rng.choice([(6, 7), (5, 5), (6, 6)]), nanbox=rng.random() < 0.5, star=True,
                   unit=rng.random() < 0.25, coverage=rng.random() < 0.3, fsize=fsize, interp=interp,
                   edge=rng.choice(['pad', 'crop']), thr=None, thrk=thrk)
        if thrk != 'none':
            with Quiet():
                probe = bkg_make(cfg)
            lo, hi = float(np.nanmin(probe._bkg_stats)), float(np.nanmax(probe._bkg_stats))
            cfg['thr'] = {'low': lo - 1.0, 'mid': (lo + hi) / 2.0, 'high': hi + 1.0}[thrk]
        out.append(cfg)
    return out


def bkg_run(ctx, cfg, hist, fresh_cache):
    """Run one read history on one instance; returns (coq obs list, list of violations)."""
    def fresh(attr):
        if attr not in fresh_cache:
            with Quiet():
                fresh_cache[attr] = getattr(bkg_make(cfg), attr)
        return fresh_cache[attr]
    with Quiet():
        obj = bkg_make(cfg)
    obs, bad = [], []
    for k, r in enumerate(hist):
        attr = BREADS[r]
        exc, v = 0, None
        try:
            with Quiet():
                v = getattr(obj, attr)
        except Exception as e:  # noqa
            exc = exc_code(e)
            bad.append((k, attr, 'raises ' + type(e).__name__))
        eqf = exc == 0 and same(v, fresh(attr))
        if exc == 0 and not eqf:
            bad.append((k, attr, 'differs from a fresh object'))
        obs.append((r, exc, eqf, obj._bkg_stats is None, obj._bkgrms_stats is None,
                    [a in obj.__dict__ for a in BLAZY]))
    return obs, bad


def bkg_flags(cfg):
    with Quiet():
        o = bkg_make(cfg)
    thr = cfg['thr'] is not None
    return thr, bool(thr and cfg['thr'] < o._min_bkg_stats), tuple(cfg['fsize']) == (1, 1)


def section_bkg(ctx, cases, meta):
    rng = ctx.rng
    cfgs = bkg_configs(rng, ctx.tier)
    nh = 8 if ctx.tier == 'quick' else 12
    for ci, cfg in enumerate(cfgs):
        flags = bkg_flags(cfg)
        cache = {}
        hists = []
        for _ in range(nh):
            n = rng.randint(1, 8)
            hists.append([rng.randrange(8) if rng.random() < 0.8 else rng.choice([0, 1]) for _ in range(n)])
        hists.append([1, 0, 4, 5])          # rms mesh first (the order no unit test uses)
        if ctx.tier == 'thorough':
            hists += [list(p) for p in itertools.permutations(range(6))]
            ctx.stat('bkg', 'permutation_histories', 720)
        for h in hists:
            obs, bad = bkg_run(ctx, cfg, h, cache)
            desc = {'machine': 'Background2D', 'config': {k: cfg[k] for k in cfg}, 'history': [BREADS[r] for r in h]}
            ctx.count_case(desc, len(h) > 1)
            ctx.stat('bkg', f"thr={cfg['thrk']},filter={'1x1' if flags[2] else 'NxM'},{cfg['interp']}")
            for (k, attr, what) in bad:
                report(ctx, f'Background2D.{attr}:{what.split()[0]}',
                              f'Background2D.{attr} {what} after reading {[BREADS[r] for r in h[:k]]} '
                              f'(filter_threshold={cfg["thr"]}, filter_size={cfg["fsize"]})',
                              dict(desc, step=k, cmd='bin/check C09 --replay <this file>'))
            cases.append(f'CBkg {coq(flags[0])} {coq(flags[1])} {coq(flags[2])} {coq(obs)}')
            meta.append(('bkg', desc, bool(bad)))
    ctx.sample({'machine': 'Background2D', 'config': cfgs[3], 'history': [BREADS[r] for r in [1, 0, 4, 5]]})


def replay_bkg(r):
    cfg = r['config']
    h = [BREADS.index(a) for a in r['history']]
    obs, bad = bkg_run(None, cfg, h, {})
    for (k, attr, what) in bad:
        print(f'step {k}: Background2D.{attr} {what}')
    return bad


# --------------------------------------------------------------------------
# (b) profiles
# --------------------------------------------------------------------------
POPS = ['profile', 'profile_error', 'data_profile', 'normalization_value', "normalize('max')",
        "normalize('sum')", 'unnormalize()']
PKEYS = ['profile', 'profile_error', 'data_profile']


def prof_make(cfg):
    from photutils.profiles import CurveOfGrowth, RadialProfile
    import astropy.units as u
    r = np.random.default_rng(cfg['seed'])
    n = cfg['size']
    yy, xx = np.mgrid[0:n, 0:n]
    c = (n - 1) / 2.0
    kind = cfg['kind']
    if kind == 'zero':
        d = np.zeros((n, n))
    else:
        d = np.round(cfg['amp'] * np.exp(-((xx - c) ** 2 + (yy - c) ** 2) / 8.0)) + r.integers(-2, 3, (n, n))
        if kind == 'negative':
            d = -np.abs(d) - 1.0
        elif kind == 'irrational':
            d = d / 3.0
    err = np.full((n, n), 1.5) if cfg['error'] else None
    mask = None
    if cfg['mask']:
        mask = np.zeros((n, n), bool)
        mask[int(c) - 1:int(c) + 2, int(c) - 1:int(c) + 2] = cfg['mask'] == 'core'
        mask[0:3, :] = True
    if kind == 'allmasked':          # no unmasked pixel: NaN radial profile, zero curve of growth
        mask = np.ones((n, n), bool)
    if cfg['nan']:
        d = d.copy()
        d[int(c) + 2, int(c)] = np.nan
    if cfg['unit']:
        d = d * u.Jy
        err = None if err is None else err * u.Jy
    cls = RadialProfile if cfg['cls'] == 'RadialProfile' else CurveOfGrowth
    return cls(d, (c + cfg['off'], c), np.array(cfg['radii'], float), error=err, mask=mask,
               method=cfg['method'], subpixels=3)


def prof_apply(obj, op):
    """returns (exc, value) of one operation"""
    try:
        with Quiet():
            if op <= 3:
                return 0, getattr(obj, POPS[op])
            if op == 4:
                obj.normalize('max')
            elif op == 5:
                obj.normalize('sum')
            else:
                obj.unnormalize()
            return 0, None
    except Exception as e:  # noqa
        return exc_code(e), None


def prof_fresh(cfg, muts, op, cache):
    key = (tuple(muts), op)
    if key not in cache:
        with Quiet():
            o = prof_make(cfg)
        for m in muts:
            prof_apply(o, m)
        cache[key] = prof_apply(o, op)
    return cache[key]


def nv_of(obj):
    import astropy.units as u
    v = obj.normalization_value
    return float(v.value) if isinstance(v, u.Quantity) else float(v)


def prof_run(cfg, hist, cache):
    with Quiet():
        obj = prof_make(cfg)
    obs, bad, muts = [], [], []
    for k, op in enumerate(hist):
        exc, v = prof_apply(obj, op)
        if op <= 3:
            fexc, fv = prof_fresh(cfg, muts, op, cache)
            if exc != fexc:
                bad.append((k, POPS[op], f'raises (code {exc}) where a fresh object gives code {fexc}'))
            elif exc == 0 and not same(v, fv):
                bad.append((k, POPS[op], 'differs from a fresh object given the same normalize/unnormalize calls'))
        elif exc != 0:
            bad.append((k, POPS[op], f'raises (code {exc})'))
        arr = farr(v) if (op <= 3 and exc == 0) else []
        obs.append((op, exc, arr, zf(nv_of(obj)), [a in obj.__dict__ for a in PKEYS]))
        if op >= 4:
            muts.append(op)
    return obs, bad


def prof_configs(rng, tier):
    out = []
    for cls in ['RadialProfile', 'CurveOfGrowth']:
        for kind in ['gauss', 'gauss', 'irrational', 'negative', 'zero', 'allmasked']:
            nb = rng.randint(2, 6)
            if cls == 'RadialProfile':
                radii = [0.0 if rng.random() < 0.6 else 0.5]
            else:
                radii = [rng.choice([0.5, 1.0])]
            for _ in range(nb):
                radii.append(radii[-1] + rng.choice([0.5, 1.0, 1.0, 1.5]))
            radii = [x for x in radii if x <= 5.0]
            if len(radii) < 2:
                radii = [0.0, 1.0, 2.0] if cls == 'RadialProfile' else [1.0, 2.0]
            out.append(dict(cls=cls, kind=kind, seed=rng.randrange(1000), size=rng.choice([11, 12, 13]),
                            amp=rng.choice([40, 64, 100]), error=rng.random() < 0.7,
                            mask=rng.choice([None, None, 'edge', 'core']), nan=rng.random() < 0.25,
                            unit=rng.random() < 0.25, off=rng.choice([0.0, 0.0, 0.5, 0.25]),
                            radii=radii, method=rng.choice(['exact', 'center', 'subpixel'])))
    return out


def section_prof(ctx, cases, meta):
    rng = ctx.rng
    cfgs = prof_configs(rng, ctx.tier)
    nh = 12 if ctx.tier == 'quick' else 30
    for cfg in cfgs:
        cache = {}
        _, pr = prof_fresh(cfg, [], 0, cache)
        _, er = prof_fresh(cfg, [], 1, cache)
        dexc, dr = prof_fresh(cfg, [], 2, cache)
        hists = []
        for _ in range(nh):
            n = rng.randint(1, 8)
            hists.append([rng.choice([0, 1, 2, 3, 4, 4, 5, 6, 6]) for _ in range(n)])
        hists += [[4, 2, 6, 2], [2, 4, 2, 6, 2], [5, 0, 1, 2, 3], [4, 5, 6, 0, 2]]
        if ctx.tier == 'thorough':
            # every order of the three first reads around one normalize / one unnormalize
            for p in itertools.permutations([0, 1, 2, 4, 6]):
                hists.append(list(p) + [0, 1, 2])
            ctx.stat('prof', 'permutation_histories', 120)
        for h in hists:
            obs, bad = prof_run(cfg, h, cache)
            desc = {'machine': 'profile', 'config': cfg, 'history': [POPS[o] for o in h]}
            ctx.count_case(desc, any(o >= 4 for o in h))
            ctx.stat('prof', f"{cfg['cls']},{cfg['kind']}")
            for (k, name, what) in bad:
                report(ctx, f"{cfg['cls']}.{name}:order-dependent",
                              f"{cfg['cls']}.{name} {what}; history {[POPS[o] for o in h[:k + 1]]}",
                              dict(desc, step=k, cmd='bin/check C09 --replay <this file>'))
            drc = 'None' if dexc != 0 else coq(Some(farr(dr)))
            cases.append(f'CProf {coq(farr(pr))} {coq(farr(er))} {drc} {coq(obs)}')
            meta.append(('prof', desc, bool(bad)))
    ctx.sample({'machine': 'profile', 'config': cfgs[0], 'history': [POPS[o] for o in [4, 2, 6, 2]]})


def replay_prof(r):
    h = [POPS.index(a) for a in r['history']]
    obs, bad = prof_run(r['config'], h, {})
    for (k, name, what) in bad:
        print(f'step {k}: {name} {what}')
    return bad


# --------------------------------------------------------------------------
# (c) pixel apertures
# --------------------------------------------------------------------------
APCLS = {
    'CircularAperture': (['positions', 'r'], True, True),
    'CircularAnnulus': (['positions', 'r_in', 'r_out'], True, True),
    'EllipticalAperture': (['positions', 'a', 'b', 'theta'], False, False),
    'EllipticalAnnulus': (['positions', 'a_in', 'a_out', 'b_in', 'b_out', 'theta'], False, False),
    'RectangularAperture': (['positions', 'w', 'h', 'theta'], False, False),
    'RectangularAnnulus': (['positions', 'w_in', 'w_out', 'h_in', 'h_out', 'theta'], False, False),
}
ALAZY = ['shape', 'isscalar', '_positions', '_xy_extents', '_bbox', 'bbox', '_centered_edges', 'area']
AMETH = [('center', 1), ('subpixel', 3), ('exact', 1)]


def ap_class(name):
    import photutils.aperture as pa
    return getattr(pa, name)


def ap_value(rng, name, cur, valid):
    """A new value (JSON-able description) for parameter `name` given the current parameters."""
    if name == 'positions':
        if not valid:
            return rng.choice([['list', [1.0, 2.0, 3.0]], ['list', [[float('nan'), 1.0]]],
                               ['list', [[1.0, 2.0, 3.0]]]])
        if rng.random() < 0.4:
            return ['list', [rng.randint(4, 16) / 2.0, rng.randint(4, 16) / 2.0]]
        return ['list', [[rng.randint(4, 16) / 2.0, rng.randint(4, 16) / 2.0] for _ in range(rng.randint(1, 3))]]
    if name == 'theta':
        if not valid:
            return rng.choice([['list', [0.1, 0.2]], ['metre', 1.0]])
        return rng.choice([['float', rng.randint(-6, 6) / 4.0], ['deg', float(rng.randint(0, 180))]])
    if not valid:
        return rng.choice([['float', -1.0], ['float', 0.0], ['list', [1.0, 2.0]]])
    lo, hi = 0.25, 6.0
    base = name.split('_')[0]
    if name.endswith('_in') and cur.get(base + '_out') is not None:
        hi = cur[base + '_out'][1] - 0.25
    if name.endswith('_out') and cur.get(base + '_in') is not None:
        lo = cur[base + '_in'][1] + 0.25
    k0, k1 = int(math.ceil(lo * 4)), int(math.floor(hi * 4))
    return ['float', rng.randint(k0, max(k0, k1)) / 4.0]


def ap_decode(v):
    import astropy.units as u
    kind, x = v
    if kind == 'float':
        return x
    if kind == 'list':
        return np.array(x, float) if not any(isinstance(e, float) and math.isnan(e) for e in np.ravel(x)) \
            else np.array(x, float)
    if kind == 'deg':
        return x * u.deg
    if kind == 'metre':
        return x * u.m
    raise ValueError(kind)


def ap_read(obj, a):
    if a < 8:
        return getattr(obj, ALAZY[a])
    m, sub = AMETH[a - 8]
    return obj.to_mask(method=m, subpixels=sub)


def ap_run(clsname, init, ops):
    """init: {param: value-desc}; ops: list of ('set', i, vdesc, valid) / ('read', a)."""
    names, _, _ = APCLS[clsname]
    cls = ap_class(clsname)
    cur = dict(init)
    with Quiet():
        obj = cls(**{k: ap_decode(v) for k, v in cur.items()})
    keys0 = [a in obj.__dict__ for a in ALAZY]
    obs, bad = [], []
    nid = 100
    for i, n in enumerate(names):            # the constructor's assignments
        obs.append((0, i, nid, True, (0, True, keys0)))
        nid += 1
    for k, op in enumerate(ops):
        if op[0] == 'set':
            _, i, vd, valid = op
            exc = 0
            try:
                with Quiet():
                    setattr(obj, names[i], ap_decode(vd))
            except Exception as e:  # noqa
                exc = exc_code(e)
            if exc == 0:
                cur[names[i]] = vd
            if valid and exc:
                bad.append((k, names[i], f'assignment raises (code {exc})'))
            obs.append((0, i, nid, bool(valid), (exc, True, [a in obj.__dict__ for a in ALAZY])))
            nid += 1
        else:
            a = op[1]
            exc, v = 0, None
            try:
                with Quiet():
                    v = ap_read(obj, a)
            except Exception as e:  # noqa
                exc = exc_code(e)
            with Quiet():
                fr = ap_read(cls(**{n: ap_decode(x) for n, x in cur.items()}), a)
            eqf = exc == 0 and same(v, fr)
            nm = ALAZY[a] if a < 8 else f'to_mask({AMETH[a - 8][0]})'
            if exc:
                bad.append((k, nm, f'raises (code {exc})'))
            elif not eqf:
                bad.append((k, nm, 'differs from a fresh aperture with the current parameters'))
            obs.append((1, a, 0, True, (exc, eqf, [x in obj.__dict__ for x in ALAZY])))
    return obs, bad


def ap_history(rng, clsname):
    names, _, _ = APCLS[clsname]
    init = {}
    for n in names:
        init[n] = ap_value(rng, n, init, True)
    # consistent annulus
    cur = dict(init)
    ops = []
    for _ in range(rng.randint(1, 8)):
        if rng.random() < 0.4:
            i = rng.randrange(len(names))
            valid = rng.random() < 0.85
            vd = ap_value(rng, names[i], cur, valid)
            ops.append(('set', i, vd, valid))
            if valid:
                cur[names[i]] = vd
        else:
            ops.append(('read', rng.choice([0, 1, 2, 3, 4, 5, 5, 6, 7, 7, 8, 9, 10])))
    return init, ops


def section_aper(ctx, cases, meta):
    rng = ctx.rng
    nh = 30 if ctx.tier == 'quick' else 120
    for clsname, (names, le, la) in APCLS.items():
        for _ in range(nh):
            init, ops = ap_history(rng, clsname)
            obs, bad = ap_run(clsname, init, ops)
            desc = {'machine': 'aperture', 'class': clsname, 'init': init, 'ops': [list(o) for o in ops]}
            ctx.count_case(desc, any(o[0] == 'set' for o in ops) and any(o[0] == 'read' for o in ops))
            ctx.stat('aper', clsname)
            for (k, nm, what) in bad:
                report(ctx, f'{clsname}.{nm}:after-reassignment', f'{clsname}.{nm} {what}',
                              dict(desc, step=k, cmd='bin/check C09 --replay <this file>'))
            cases.append(f'CAper {coq(le)} {coq(la)} {coq(obs)}')
            meta.append(('aper', desc, bool(bad)))
    # LocalBackground: its CircularAnnulus gets new positions on every call
    from photutils.background import LocalBackground
    img = np.random.default_rng(5).integers(0, 50, (25, 25)).astype(float)
    for _ in range(6 if ctx.tier == 'quick' else 40):
        rin, rout = rng.choice([(2.0, 4.0), (3.0, 5.5), (1.5, 3.0)])
        with Quiet():
            lb = LocalBackground(rin, rout)
        keys0 = [a in lb._aperture.__dict__ for a in ALAZY]
        obs = [(0, 0, 100, True, (0, True, keys0)), (0, 1, 101, True, (0, True, keys0)),
               (0, 2, 102, True, (0, True, keys0))]
        calls, bad = [], []
        for k in range(rng.randint(2, 4)):
            n = rng.randint(1, 3)
            xs = [rng.randint(10, 30) / 2.0 for _ in range(n)]
            ys = [rng.randint(10, 30) / 2.0 for _ in range(n)]
            calls.append((xs, ys))
            exc, v = 0, None
            try:
                with Quiet():
                    v = lb(img.copy(), xs, ys)
            except Exception as e:  # noqa
                exc = exc_code(e)
            with Quiet():
                fv = LocalBackground(rin, rout)(img.copy(), xs, ys)
            eqf = exc == 0 and same(v, fv)
            if exc or not eqf:
                bad.append((k, 'raises' if exc else 'differs from a fresh LocalBackground'))
            keys = [a in lb._aperture.__dict__ for a in ALAZY]
            # the assignment empties the cache (not observable from outside the call), the
            # to_mask('center') then fills exactly the keys observed after the call
            obs.append((0, 0, 200 + k, True, (0, True, [False] * 8)))
            obs.append((1, 8, 0, True, (exc, eqf, keys)))
        desc = {'machine': 'LocalBackground', 'radii': [rin, rout], 'calls': calls}
        ctx.count_case(desc, True)
        ctx.stat('aper', 'LocalBackground')
        for (k, what) in bad:
            report(ctx, 'LocalBackground.__call__:repeated', f'LocalBackground call {k} {what}', desc)
        cases.append(f'CAper true true {coq(obs)}')
        meta.append(('aper', desc, bool(bad)))


def replay_aper(r):
    ops = [tuple(o) for o in r['ops']]
    obs, bad = ap_run(r['class'], r['init'], ops)
    for (k, nm, what) in bad:
        print(f'step {k}: {r["class"]}.{nm} {what}')
    return bad


# --------------------------------------------------------------------------
# (d) PSFPhotometry / IterativePSFPhotometry
# --------------------------------------------------------------------------
PSF_SCENES = {
    0: [(8.0, 8.0, 500.0), (12.0, 9.0, 400.0), (22.0, 20.0, 600.0)],
    1: [(10.0, 20.0, 300.0), (20.0, 10.0, 700.0)],
    2: [(7.0, 22.0, 450.0), (10.5, 23.0, 350.0), (14.0, 22.5, 550.0), (23.0, 7.0, 500.0)],
    -1: [],
}
_IMG = {}


def psf_image(d):
    if d not in _IMG:
        from photutils.psf import CircularGaussianPRF
        yy, xx = np.mgrid[0:31, 0:31]
        img = np.zeros((31, 31))
        m = CircularGaussianPRF(fwhm=3.0)
        for (x, y, f) in PSF_SCENES[d]:
            img += m.evaluate(xx, yy, f, x, y, 3.0)
        img += np.random.default_rng(100 + d).integers(-2, 3, img.shape) * 0.01 + 0.25
        _IMG[d] = img
    return _IMG[d].copy()


def psf_table(d, ini, tab):
    """ini 0: None; 1: table; 2: table with a group_id column.  tab selects the extra columns."""
    from astropy.table import Table
    if ini == 0:
        return None
    src = PSF_SCENES[d]
    t = Table()
    t['x'] = [s[0] + 0.25 for s in src]
    t['y'] = [s[1] - 0.25 for s in src]
    if tab & 1:
        t['flux'] = [s[2] * 0.9 for s in src]
    if tab & 2:
        t['local_bkg'] = [0.25] * len(src)
    if ini == 2:
        t['group_id'] = [1] * len(src) if tab & 4 else list(range(len(src), 0, -1))
    if ini == 3:      # one source far outside the image: the call raises ValueError half-way
        t['x'][0] = 200.0
    return t


def psf_make(cfg):
    from photutils.background import LocalBackground
    from photutils.detection import DAOStarFinder
    from photutils.psf import CircularGaussianPRF, IterativePSFPhotometry, PSFPhotometry, SourceGrouper
    psf = CircularGaussianPRF(fwhm=3.0)
    finder = DAOStarFinder(5.0, 3.0) if cfg['finder'] else None
    grouper = SourceGrouper(6.0) if cfg['grouper'] else None
    lb = LocalBackground(5.0, 8.0) if cfg['localbkg'] else None
    if cfg['iterative']:
        return IterativePSFPhotometry(psf, (5, 5), finder, grouper=grouper, localbkg_estimator=lb,
                                      aperture_radius=4.0, mode=cfg['mode'], maxiters=2)
    return PSFPhotometry(psf, (5, 5), finder=finder, grouper=grouper, localbkg_estimator=lb,
                         aperture_radius=4.0)


def psf_call(obj, d, ini, tab):
    try:
        with Quiet():
            res = obj(psf_image(d), init_params=psf_table(d, ini, tab))
        return 0, res
    except Exception as e:  # noqa
        return exc_code(e), None


def psf_extra(obj):
    """other public per-call results that must equal a fresh object's"""
    p = getattr(obj, '_psfphot', obj)
    fi = p.fit_info
    return {'fit_error_indices': None if 'fit_error_indices' not in fi else np.asarray(fi['fit_error_indices']),
            'finder_results': p.finder_results, 'init_params': p.init_params,
            'n_fit_results': len(obj.fit_results) if hasattr(obj, '_psfphot') else -1,
            'inner_groupers': [fr.grouper is None for fr in obj.fit_results] if hasattr(obj, '_psfphot') else []}


def psf_run(cfg, calls, cache):
    with Quiet():
        obj = psf_make(cfg)
    obs, bad = [], []
    for k, (d, ini, tab) in enumerate(calls):
        exc, res = psf_call(obj, d, ini, tab)
        extra = psf_extra(obj) if exc == 0 else None
        key = (d, ini, tab)
        if key not in cache:
            with Quiet():
                f = psf_make(cfg)
            fe, fr = psf_call(f, d, ini, tab)
            cache[key] = (fe, fr, psf_extra(f) if fe == 0 else None)
        fexc, fres, fextra = cache[key]
        eqf = exc == 0 and fexc == 0 and same(res, fres)
        if exc != fexc:
            bad.append((k, f'raises (code {exc}) where a fresh object gives code {fexc}'))
        elif exc == 0 and not eqf:
            bad.append((k, 'result table differs from a fresh object\'s'))
        elif exc == 0 and not same(extra, fextra):
            bad.append((k, 'fit_info / finder_results / init_params differ from a fresh object\'s'))
        p = getattr(obj, '_psfphot', obj)
        if (p.grouper is None) != (not cfg['grouper']):
            bad.append((k, 'GROUPER: the grouper given to the constructor was replaced by None'))
        obs.append((d, ini, tab, (exc, res is None, eqf),
                    (p.grouper is None, p.results is None, p.finder_results is None)))
    return obs, bad


def section_psf(ctx, cases, meta):
    rng = ctx.rng
    nh = 6 if ctx.tier == 'quick' else 12
    cfgs = []
    for finder, grouper, localbkg in itertools.product([True, False], [True, False], [True, False]):
        cfgs.append(dict(finder=finder, grouper=grouper, localbkg=localbkg, iterative=False, mode=None))
    for grouper, mode in [(True, 'new'), (True, 'all'), (False, 'new')]:
        cfgs.append(dict(finder=True, grouper=grouper, localbkg=rng.random() < 0.5, iterative=True, mode=mode))
    for cfg in cfgs:
        cache = {}
        hists = [[(0, 2, 0), (0, 1, 0), (0, 0, 0)] if cfg['finder'] else [(0, 2, 0), (0, 1, 0), (0, 1, 1)]]
        for _ in range(nh):
            h = []
            for _ in range(rng.randint(2, 5 if ctx.tier == 'quick' else 8)):
                ini = rng.choice([0, 1, 2]) if (cfg['finder'] or rng.random() < 0.15) else rng.choice([1, 2])
                if rng.random() < 0.08:
                    ini = 3
                d = rng.choice([0, 1, 2, -1]) if ini == 0 else rng.choice([0, 1, 2])
                h.append((d, ini, rng.randrange(8) if ini else 0))
            hists.append(h)
        for h in hists:
            obs, bad = psf_run(cfg, h, cache)
            desc = {'machine': 'IterativePSFPhotometry' if cfg['iterative'] else 'PSFPhotometry', 'config': cfg,
                    'calls': [list(c) for c in h]}
            ctx.count_case(desc, len(h) > 1)
            ctx.stat('psf', f"{'iter' if cfg['iterative'] else 'psf'},finder={cfg['finder']},grouper={cfg['grouper']}")
            for (k, what) in bad:
                sig = (f"{desc['machine']}.grouper:replaced-by-None" if what.startswith('GROUPER')
                       else f"{desc['machine']}.__call__:after-earlier-call")
                report(ctx, sig,
                              f"{desc['machine']} call {k} {what}; calls (image, init_params kind, columns) = {h[:k + 1]}",
                              dict(desc, step=k, cmd='bin/check C09 --replay <this file>'))
            if any(c[1] == 3 for c in h):
                ctx.stat('psf', 'histories with a call raising half-way (direct oracle only)')
            elif not cfg['iterative']:
                cases.append(f"CPsf {coq(cfg['finder'])} {coq(cfg['grouper'])} {coq(obs)}")
                meta.append(('psf', desc, bool(bad)))
    ctx.sample({'machine': 'PSFPhotometry', 'config': cfgs[0], 'calls': [[0, 2, 0], [0, 1, 0], [0, 0, 0]]})


def replay_psf(r):
    obs, bad = psf_run(r['config'], [tuple(c) for c in r['calls']], {})
    for (k, what) in bad:
        print(f'call {k}: {what}')
    return bad


# --------------------------------------------------------------------------
# (d) star finders
# --------------------------------------------------------------------------
def finder_make(kind):
    from photutils.detection import DAOStarFinder, IRAFStarFinder, StarFinder
    if kind == 'DAOStarFinder':
        return DAOStarFinder(5.0, 3.0, brightest=3)
    if kind == 'IRAFStarFinder':
        return IRAFStarFinder(5.0, 3.0)
    yy, xx = np.mgrid[-3:4, -3:4]
    kernel = 7.0 * np.exp(-(xx ** 2 + yy ** 2) / 3.0)      # max != 1: normalised in place by the first call
    return StarFinder(5.0, kernel, min_separation=2.0)


def section_finders(ctx):
    rng = ctx.rng
    n = 6 if ctx.tier == 'quick' else 15
    for kind in ['DAOStarFinder', 'IRAFStarFinder', 'StarFinder']:
        fresh = {}
        for _ in range(n):
            h = [rng.choice([0, 1, 2, -1]) for _ in range(rng.randint(2, 6))]
            with Quiet():
                obj = finder_make(kind)
            desc = {'machine': kind, 'images': h}
            ctx.count_case(desc, len(set(h)) > 1)
            ctx.stat('finders', kind)
            kernels = []
            for k, d in enumerate(h):
                exc, res = 0, None
                try:
                    with Quiet():
                        res = obj(psf_image(d)) if rng.random() < 0.5 else obj.find_stars(psf_image(d))
                except Exception as e:  # noqa
                    exc = exc_code(e)
                if kind == 'StarFinder':
                    # hypothesis of starfinder_calls_fresh_partial: the in-place normalisation is idempotent
                    kernels.append(np.array(obj.kernel))
                    ctx.support('StarFinder kernel normalisation idempotent (bitwise)')
                    if not same(kernels[-1], kernels[0]):
                        report(ctx, 'StarFinder.kernel:normalisation-not-idempotent',
                                      f'StarFinder.kernel after call {k} differs from its value after the first call',
                                      dict(desc, step=k))
                if d not in fresh:
                    with Quiet():
                        fresh[d] = finder_make(kind).find_stars(psf_image(d))
                if exc or not same(res, fresh[d]):
                    report(ctx, f'{kind}.find_stars:repeated-call',
                                  f'{kind} call {k} on image {d} ' + ('raises' if exc else 'differs from a fresh finder') +
                                  f' after images {h[:k]}', dict(desc, step=k))


def replay_finder(r):
    bad = []
    obj = finder_make(r['machine'])
    for k, d in enumerate(r['images']):
        with Quiet():
            res = obj.find_stars(psf_image(d))
            fr = finder_make(r['machine']).find_stars(psf_image(d))
        if not same(res, fr):
            bad.append(k)
            print(f'call {k}: differs from a fresh finder')
    return bad


# --------------------------------------------------------------------------
# (d) Ellipse.fit_image
# --------------------------------------------------------------------------
_GAL = {}


def galaxy():
    if 'g' not in _GAL:
        yy, xx = np.mgrid[0:64, 0:64]
        _GAL['g'] = np.round(1000 * np.exp(-np.sqrt((xx - 32.0) ** 2 + ((yy - 31.0) / 0.7) ** 2) / 6.0))
    return _GAL['g']


def ell_make(g0):
    from photutils.isophote import Ellipse, EllipseGeometry
    geo = EllipseGeometry(32.0, 31.0, 8.0, 0.25, 0.1, linear_growth=g0['lin'])
    if any(g0['fix']):
        geo.fix = np.array(g0['fix'])
    return Ellipse(galaxy(), geo), geo


def ell_call(e, a):
    lin, fc, fp, fe = a
    with Quiet():
        il = e.fit_image(maxsma=14.0, minsma=5.0, step=0.35 if lin != 2 else 2.0,
                         linear={0: None, 1: False, 2: True}[lin], fix_center=fc, fix_pa=fp, fix_eps=fe)
        t = il.to_table()
    return t


def ell_run(g0, calls, cache):
    e, geo = ell_make(g0)
    obs, bad = [], []
    for k, a in enumerate(calls):
        exc, t = 0, None
        try:
            t = ell_call(e, a)
        except Exception as ex:  # noqa
            exc = exc_code(ex)
        key = tuple(a)
        if key not in cache:
            cache[key] = ell_call(ell_make(g0)[0], a)
        eqf = exc == 0 and same(t, cache[key])
        if exc:
            bad.append((k, f'raises (code {exc})'))
        elif not eqf:
            bad.append((k, 'isophote table differs from a fresh Ellipse object\'s'))
        elif bool(geo.linear_growth) != bool(g0['lin']) or [bool(x) for x in geo.fix] != [bool(x) for x in g0['fix']]:
            bad.append((k, 'leaves the caller\'s EllipseGeometry overwritten (linear_growth / fix), which later '
                           'calls then use'))
        obs.append((k, a[0], bool(a[1]), bool(a[2]), bool(a[3]),
                    (eqf, bool(geo.linear_growth), [bool(x) for x in geo.fix])))
    return obs, bad


def section_ellipse(ctx, cases, meta):
    rng = ctx.rng
    g0s = [dict(lin=False, fix=[False] * 4), dict(lin=True, fix=[False] * 4),
           dict(lin=False, fix=[False, False, True, False])]
    nh = 3 if ctx.tier == 'quick' else 8
    for g0 in g0s:
        cache = {}
        hists = [[(0, True, False, False), (0, False, False, False)]]
        for _ in range(nh):
            h = []
            for _ in range(rng.randint(2, 4 if ctx.tier == 'quick' else 8)):
                fc, fp, fe = rng.choice([(False, False, False), (False, False, False), (True, False, False),
                                         (False, True, False), (False, False, True), (True, True, False),
                                         (True, True, True)])
                h.append((rng.choice([0, 0, 1, 2]), fc, fp, fe))
            hists.append(h)
        for h in hists:
            obs, bad = ell_run(g0, h, cache)
            desc = {'machine': 'Ellipse.fit_image', 'geometry': g0, 'calls': [list(c) for c in h]}
            ctx.count_case(desc, len(h) > 1)
            ctx.stat('ellipse', f"lin0={g0['lin']},fix0={any(g0['fix'])}")
            for (k, what) in sorted(bad, key=lambda b: (0 if 'table differs' in b[1] else 1, b[0])):
                report(ctx, 'Ellipse.fit_image:geometry-persists',
                              f'Ellipse.fit_image call {k} {what}; calls (linear, fix_center, fix_pa, fix_eps) = {h[:k + 1]}',
                              dict(desc, step=k, cmd='bin/check C09 --replay <this file>'))
            cases.append(f"CEll {coq(g0['lin'])} {coq([bool(x) for x in g0['fix']])} {coq(obs)}")
            meta.append(('ell', desc, bool(bad)))


def replay_ell(r):
    obs, bad = ell_run(r['geometry'], [tuple(c) for c in r['calls']], {})
    for (k, what) in bad:
        print(f'call {k}: {what}')
    return bad


# --------------------------------------------------------------------------
# (d) GriddedPSFModel
# --------------------------------------------------------------------------
def grid_make(cfg):
    from astropy.nddata import NDData
    from photutils.psf import GriddedPSFModel
    r = np.random.default_rng(cfg['seed'])
    xs, ys = cfg['xg'], cfg['yg']
    pos = [(x, y) for y in ys for x in xs]
    order = list(range(len(pos)))
    np.random.default_rng(cfg['seed'] + 1).shuffle(order)
    pos = [pos[i] for i in order]
    data = r.integers(0, 100, (len(pos), 9, 9)).astype(float)
    return GriddedPSFModel(NDData(data, meta={'grid_xypos': pos, 'oversampling': cfg['os']}))


def grid_eval(m, xy):
    yy, xx = np.mgrid[0:7, 0:7]
    x0, y0 = xy
    with Quiet():
        return m.evaluate(xx + round(x0) - 3.0, yy + round(y0) - 3.0, 2.0, x0, y0)


def section_grid(ctx, cases, meta):
    rng = ctx.rng
    n = 30 if ctx.tier == 'quick' else 80
    for _ in range(n):
        nx, ny = rng.choice([(2, 2), (3, 2), (2, 3), (3, 3)])
        xg = sorted(rng.sample(range(0, 40, 4), nx))
        yg = sorted(rng.sample(range(0, 40, 4), ny))
        cfg = dict(seed=rng.randrange(1000), xg=xg, yg=yg, os=rng.choice([1, 2]))
        m = grid_make(cfg)
        obs, h = [], []
        for k in range(rng.randint(1, 8)):
            xy = (rng.randint(-4, 84) / 2.0, rng.randint(-4, 84) / 2.0)
            if rng.random() < 0.25:
                xy = (float(rng.choice(xg)), rng.randint(-4, 84) / 2.0)     # on a grid line: zero weights
            h.append(xy)
            exc, v = 0, None
            try:
                v = grid_eval(m, xy)
            except Exception as e:  # noqa
                exc = exc_code(e)
            fv = grid_eval(grid_make(cfg), xy)
            eqf = exc == 0 and same(v, fv)
            if exc or not eqf:
                report(ctx, 'GriddedPSFModel.evaluate:after-earlier-evaluations',
                              f'GriddedPSFModel.evaluate at {xy} ' + ('raises' if exc else 'differs from a fresh model') +
                              f' after evaluations at {h[:-1]}', {'machine': 'GriddedPSFModel', 'config': cfg, 'xy': h})
            obs.append((int(2 * xy[0]), int(2 * xy[1]), eqf,
                        [(int(2 * kx), int(2 * ky)) for (kx, ky) in m._interpolator.keys()]))
        desc = {'machine': 'GriddedPSFModel', 'config': cfg, 'xy': h}
        ctx.count_case(desc, len(h) > 1)
        ctx.stat('grid', f'{nx}x{ny}')
        cases.append(f'CGrid {coq([2 * x for x in xg])} {coq([2 * y for y in yg])} {coq(obs)}')
        meta.append(('grid', desc, False))


# --------------------------------------------------------------------------
def run(ctx):
    ctx.build(FILES)
    ctx.cov['rule'] = (
        'histories of length <= 8 (reads / setter assignments / calls) on one real object per case, over '
        'Background2D (filter_threshold none/low/mid/high x filter_size x Zoom/IDW interpolator, masks, units, '
        'coverage mask, bottleneck as installed), RadialProfile / CurveOfGrowth (normalize max/sum, unnormalize, '
        'zero / negative / NaN profiles, units), the six pixel aperture classes (valid and invalid '
        'reassignments, scalar and list positions) and LocalBackground, PSFPhotometry (finder x grouper x '
        'local background; init_params none / table / table with group_id, flux, local_bkg columns), '
        'IterativePSFPhotometry (new/all), DAO/IRAF/StarFinder, Ellipse.fit_image (linear, fix_*), '
        'GriddedPSFModel evaluations; thorough adds all 720 read orders of Background2D per configuration and '
        'all orders of first reads around normalize/unnormalize; every step is compared with a FRESH object; '
        'non-trivial = history with >= 2 steps mixing mutators/reads; distinct = distinct (configuration, history)')
    ctx.assumptions += [
        'the numeric kernels (interpolators, median filters, fits, overlap kernels, splines) are abstract pure '
        'functions in the model; that they are deterministic functions of their arguments is observed on every '
        'step (bitwise equality with a fresh object), not proved',
        'profiles: the rescaling arithmetic is mirrored with Coq primitive floats (binary64); nanmax/nansum are '
        'modelled as left-to-right folds, valid for the < 8-element profiles generated',
        'caller-side in-place edits of returned arrays are outside the history alphabet (reads, setter '
        'assignments, calls); images are passed as copies so that C10 defects do not leak into this check']
    ctx.cov['partial_clauses'] = [
        'starfinder_calls_fresh_partial: StarFinder normalises its kernel in place on every call; the theorem '
        'assumes the normalisation is idempotent (k/max(k) has max exactly 1) -- that hypothesis is checked '
        'bitwise on every StarFinder call of this run (support test), not proved about binary64 division',
        'IterativePSFPhotometry, the star finders and LocalBackground values are tied to the implementation by the '
        'direct fresh-object oracle only (iterative_calls_fresh / readonly_finder_calls_fresh are proved about the '
        'model; the inner iteration schedule is an abstract function there)',
        'PSFPhotometry calls that raise half-way (source off the image) are compared with a fresh object '
        'directly; the model has no such branch',
        'RadialProfile.gaussian_fit / gaussian_profile / gaussian_fwhm are deliberately NOT among the observables: '
        'they are documented not to follow normalize()']
    cases, meta = [], []
    section_bkg(ctx, cases, meta)
    section_prof(ctx, cases, meta)
    section_aper(ctx, cases, meta)
    section_psf(ctx, cases, meta)
    section_finders(ctx)
    section_ellipse(ctx, cases, meta)
    section_grid(ctx, cases, meta)
    bad = ctx.coq_eval_cases(['C09_Model'], 'check_case', cases, case_type='case', shard_numerals=12000)
    ctx.stat('coq', 'disagreements', len(bad))
    for i in bad[:25]:
        kind, desc, violated = meta[i]
        if violated:
            continue          # the direct oracle already reported the concrete input
        detail = {'case': desc, 'coq_case': cases[i][:4000],
                  'model': ctx.coq_eval_term(['C09_Model'], f'model_out ({cases[i]})') if len(cases[i]) < 20000 else None}
        report(ctx, f'correspondence:C09_Model.check_case:{kind}',
                      'model and implementation disagree on exception / cache keys / private state while every '
                      'value equals a fresh object\'s', detail, found_input=False)


def replay(obj):
    r = obj['replay']
    r = r.get('case', r)
    m = r.get('machine')
    if m == 'Background2D':
        bad = replay_bkg(r)
    elif m == 'profile':
        bad = replay_prof(r)
    elif m == 'aperture':
        bad = replay_aper(r)
    elif m in ('PSFPhotometry', 'IterativePSFPhotometry'):
        bad = replay_psf(r)
    elif m == 'Ellipse.fit_image':
        bad = replay_ell(r)
    elif m in ('DAOStarFinder', 'IRAFStarFinder', 'StarFinder'):
        bad = replay_finder(r)
    else:
        print('nothing to replay for', m)
        return 0
    print('property holds on this history' if not bad else 'property FAILS on this history')
    return 1 if bad else 0
