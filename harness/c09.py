"""C09 — results never depend on access order or on earlier calls.

Random (and, in the thorough tier, exhaustive) interleavings of reads / setter
assignments / calls on ONE real object; after every step
  (V) the value is compared bitwise with what a FRESH object returns for the same
      request and any exception with the fresh object's exception (direct oracle of
      the property text), and
  (K) exception code, "equals fresh", and the private state / cache-key set are
      written as a Coq term and checked against the model of coq/C09_Model.v
      (which mirrors the repaired code) inside Coq.
Machines: (a) Background2D, (b) RadialProfile / CurveOfGrowth normalize,
(c) pixel apertures (+ LocalBackground's annulus), (d) PSFPhotometry,
IterativePSFPhotometry, star finders, Ellipse.fit_image, GriddedPSFModel.
Histories ACROSS objects: objects sharing helper instances (default-argument
singletons or one instance given to two constructors) are used alternately and
compared with objects built from private copies of the pristine defaults;
apertures of several classes are driven in one fresh subprocess per scenario
(class-level state is decided by whichever class is re-assigned first).
"""
import itertools
import math
import types
import warnings

import numpy as np

from .core import coq, Some, Raw, Nat

PID = 'C09'
FILES = ['lib/Cases.v', 'C09_Model.v', 'C09_Proofs.v', 'C09_Properties.v']


# --------------------------------------------------------------------------
# generic helpers
# --------------------------------------------------------------------------
def exc_code(e):
    if isinstance(e, TypeError):
        return 1
    if isinstance(e, ValueError):
        return 2
    if isinstance(e, AttributeError):
        return 3
    if isinstance(e, KeyError):
        return 4
    return 9


_DEPTH = [0]


def _depth_ok():
    return _DEPTH[0] < 4


def same_dict(a, b):
    if sorted(a) != sorted(b):
        return False
    _DEPTH[0] += 1
    try:
        return all(same(a[k], b[k]) for k in a)
    finally:
        _DEPTH[0] -= 1


def same(a, b):
    """Exact (bitwise up to NaN payload / sign of zero) equality of two results."""
    import astropy.units as u
    from astropy.table import Table
    if a is None or b is None:
        return a is None and b is None
    if isinstance(a, Table) or isinstance(b, Table):
        if not (isinstance(a, Table) and isinstance(b, Table)):
            return False
        if a.colnames != b.colnames or len(a) != len(b):
            return False
        return all(same(a[c], b[c]) for c in a.colnames)
    if isinstance(a, u.UnitBase) or isinstance(b, u.UnitBase):
        return isinstance(a, u.UnitBase) and isinstance(b, u.UnitBase) and a == b
    if isinstance(a, u.Quantity) or isinstance(b, u.Quantity):
        if not (isinstance(a, u.Quantity) and isinstance(b, u.Quantity)):
            return False
        return a.unit == b.unit and same(np.asarray(a.value), np.asarray(b.value))
    if isinstance(a, dict) or isinstance(b, dict):
        if not (isinstance(a, dict) and isinstance(b, dict)) or sorted(a) != sorted(b):
            return False
        return all(same(a[k], b[k]) for k in a)
    if isinstance(a, (list, tuple)) or isinstance(b, (list, tuple)):
        if not (isinstance(a, (list, tuple)) and isinstance(b, (list, tuple))) or len(a) != len(b):
            return False
        return all(same(x, y) for x, y in zip(a, b))
    if hasattr(a, 'ixmin') and hasattr(a, 'iymax'):      # BoundingBox
        return (hasattr(b, 'ixmin') and
                (a.ixmin, a.ixmax, a.iymin, a.iymax) == (b.ixmin, b.ixmax, b.iymin, b.iymax))
    if type(a).__name__ == 'ApertureMask':
        return type(b).__name__ == 'ApertureMask' and same(a.bbox, b.bbox) and same(a.data, b.data)
    if type(a).__name__ == 'slice':
        return a == b
    if isinstance(a, (str, bytes, bool, int, float, complex)) and isinstance(b, (str, bytes, bool, int, float, complex)):
        return bool((a == b) or (a != a and b != b))
    if hasattr(a, 'ndim') or hasattr(b, 'ndim') or isinstance(a, np.generic) or isinstance(b, np.generic):
        pass
    elif hasattr(a, '__dict__') and not isinstance(a, (type, types.FunctionType, types.MethodType, types.ModuleType)):
        # e.g. aperture objects, stored PSFPhotometry copies: same class, same attributes (bounded depth)
        if type(a) is not type(b):
            return False
        if a is b or not _depth_ok():
            return True
        if hasattr(a, '_params') and hasattr(type(a), '_lazyproperties'):
            # aperture objects: class and parameters (positions, radii, angle) by value; their lazyproperty
            # caches (filled or not, depending on use) are derived values, not part of the value
            return all(same(getattr(a, n), getattr(b, n)) for n in a._params)
        from astropy.utils import lazyproperty
        cls = type(a)

        def state(o):       # the PUBLIC instance attributes, without lazyproperty caches and private scratch state
            return {k: v for k, v in vars(o).items()
                    if not k.startswith('_') and not isinstance(getattr(cls, k, None), lazyproperty)}
        return same_dict(state(a), state(b))
    aa, bb = np.asarray(a), np.asarray(b)
    if aa.dtype == object or bb.dtype == object:
        if aa.shape != bb.shape:
            return False
        return all(same(x, y) for x, y in zip(aa.ravel().tolist(), bb.ravel().tolist())) if aa.size else True
    if aa.shape != bb.shape or aa.dtype != bb.dtype:
        return False
    if aa.dtype.kind in 'fc':
        return bool(np.array_equal(aa, bb, equal_nan=True))
    return bool(np.array_equal(aa, bb))


def public_reads(obj, exclude=()):
    """The READ alphabet derived from the object: every public, non-callable attribute (properties,
    lazyproperties, deprecated accessors, plain instance attributes), plot-free."""
    out = []
    for n in sorted(set(dir(obj))):
        if n.startswith('_') or n.startswith('plot') or n in exclude:
            continue
        try:
            with Quiet():
                v = getattr(obj, n)
        except Exception:  # noqa   (still a read: raising is compared with the fresh object)
            out.append(n)
            continue
        if not callable(v):
            out.append(n)
    return out


def zf(x):
    """binary64 -> Coq [zf]: None = NaN, Some (mantissa, exponent)."""
    x = float(x)
    if math.isnan(x):
        return None
    if math.isinf(x):
        return Some((1 if x > 0 else -1, 5000))
    if x == 0.0:
        return Some((0, 0))
    m, e = math.frexp(x)
    m = int(m * (1 << 53))
    e -= 53
    while m % 2 == 0:
        m //= 2
        e += 1
    return Some((m, e))


def farr(a):
    import astropy.units as u
    if isinstance(a, u.Quantity):
        a = a.value
    return [zf(v) for v in np.atleast_1d(np.asarray(a, float)).ravel()]


def describe_arr(a):
    return np.where(np.isnan(a), None, a).tolist() if a.dtype.kind == 'f' and np.isnan(a).any() else a.tolist()


def report(ctx, signature, what, replay, found_input=True):
    """ctx.violation, once per signature and run (one replay file per failing call site)"""
    seen = ctx.__dict__.setdefault('_c09_reported', set())
    if signature in seen:
        ctx.stat('violations', 'further occurrences of ' + signature)
        return
    seen.add(signature)
    ctx.violation(signature, what, replay, found_input=found_input)


class Quiet:
    def __enter__(self):
        self.c = warnings.catch_warnings()
        self.c.__enter__()
        warnings.simplefilter('ignore')
        self.e = np.errstate(all='ignore')
        self.e.__enter__()

    def __exit__(self, *a):
        self.e.__exit__(*a)
        self.c.__exit__(*a)


# --------------------------------------------------------------------------
# (a) Background2D
# --------------------------------------------------------------------------
BREADS = ['background_mesh', 'background_rms_mesh', 'background_median', 'background_rms_median',
          'background', 'background_rms', 'npixels_mesh', 'npixels_map',
          # deprecated accessors (DeprecationWarning recorded, not raised)
          'background_mesh_masked', 'background_rms_mesh_masked', 'mesh_nmasked']
NB_MODEL = 8
# effect of the further reads on the modelled state: *_masked read the corresponding mesh
# (cache effect of RMesh / RRmsMesh), mesh_nmasked reads only _ngood (no effect, like npixels_mesh)
B_COQ = {8: 0, 9: 1, 10: 6}


def bkg_alphabet(cfg):
    """BREADS extended (once) by every other public non-callable attribute of a Background2D object"""
    if len(BREADS) == 11:
        with Quiet():
            o = bkg_make(cfg)
        BREADS.extend(public_reads(o, exclude=BREADS))
    return BREADS


BLAZY = ['background_mesh', 'background_rms_mesh', 'background_median', 'background_rms_median']


def bkg_data(seed, shape, nanbox, star):
    r = np.random.default_rng(seed)
    d = r.integers(0, 40, shape).astype(float) / 4.0
    d += np.linspace(0, 6, shape[1])[None, :]
    if star:
        d[7:11, 8:13] += 100.0
    m = np.zeros(shape, bool)
    if nanbox:
        m[0:6, 0:7] = True          # a whole box masked -> NaN statistic -> IDW fill of the mesh
    return d, m


def bkg_make(cfg):
    from photutils.background import Background2D, BkgIDWInterpolator, BkgZoomInterpolator
    import astropy.units as u
    d, m = bkg_data(cfg['seed'], tuple(cfg['shape']), cfg['nanbox'], cfg['star'])
    if cfg['unit']:
        d = d * u.Jy
    interp = BkgIDWInterpolator() if cfg['interp'] == 'idw' else BkgZoomInterpolator()
    cov = None
    if cfg['coverage']:
        cov = np.zeros(tuple(cfg['shape']), bool)
        cov[-3:, :] = True
    return Background2D(d, tuple(cfg['box']), mask=m if cfg['nanbox'] else None, coverage_mask=cov,
                        filter_size=tuple(cfg['fsize']), filter_threshold=cfg['thr'],
                        exclude_percentile=10.0, edge_method=cfg['edge'], interpolator=interp,
                        fill_value=-1.0)


def bkg_configs(rng, tier):
    out = []
    for thrk, fsize, interp in itertools.product(['none', 'low', 'mid', 'high'], [(1, 1), (3, 3), (3, 5)],
                                                 ['zoom', 'idw']):
        cfg = dict(seed=rng.randrange(1000), shape=rng.choice([(24, 28), (25, 27), (30, 28)]),
                   box=rng.choice([(6, 7), (5, 5), (6, 6)]), nanbox=rng.random() < 0.7, star=True,
                   unit=rng.random() < 0.25, coverage=rng.random() < 0.3, fsize=fsize, interp=interp,
                   edge=rng.choice(['pad', 'crop']), thr=None, thrk=thrk)
        if thrk != 'none':
            with Quiet():
                probe = bkg_make(cfg)
            lo, hi = float(np.nanmin(probe._bkg_stats)), float(np.nanmax(probe._bkg_stats))
            cfg['thr'] = {'low': lo - 1.0, 'mid': (lo + hi) / 2.0, 'high': hi + 1.0}[thrk]
        out.append(cfg)
    return out


def bkg_run(ctx, cfg, hist, fresh_cache):
    """Run one read history on one instance; returns (coq obs list, list of violations)."""
    def fresh(attr):
        if attr not in fresh_cache:
            with Quiet():
                fresh_cache[attr] = getattr(bkg_make(cfg), attr)
        return fresh_cache[attr]
    with Quiet():
        obj = bkg_make(cfg)
    obs, bad = [], []
    for k, r in enumerate(hist):
        attr = BREADS[r]
        exc, v = 0, None
        try:
            with Quiet():
                v = getattr(obj, attr)
        except Exception as e:  # noqa
            exc = exc_code(e)
            bad.append((k, attr, 'raises ' + type(e).__name__))
        eqf = exc == 0 and same(v, fresh(attr))
        if exc == 0 and not eqf:
            bad.append((k, attr, 'differs from a fresh object'))
        if r < NB_MODEL or r in B_COQ:       # the other public attributes touch none of the modelled state
            obs.append((B_COQ.get(r, r), exc, eqf, obj._bkg_stats is None, obj._bkgrms_stats is None,
                        [a in obj.__dict__ for a in BLAZY]))
    return obs, bad


def bkg_flags(cfg):
    with Quiet():
        o = bkg_make(cfg)
    thr = cfg['thr'] is not None
    return thr, bool(thr and cfg['thr'] < o._min_bkg_stats), tuple(cfg['fsize']) == (1, 1)


def section_bkg(ctx, cases, meta):
    rng = ctx.rng
    cfgs = bkg_configs(rng, ctx.tier)
    nh = 8 if ctx.tier == 'quick' else 12
    nall = len(bkg_alphabet(cfgs[0]))
    ctx.stat('bkg', 'read alphabet (public attributes)', nall)
    for ci, cfg in enumerate(cfgs):
        flags = bkg_flags(cfg)
        cache = {}
        hists = []
        for _ in range(nh):
            n = rng.randint(1, 8)
            hists.append([rng.randrange(11) if rng.random() < 0.75 else
                          (rng.choice([0, 1]) if rng.random() < 0.5 else rng.randrange(11, nall)) for _ in range(n)])
        hists.append([1, 0, 4, 5])          # rms mesh first (the order no unit test uses)
        hists.append([8, 0, 4, 9, 1, 5, 2, 3])      # deprecated masked accessors before everything else
        hists.append([10, 6, 7, 10, 8, 2])
        if ctx.tier == 'thorough':
            hists += [list(p) for p in itertools.permutations(range(6))]
            hists += [list(p) for p in itertools.permutations([8, 0, 4, 2, 10])]
            hists += [list(p) for p in itertools.permutations([9, 1, 5, 3, 8])]
            ctx.stat('bkg', 'permutation_histories', 960)
        for h in hists:
            obs, bad = bkg_run(ctx, cfg, h, cache)
            desc = {'machine': 'Background2D', 'config': {k: cfg[k] for k in cfg}, 'history': [BREADS[r] for r in h]}
            ctx.count_case(desc, len(h) > 1)
            ctx.stat('bkg', f"thr={cfg['thrk']},filter={'1x1' if flags[2] else 'NxM'},{cfg['interp']}")
            for (k, attr, what) in bad:
                report(ctx, f'Background2D.{attr}:{what.split()[0]}',
                              f'Background2D.{attr} {what} after reading {[BREADS[r] for r in h[:k]]} '
                              f'(filter_threshold={cfg["thr"]}, filter_size={cfg["fsize"]})',
                              dict(desc, step=k, cmd='bin/check C09 --replay <this file>'))
            cases.append(f'CBkg {coq(flags[0])} {coq(flags[1])} {coq(flags[2])} {coq(obs)}')
            meta.append(('bkg', desc, bool(bad)))
    ctx.sample({'machine': 'Background2D', 'config': cfgs[3], 'history': [BREADS[r] for r in [1, 0, 4, 5]]})


def replay_bkg(r):
    cfg = r['config']
    bkg_alphabet(cfg)
    h = [BREADS.index(a) for a in r['history']]
    obs, bad = bkg_run(None, cfg, h, {})
    for (k, attr, what) in bad:
        print(f'step {k}: Background2D.{attr} {what}')
    return bad


# --------------------------------------------------------------------------
# (b) profiles
# --------------------------------------------------------------------------
POPS = ['profile', 'profile_error', 'data_profile', 'normalization_value', "normalize('max')",
        "normalize('sum')", 'unnormalize()',
        # further public reads (no gaussian_*: documented not to follow normalize)
        'calc_ee_at_radius(r)', 'calc_radius_at_ee(ee)', 'area', 'radius', 'data_radius']
PKEYS = ['profile', 'profile_error', 'data_profile']
PMUT = (4, 5, 6)
P_BADCALL = 999      # a call that raises: the fresh object never sees it
P_EE_R = np.array([0.25, 0.75, 1.5, 2.25, 3.0, 10.0])
P_EE_V = np.array([0.1, 0.5, 0.9, 5.0, 50.0, 400.0])


PEXTRA = {}        # class name -> the other public non-callable attributes (derived from the object)


def prof_alphabet(cfg):
    if cfg['cls'] not in PEXTRA:
        with Quiet():
            o = prof_make(cfg)
        known = {'profile', 'profile_error', 'data_profile', 'normalization_value', 'area', 'radius', 'data_radius'}
        PEXTRA[cfg['cls']] = [n for n in public_reads(o, exclude=known) if not n.startswith('gaussian')]
    return PEXTRA[cfg['cls']]


def pop_name(cfg, op):
    if op == P_BADCALL:
        return "normalize('no-such-method')"
    return POPS[op] if op < len(POPS) else PEXTRA[cfg['cls']][op - len(POPS)]


def is_pread(op):
    return op not in PMUT


def prof_make(cfg):
    from photutils.profiles import CurveOfGrowth, RadialProfile
    import astropy.units as u
    r = np.random.default_rng(cfg['seed'])
    n = cfg['size']
    yy, xx = np.mgrid[0:n, 0:n]
    c = (n - 1) / 2.0
    kind = cfg['kind']
    if kind == 'zero':
        d = np.zeros((n, n))
    else:
        d = np.round(cfg['amp'] * np.exp(-((xx - c) ** 2 + (yy - c) ** 2) / 8.0)) + r.integers(-2, 3, (n, n))
        if kind == 'negative':
            d = -np.abs(d) - 1.0
        elif kind == 'irrational':
            d = d / 3.0
    err = np.full((n, n), 1.5) if cfg['error'] else None
    mask = None
    if cfg['mask']:
        mask = np.zeros((n, n), bool)
        mask[int(c) - 1:int(c) + 2, int(c) - 1:int(c) + 2] = cfg['mask'] == 'core'
        mask[0:3, :] = True
    if kind == 'allmasked':          # no unmasked pixel: NaN radial profile, zero curve of growth
        mask = np.ones((n, n), bool)
    if cfg['nan']:
        d = d.copy()
        d[int(c) + 2, int(c)] = np.nan
    if cfg['unit']:
        d = d * u.Jy
        err = None if err is None else err * u.Jy
    cls = RadialProfile if cfg['cls'] == 'RadialProfile' else CurveOfGrowth
    return cls(d, (c + cfg['off'], c), np.array(cfg['radii'], float), error=err, mask=mask,
               method=cfg['method'], subpixels=3)


def prof_apply(obj, op):
    """returns (exc, value) of one operation"""
    try:
        with Quiet():
            if op == P_BADCALL:          # normalize(method='no-such-method'): raises ValueError, changes nothing
                obj.normalize('no-such-method')
                return 0, None
            if op >= len(POPS):
                return 0, getattr(obj, PEXTRA[type(obj).__name__][op - len(POPS)])
            if op <= 3 or op >= 9:
                return 0, getattr(obj, POPS[op])
            if op == 7:
                return 0, obj.calc_ee_at_radius(P_EE_R)
            if op == 8:
                return 0, obj.calc_radius_at_ee(P_EE_V)
            if op == 4:
                obj.normalize('max')
            elif op == 5:
                obj.normalize('sum')
            else:
                obj.unnormalize()
            return 0, None
    except Exception as e:  # noqa
        return exc_code(e), None


def prof_fresh(cfg, muts, op, cache):
    key = (tuple(muts), op)
    if key not in cache:
        with Quiet():
            o = prof_make(cfg)
        for m in muts:
            prof_apply(o, m)
        cache[key] = prof_apply(o, op)
    return cache[key]


def nv_of(obj):
    import astropy.units as u
    v = obj.normalization_value
    return float(v.value) if isinstance(v, u.Quantity) else float(v)


def kind_of(v):
    """type and unit of a returned value: Quantity (with its unit) / array / scalar"""
    import astropy.units as u
    if isinstance(v, u.Quantity):
        return ('Quantity', v.unit.to_string())
    if isinstance(v, np.ndarray):
        return ('ndarray',)
    return ('scalar',)


def prof_expected_kind(cfg, op, normalized, cache):
    """Type / unit a read must have in the UN-NORMALISED state (initially and after unnormalize(), which
    restores 'the original state'): those of a fresh object without any call.  In the normalised state the
    type / unit is compared with the fresh object given the same calls only (through `same`)."""
    if normalized:
        return None
    fexc, fv = prof_fresh(cfg, [], op, cache)
    return None if fexc else kind_of(fv)


def prof_run(cfg, hist, cache):
    with Quiet():
        obj = prof_make(cfg)
    obs, bad, muts = [], [], []
    iscog = cfg['cls'] == 'CurveOfGrowth'
    normalized = False
    for k, op in enumerate(hist):
        if op in (4, 5):        # will this normalize be accepted?  (refused: zero or non-finite max / sum)
            pexc, pv = prof_fresh(cfg, muts, 0, cache)
            if pexc == 0:
                arr = np.asarray(getattr(pv, 'value', pv), float)
                with Quiet():
                    nrm = (np.nanmax(arr) if op == 4 else np.nansum(arr)) if arr.size and not np.all(np.isnan(arr)) \
                        else (np.nan if op == 4 else 0.0)
                if nrm != 0 and np.isfinite(nrm):
                    normalized = True
        elif op == 6:
            normalized = False
        exc, v = prof_apply(obj, op)
        if op == P_BADCALL:
            if exc != 2:
                bad.append((k, pop_name(cfg, op), f'gives code {exc} instead of raising ValueError'))
            continue
        if is_pread(op) and exc == 0 and op <= 3:
            want = prof_expected_kind(cfg, op, normalized, cache)
            if want is not None and kind_of(v) != want:
                bad.append((k, pop_name(cfg, op), f'UNIT: is returned as {kind_of(v)} but must be {want} '
                                         f'({"normalised" if normalized else "un-normalised"} state, inputs '
                                         f'{"with" if cfg["unit"] else "without"} units)'))
        if is_pread(op):
            fexc, fv = prof_fresh(cfg, muts, op, cache)
            if exc != fexc:
                bad.append((k, pop_name(cfg, op), f'raises (code {exc}) where a fresh object gives code {fexc}'))
            elif exc == 0 and not same(v, fv):
                bad.append((k, pop_name(cfg, op), 'differs from a fresh object given the same normalize/unnormalize calls'))
        elif exc != 0:
            bad.append((k, POPS[op], f'raises (code {exc})'))
        arr = farr(v) if (op <= 3 and exc == 0) else []
        # the Coq machine knows ops 0-6; calc_* (CurveOfGrowth) touch the cache like a read of
        # profile (op >= 7, value not compared in Coq); the other extra reads touch none of the
        # three modelled cache keys and are left out of the Coq history
        if op <= 6 or (op in (7, 8) and iscog):
            obs.append((op, exc, arr, zf(nv_of(obj)), [a in obj.__dict__ for a in PKEYS]))
        if op in PMUT:
            muts.append(op)
    return obs, bad


def prof_configs(rng, tier):
    out = []
    for cls in ['RadialProfile', 'CurveOfGrowth']:
        for kind in ['gauss', 'gauss', 'irrational', 'negative', 'zero', 'allmasked']:
            nb = rng.randint(2, 6)
            if cls == 'RadialProfile':
                radii = [0.0 if rng.random() < 0.6 else 0.5]
            else:
                radii = [rng.choice([0.5, 1.0])]
            for _ in range(nb):
                radii.append(radii[-1] + rng.choice([0.5, 1.0, 1.0, 1.5]))
            radii = [x for x in radii if x <= 5.0]
            if len(radii) < 2:
                radii = [0.0, 1.0, 2.0] if cls == 'RadialProfile' else [1.0, 2.0]
            out.append(dict(cls=cls, kind=kind, seed=rng.randrange(1000), size=rng.choice([11, 12, 13]),
                            amp=rng.choice([40, 64, 100]), error=rng.random() < 0.7,
                            mask=rng.choice([None, None, 'edge', 'core']), nan=rng.random() < 0.25,
                            unit=rng.random() < 0.4, off=rng.choice([0.0, 0.0, 0.5, 0.25]),
                            radii=radii, method=rng.choice(['exact', 'center', 'subpixel'])))
    return out


def section_prof(ctx, cases, meta):
    rng = ctx.rng
    cfgs = prof_configs(rng, ctx.tier)
    nh = 12 if ctx.tier == 'quick' else 30
    for cfg in cfgs:
        cache = {}
        nextra = len(prof_alphabet(cfg))
        _, pr = prof_fresh(cfg, [], 0, cache)
        _, er = prof_fresh(cfg, [], 1, cache)
        dexc, dr = prof_fresh(cfg, [], 2, cache)
        hists = []
        for _ in range(nh):
            n = rng.randint(1, 8)
            hists.append([rng.choice([0, 1, 2, 3, 4, 4, 5, 6, 6, 7, 8, 9, 10, 11, 12 + rng.randrange(nextra), P_BADCALL])
                          for _ in range(n)])
        hists += [[4, 2, 6, 2], [2, 4, 2, 6, 2], [5, 0, 1, 2, 3], [4, 5, 6, 0, 2], [7, 4, 7, 8, 6, 7, 8],
                  [4, 0, 1, 3, 6, 0, 1, 2]]
        if ctx.tier == 'thorough':
            # every order of the three first reads around one normalize / one unnormalize
            for p in itertools.permutations([0, 1, 2, 4, 6]):
                hists.append(list(p) + [0, 1, 2])
            for p in itertools.permutations([7, 8, 0, 4, 6]):
                hists.append(list(p) + [7, 8])
            ctx.stat('prof', 'permutation_histories', 240)
        for h in hists:
            obs, bad = prof_run(cfg, h, cache)
            desc = {'machine': 'profile', 'config': cfg, 'history': [pop_name(cfg, o) for o in h]}
            ctx.count_case(desc, any(o in PMUT for o in h))
            ctx.stat('prof', f"{cfg['cls']},{cfg['kind']}")
            for (k, name, what) in bad:
                report(ctx, f"{cfg['cls']}.{name}:" + ('unit-or-type-after-history' if what.startswith('UNIT')
                                                       else 'order-dependent'),
                              f"{cfg['cls']}.{name} {what}; history {[pop_name(cfg, o) for o in h[:k + 1]]}",
                              dict(desc, step=k, cmd='bin/check C09 --replay <this file>'))
            drc = 'None' if dexc != 0 else coq(Some(farr(dr)))
            cases.append(f'CProf {coq(farr(pr))} {coq(farr(er))} {drc} {coq(obs)}')
            meta.append(('prof', desc, bool(bad)))
    ctx.sample({'machine': 'profile', 'config': cfgs[0], 'history': [POPS[o] for o in [4, 2, 6, 2]]})


def replay_prof(r):
    ex = prof_alphabet(r['config'])
    h = [P_BADCALL if a.startswith("normalize('no-such") else POPS.index(a) if a in POPS else len(POPS) + ex.index(a)
         for a in r['history']]
    obs, bad = prof_run(r['config'], h, {})
    for (k, name, what) in bad:
        print(f'step {k}: {name} {what}')
    return bad


# --------------------------------------------------------------------------
# (c) pixel apertures
# --------------------------------------------------------------------------
APCLS = {
    'CircularAperture': (['positions', 'r'], True, True),
    'CircularAnnulus': (['positions', 'r_in', 'r_out'], True, True),
    'EllipticalAperture': (['positions', 'a', 'b', 'theta'], False, False),
    'EllipticalAnnulus': (['positions', 'a_in', 'a_out', 'b_in', 'b_out', 'theta'], False, False),
    'RectangularAperture': (['positions', 'w', 'h', 'theta'], False, False),
    'RectangularAnnulus': (['positions', 'w_in', 'w_out', 'h_in', 'h_out', 'theta'], False, False),
}
ALAZY = ['shape', 'isscalar', '_positions', '_xy_extents', '_bbox', 'bbox', '_centered_edges', 'area']
AMETH = [('center', 1), ('subpixel', 3), ('exact', 1)]


def ap_class(name):
    import photutils.aperture as pa
    return getattr(pa, name)


def ap_value(rng, name, cur, valid):
    """A new value (JSON-able description) for parameter `name` given the current parameters."""
    if name == 'positions':
        if not valid:
            return rng.choice([['list', [1.0, 2.0, 3.0]], ['list', [[float('nan'), 1.0]]],
                               ['list', [[1.0, 2.0, 3.0]]]])
        if rng.random() < 0.4:
            return ['list', [rng.randint(4, 16) / 2.0, rng.randint(4, 16) / 2.0]]
        return ['list', [[rng.randint(4, 16) / 2.0, rng.randint(4, 16) / 2.0] for _ in range(rng.randint(1, 3))]]
    if name == 'theta':
        if not valid:
            return rng.choice([['list', [0.1, 0.2]], ['metre', 1.0]])
        return rng.choice([['float', rng.randint(-6, 6) / 4.0], ['deg', float(rng.randint(0, 180))]])
    if not valid:
        return rng.choice([['float', -1.0], ['float', 0.0], ['list', [1.0, 2.0]]])
    lo, hi = 0.25, 6.0
    base = name.split('_')[0]
    if name.endswith('_in') and cur.get(base + '_out') is not None:
        hi = cur[base + '_out'][1] - 0.25
    if name.endswith('_out') and cur.get(base + '_in') is not None:
        lo = cur[base + '_in'][1] + 0.25
    k0, k1 = int(math.ceil(lo * 4)), int(math.floor(hi * 4))
    return ['float', rng.randint(k0, max(k0, k1)) / 4.0]


def ap_decode(v):
    import astropy.units as u
    kind, x = v
    if kind == 'float':
        return x
    if kind == 'list':
        return np.array(x, float) if not any(isinstance(e, float) and math.isnan(e) for e in np.ravel(x)) \
            else np.array(x, float)
    if kind == 'deg':
        return x * u.deg
    if kind == 'metre':
        return x * u.m
    raise ValueError(kind)


def ap_read(obj, a):
    if a == 11:          # raises ValueError before touching any lazyproperty
        return obj.to_mask(method='no-such-method')
    if a < 8:
        return getattr(obj, ALAZY[a])
    m, sub = AMETH[a - 8]
    return obj.to_mask(method=m, subpixels=sub)


def ap_run(clsname, init, ops):
    """init: {param: value-desc}; ops: list of ('set', i, vdesc, valid) / ('read', a)."""
    names, _, _ = APCLS[clsname]
    cls = ap_class(clsname)
    cur = dict(init)
    with Quiet():
        obj = cls(**{k: ap_decode(v) for k, v in cur.items()})
    keys0 = [a in obj.__dict__ for a in ALAZY]
    obs, bad = [], []
    nid = 100
    for i, n in enumerate(names):            # the constructor's assignments
        obs.append((0, i, nid, True, (0, True, keys0)))
        nid += 1
    for k, op in enumerate(ops):
        if op[0] == 'get':          # any other public attribute (parameters ...): no effect on the cache
            with Quiet():
                pub = public_reads(obj, exclude=ALAZY)
                nm = pub[op[1] % len(pub)]
                v = getattr(obj, nm)
                fr = getattr(cls(**{n: ap_decode(x) for n, x in cur.items()}), nm)
            if not same(v, fr):
                bad.append((k, nm, 'differs from a fresh aperture with the current parameters'))
            continue
        if op[0] == 'set':
            _, i, vd, valid = op
            exc = 0
            try:
                with Quiet():
                    setattr(obj, names[i], ap_decode(vd))
            except Exception as e:  # noqa
                exc = exc_code(e)
            if exc == 0:
                cur[names[i]] = vd
            if valid and exc:
                bad.append((k, names[i], f'assignment raises (code {exc})'))
            obs.append((0, i, nid, bool(valid), (exc, True, [a in obj.__dict__ for a in ALAZY])))
            nid += 1
        else:
            a = op[1]
            exc, v = 0, None
            try:
                with Quiet():
                    v = ap_read(obj, a)
            except Exception as e:  # noqa
                exc = exc_code(e)
            if a == 11:       # a read that raises for a fresh aperture too; it must leave no trace
                if exc != 2:
                    bad.append((k, "to_mask('no-such-method')", f'gives code {exc} instead of raising ValueError'))
                continue
            with Quiet():
                fr = ap_read(cls(**{n: ap_decode(x) for n, x in cur.items()}), a)
            eqf = exc == 0 and same(v, fr)
            nm = ALAZY[a] if a < 8 else f'to_mask({AMETH[a - 8][0]})'
            if exc:
                bad.append((k, nm, f'raises (code {exc})'))
            elif not eqf:
                bad.append((k, nm, 'differs from a fresh aperture with the current parameters'))
            obs.append((1, a, 0, True, (exc, eqf, [x in obj.__dict__ for x in ALAZY])))
    return obs, bad


def ap_history(rng, clsname):
    names, _, _ = APCLS[clsname]
    init = {}
    for n in names:
        init[n] = ap_value(rng, n, init, True)
    # consistent annulus
    cur = dict(init)
    ops = []
    for _ in range(rng.randint(1, 8)):
        if rng.random() < 0.4:
            i = rng.randrange(len(names))
            valid = rng.random() < 0.85
            vd = ap_value(rng, names[i], cur, valid)
            ops.append(('set', i, vd, valid))
            if valid:
                cur[names[i]] = vd
        elif rng.random() < 0.12:
            ops.append(('get', rng.randrange(8)))
        else:
            ops.append(('read', rng.choice([0, 1, 2, 3, 4, 5, 5, 6, 7, 7, 8, 9, 10, 11])))
    return init, ops


def section_aper(ctx, cases, meta):
    rng = ctx.rng
    nh = 30 if ctx.tier == 'quick' else 120
    for clsname, (names, le, la) in APCLS.items():
        for _ in range(nh):
            init, ops = ap_history(rng, clsname)
            obs, bad = ap_run(clsname, init, ops)
            desc = {'machine': 'aperture', 'class': clsname, 'init': init, 'ops': [list(o) for o in ops]}
            ctx.count_case(desc, any(o[0] == 'set' for o in ops) and any(o[0] == 'read' for o in ops))
            ctx.stat('aper', clsname)
            for (k, nm, what) in bad:
                report(ctx, f'{clsname}.{nm}:after-reassignment', f'{clsname}.{nm} {what}',
                              dict(desc, step=k, cmd='bin/check C09 --replay <this file>'))
            cases.append(f'CAper {coq(le)} {coq(la)} {coq(obs)}')
            meta.append(('aper', desc, bool(bad)))
    # LocalBackground: its CircularAnnulus gets new positions on every call
    from photutils.background import LocalBackground
    img = np.random.default_rng(5).integers(0, 50, (25, 25)).astype(float)
    for _ in range(6 if ctx.tier == 'quick' else 40):
        rin, rout = rng.choice([(2.0, 4.0), (3.0, 5.5), (1.5, 3.0)])
        with Quiet():
            lb = LocalBackground(rin, rout)
        keys0 = [a in lb._aperture.__dict__ for a in ALAZY]
        obs = [(0, 0, 100, True, (0, True, keys0)), (0, 1, 101, True, (0, True, keys0)),
               (0, 2, 102, True, (0, True, keys0))]
        calls, bad = [], []
        for k in range(rng.randint(2, 4)):
            n = rng.randint(1, 3)
            xs = [rng.randint(10, 30) / 2.0 for _ in range(n)]
            ys = [rng.randint(10, 30) / 2.0 for _ in range(n)]
            calls.append((xs, ys))
            exc, v = 0, None
            try:
                with Quiet():
                    v = lb(img.copy(), xs, ys)
            except Exception as e:  # noqa
                exc = exc_code(e)
            with Quiet():
                fv = LocalBackground(rin, rout)(img.copy(), xs, ys)
            eqf = exc == 0 and same(v, fv)
            if exc or not eqf:
                bad.append((k, 'raises' if exc else 'differs from a fresh LocalBackground'))
            keys = [a in lb._aperture.__dict__ for a in ALAZY]
            # the assignment empties the cache (not observable from outside the call), the
            # to_mask('center') then fills exactly the keys observed after the call
            obs.append((0, 0, 200 + k, True, (0, True, [False] * 8)))
            obs.append((1, 8, 0, True, (exc, eqf, keys)))
        desc = {'machine': 'LocalBackground', 'radii': [rin, rout], 'calls': calls}
        ctx.count_case(desc, True)
        ctx.stat('aper', 'LocalBackground')
        for (k, what) in bad:
            report(ctx, 'LocalBackground.__call__:repeated', f'LocalBackground call {k} {what}', desc)
        cases.append(f'CAper true true {coq(obs)}')
        meta.append(('aper', desc, bool(bad)))


def replay_aper(r):
    ops = [tuple(o) for o in r['ops']]
    obs, bad = ap_run(r['class'], r['init'], ops)
    for (k, nm, what) in bad:
        print(f'step {k}: {r["class"]}.{nm} {what}')
    return bad


# --------------------------------------------------------------------------
# (d) PSFPhotometry / IterativePSFPhotometry
# --------------------------------------------------------------------------
PSF_SCENES = {
    0: [(8.0, 8.0, 500.0), (12.0, 9.0, 400.0), (22.0, 20.0, 600.0)],
    1: [(10.0, 20.0, 300.0), (20.0, 10.0, 700.0)],
    2: [(7.0, 22.0, 450.0), (10.5, 23.0, 350.0), (14.0, 22.5, 550.0), (23.0, 7.0, 500.0)],
    -1: [],
}
_IMG = {}


def psf_image(d):
    if d not in _IMG:
        from photutils.psf import CircularGaussianPRF
        yy, xx = np.mgrid[0:31, 0:31]
        img = np.zeros((31, 31))
        m = CircularGaussianPRF(fwhm=3.0)
        for (x, y, f) in PSF_SCENES[d]:
            img += m.evaluate(xx, yy, f, x, y, 3.0)
        img += np.random.default_rng(100 + d).integers(-2, 3, img.shape) * 0.01 + 0.25
        _IMG[d] = img
    return _IMG[d].copy()


def psf_table(d, ini, tab, jit=0, reuse_tab=None):
    """ini 0: None; 1: table; 2: table with a group_id column; 3: one source off the image.  tab selects the extra
    columns, jit shifts the initial positions by jit/8 pixel.  reuse_tab: a table object built earlier for the
    same (d, ini, tab) that is EDITED IN PLACE to the requested contents instead of building a new one."""
    from astropy.table import Table
    if ini == 0:
        return None
    src = PSF_SCENES[d]
    xs = [s[0] + 0.25 + 0.125 * jit for s in src]
    ys = [s[1] - 0.25 for s in src]
    if ini == 3:      # one source far outside the image: the call raises ValueError half-way
        xs[0] = 200.0
    if reuse_tab is not None:
        reuse_tab['x'][:] = xs
        reuse_tab['y'][:] = ys
        return reuse_tab
    t = Table()
    t['x'] = xs
    t['y'] = ys
    if tab & 1:
        t['flux'] = [s[2] * 0.9 for s in src]
    if tab & 2:
        t['local_bkg'] = [0.25] * len(src)
    if tab & 8:       # initial values for an extra (free) model parameter
        t['fwhm'] = [3.5, 3.25, 3.75, 2.75][:len(src)]
    if ini == 2:
        t['group_id'] = [1] * len(src) if tab & 4 else list(range(len(src), 0, -1))
    return t


def psf_norm(op):
    """a call: (image, init kind, columns, error kind, mask kind, re-use buffers, position jitter)
    error kind 0 none / 1 constant / 2 a ZERO inside the fit box of the last source / 3 a NaN inside the fit box of
    the first source (both make the fit loop raise part-way);  mask kind 0 none / 1 a harmless corner / 2 the whole
    fit box of the second source (raises inside the loop when init_params are given)."""
    op = tuple(op)
    return op + (0,) * (7 - len(op))


def psf_error(d, ek):
    if ek == 0:
        return None
    err = np.full((31, 31), 0.125)
    src = PSF_SCENES[d]
    if ek == 2 and src:
        err[int(round(src[-1][1])), int(round(src[-1][0]))] = 0.0
    if ek == 3 and src:
        err[int(round(src[0][1])) + 1, int(round(src[0][0]))] = np.nan
    return err


def psf_mask(d, mk):
    if mk == 0:
        return None
    m = np.zeros((31, 31), bool)
    m[0:2, 0:2] = True
    src = PSF_SCENES[d]
    if mk == 2 and len(src) > 1:
        x, y = int(round(src[1][0])), int(round(src[1][1]))
        m[max(y - 4, 0):y + 5, max(x - 4, 0):x + 5] = True
    return m


def psf_may_raise(op):
    op = psf_norm(op)
    return op[1] == 3 or op[3] >= 2 or op[4] == 2


def psf_make(cfg, shared=None):
    """shared: helper instances (finder, grouper, localbkg, fitter) to use instead of new ones"""
    from photutils.background import LocalBackground
    from photutils.detection import DAOStarFinder
    from photutils.psf import CircularGaussianPRF, IterativePSFPhotometry, PSFPhotometry, SourceGrouper
    if cfg.get('freefwhm'):           # a free parameter beyond x, y, flux
        psf = CircularGaussianPRF(fwhm=2.5)
        psf.fwhm.fixed = False
    else:
        psf = CircularGaussianPRF(fwhm=3.0)
    sh = shared or {}
    finder = sh.get('finder', DAOStarFinder(5.0, 3.0)) if cfg['finder'] else None
    grouper = sh.get('grouper', SourceGrouper(6.0)) if cfg['grouper'] else None
    lb = sh.get('localbkg', LocalBackground(5.0, 8.0)) if cfg['localbkg'] else None
    kw = dict(grouper=grouper, localbkg_estimator=lb, aperture_radius=4.0, xy_bounds=cfg.get('xyb'))
    if 'fitter' in sh:
        kw['fitter'] = sh['fitter']
    if cfg['iterative']:
        obj = IterativePSFPhotometry(psf, (5, 5), finder, mode=cfg['mode'], maxiters=cfg.get('maxiters', 2), **kw)
    else:
        obj = PSFPhotometry(psf, (5, 5), finder=finder, **kw)
    obj._c09_model0 = np.array(psf.parameters)      # the constructor's model, as given
    return obj


def psf_call(obj, d, ini, tab, ek=0, mk=0, reuse=0, jit=0, bufs=None):
    """bufs (with reuse): the data / error / mask arrays and the init_params tables handed over by earlier calls
    are refilled IN PLACE and passed again (same objects, new contents)"""
    data, err, mask = psf_image(d), psf_error(d, ek), psf_mask(d, mk)
    rt = None
    if reuse and bufs is not None:
        for name, arr in (('data', data), ('err', err), ('mask', mask)):
            if arr is not None:
                if name in bufs:
                    bufs[name][...] = arr
                else:
                    bufs[name] = arr
        data = bufs['data']
        err = None if err is None else bufs['err']
        mask = None if mask is None else bufs['mask']
        rt = bufs.get(('tab', d, ini, tab))
    try:
        with Quiet():
            t = psf_table(d, ini, tab, jit, rt)
            if reuse and bufs is not None and t is not None:
                bufs[('tab', d, ini, tab)] = t
            res = obj(data, mask=mask, error=err, init_params=t)
        return 0, res
    except Exception as e:  # noqa
        return exc_code(e), None


def psf_extra(obj):
    """other public per-call results that must equal a fresh object's"""
    p = getattr(obj, '_psfphot', obj)
    fi = p.fit_info
    return {'fit_error_indices': None if 'fit_error_indices' not in fi else np.asarray(fi['fit_error_indices']),
            'finder_results': p.finder_results, 'init_params': p.init_params,
            'n_fit_results': len(obj.fit_results) if hasattr(obj, '_psfphot') else -1,
            'inner_groupers': [fr.grouper is None for fr in obj.fit_results] if hasattr(obj, '_psfphot') else []}


PSF_SHAPES = [None, (5, 5), (7, 7)]


def is_img(op):
    return isinstance(op[0], str)


PSF_ATTRS = {}


def psf_alphabet(cfg):
    """every public non-callable attribute of the object (results, fit_info, init_params, configuration ...;
    the deprecated fit_results alias included)"""
    key = 'iter' if cfg['iterative'] else 'psf'
    if key not in PSF_ATTRS:
        with Quiet():
            PSF_ATTRS[key] = public_reads(psf_make(cfg))
    return PSF_ATTRS[key]


def psf_read(obj, op, last_d):
    """READ operations of the history alphabet: ('img', 'model' | 'residual', psf_shape index, include_localbkg)
    and ('img', 'attr', name, 0): a public attribute"""
    _, kind, si, incl = op
    if kind == 'attr':
        try:
            with Quiet():
                return 0, getattr(obj, si)
        except Exception as e:  # noqa
            return exc_code(e), None
    try:
        with Quiet():
            if kind == 'model':
                return 0, obj.make_model_image((31, 31), psf_shape=PSF_SHAPES[si], include_localbkg=bool(incl))
            return 0, obj.make_residual_image(psf_image(last_d), psf_shape=PSF_SHAPES[si], include_localbkg=bool(incl))
    except Exception as e:  # noqa
        return exc_code(e), None


def psf_run(cfg, hist, cache):
    """hist: calls (image, init kind, columns) and reads ('img', ...); every call is compared with the same call on
    a fresh object, every read with the same read on a fresh object brought through the same CALLS only."""
    with Quiet():
        obj = psf_make(cfg)
    obs, bad = [], []
    calls = []
    bufs = {}
    for k, op in enumerate(hist):
        op = tuple(op)
        if is_img(op):
            last_d = calls[-1][0] if calls else 0
            exc, v = psf_read(obj, op, last_d)
            key = (tuple(calls), op)
            if key not in cache:
                with Quiet():
                    f = psf_make(cfg)
                for c in calls:
                    psf_call(f, c[0], c[1], c[2], c[3], c[4], 0, c[6])
                cache[key] = psf_read(f, op, last_d)
            fexc, fv = cache[key]
            name = (f'attribute {op[2]}' if op[1] == 'attr' else
                    f'make_{op[1]}_image(psf_shape={PSF_SHAPES[op[2]]}, include_localbkg={bool(op[3])})')
            if exc != fexc:
                bad.append((k, f'READ: {name} raises (code {exc}) where a fresh object after the same calls gives '
                               f'code {fexc}'))
            elif exc == 0 and not same(v, fv):
                bad.append((k, f'READ: {name} differs from a fresh object\'s after the same calls (without the '
                               f'earlier reads)'))
            continue
        op = psf_norm(op)
        d, ini, tab, ek, mk, reuse, jit = op
        calls.append(op)
        exc, res = psf_call(obj, d, ini, tab, ek, mk, reuse, jit, bufs)
        extra = psf_extra(obj) if exc == 0 else None
        key = (d, ini, tab, ek, mk, jit)
        if key not in cache:            # a fresh object, called once, on copies of the current contents
            with Quiet():
                f = psf_make(cfg)
            fe, fr = psf_call(f, d, ini, tab, ek, mk, 0, jit)
            cache[key] = (fe, fr, psf_extra(f) if fe == 0 else None)
        fexc, fres, fextra = cache[key]
        eqf = exc == 0 and fexc == 0 and same(res, fres)
        if exc != fexc:
            bad.append((k, f'raises (code {exc}) where a fresh object gives code {fexc}'))
        elif exc == 0 and not eqf:
            bad.append((k, 'result table differs from a fresh object\'s'))
        elif exc == 0 and not same(extra, fextra):
            bad.append((k, 'fit_info / finder_results / init_params differ from a fresh object\'s'))
        p = getattr(obj, '_psfphot', obj)
        if (p.grouper is None) != (not cfg['grouper']):
            bad.append((k, 'GROUPER: the grouper given to the constructor was replaced by None'))
        if not same(np.array(p.psf_model.parameters), obj._c09_model0):
            bad.append((k, f'MODEL: the parameters of the psf_model given to the constructor were overwritten: '
                           f'{obj._c09_model0.tolist()} -> {np.array(p.psf_model.parameters).tolist()}'))
        if not psf_may_raise(op):       # the Coq machine has no branch for calls failing inside the fit loop; its
            # prediction for the other calls does not depend on them (every call starts with a reset)
            obs.append((d, ini, tab * 2 + jit, (exc, res is None, eqf),
                        (p.grouper is None, p.results is None, p.finder_results is None)))
    return obs, bad


def section_psf(ctx, cases, meta):
    rng = ctx.rng
    nh = 4 if ctx.tier == 'quick' else 12
    cfgs = []
    for finder, grouper, localbkg in itertools.product([True, False], [True, False], [True, False]):
        # models with / without a free shape parameter, with / without position bounds
        cfgs.append(dict(finder=finder, grouper=grouper, localbkg=localbkg, iterative=False, mode=None,
                         freefwhm=rng.random() < 0.5, xyb=rng.choice([None, None, 2.0])))
    cfgs.append(dict(finder=False, grouper=False, localbkg=False, iterative=False, mode=None, freefwhm=True, xyb=None))
    cfgs.append(dict(finder=True, grouper=True, localbkg=False, iterative=False, mode=None, freefwhm=True, xyb=None))
    for grouper, mode, maxit in [(True, 'new', 1), (True, 'all', 3), (False, 'new', 2), (True, 'new', 3),
                                 (True, 'all', 1)]:
        cfgs.append(dict(finder=True, grouper=grouper, localbkg=rng.random() < 0.6, iterative=True, mode=mode,
                         maxiters=maxit, freefwhm=rng.random() < 0.5, xyb=None))
    for cfg in cfgs:
        cache = {}
        hists = [[(0, 2, 0), (0, 1, 0), (0, 0, 0)] if cfg['finder'] else [(0, 2, 0), (0, 1, 0), (0, 1, 1)]]
        hists.append([(0, 1, 8), (0, 1, 0), (1, 1, 9), (1, 1, 1)])      # column sets differing from call to call
        # calls raising at different depths (validation, inside the fit loop), then normal calls and reads
        i0 = 0 if cfg['finder'] else 1
        hists.append([(0, 1, 1, 2), (0, 1, 1, 1), ('img', 'attr', 'results', 0), (0, i0, 0, 3), (0, i0, 0, 0),
                      (2, 1, 3, 0, 2), (2, 1, 3, 0, 1), (1, 3, 0)])
        # one data / error / mask buffer and one init_params table re-used, contents replaced in place
        hists.append([(0, 1, 1, 1, 1, 1, 0), (1, 1, 1, 1, 1, 1, 0), (1, 1, 1, 1, 1, 1, 1), (0, i0, 0, 0, 0, 1, 0),
                      (2, i0, 0, 0, 0, 1, 0), (0, 1, 1, 2, 0, 1, 0), (0, 1, 1, 1, 0, 1, 1)])

        attrs = psf_alphabet(cfg)

        def img_read():
            if rng.random() < 0.35:
                return ('img', 'attr', rng.choice(attrs), 0)
            return ('img', rng.choice(['model', 'model', 'residual']), rng.randrange(3), rng.random() < 0.5)
        # make_model_image / make_residual_image as READS: with and without the local background, both orders,
        # after calls with non-zero local backgrounds
        first = (0, 0, 0) if cfg['finder'] else (0, 1, 2)
        hists.append([first, ('img', 'model', 1, True), ('img', 'model', 1, False), ('img', 'residual', 1, False),
                      ('img', 'residual', 1, True), (1, 1, 2), ('img', 'model', 2, False), ('img', 'model', 2, True)])
        for _ in range(1 if ctx.tier == 'quick' else 6):
            h = [img_read()] if rng.random() < 0.2 else []
            for _ in range(rng.randint(1, 2)):
                ini = rng.choice([0, 1, 2]) if cfg['finder'] else rng.choice([1, 2])
                h.append((rng.choice([0, 1, 2]), ini, rng.randrange(16) if ini else 0))
                h += [img_read() for _ in range(rng.randint(1, 3))]
            hists.append(h[:8])
        for _ in range(nh):
            h = []
            for _ in range(rng.randint(2, 5 if ctx.tier == 'quick' else 8)):
                ini = rng.choice([0, 1, 2]) if (cfg['finder'] or rng.random() < 0.15) else rng.choice([1, 2])
                if rng.random() < 0.08:
                    ini = 3
                d = rng.choice([0, 1, 2, -1]) if ini == 0 else rng.choice([0, 1, 2])
                ek = rng.choice([0, 0, 1, 1, 2, 3]) if rng.random() < 0.5 else 0
                mk = rng.choice([0, 1, 1, 2]) if rng.random() < 0.35 else 0
                h.append((d, ini, rng.randrange(16) if ini else 0, ek, mk, 0, 0))
            if rng.random() < 0.4:          # this history re-uses its buffers (and edits its tables in place)
                h = [c[:5] + (1, rng.randrange(2)) for c in h]
            hists.append(h)
        for h in hists:
            obs, bad = psf_run(cfg, h, cache)
            desc = {'machine': 'IterativePSFPhotometry' if cfg['iterative'] else 'PSFPhotometry', 'config': cfg,
                    'calls': [list(c) for c in h]}
            ctx.count_case(desc, len(h) > 1)
            ctx.stat('psf', f"{'iter' if cfg['iterative'] else 'psf'},finder={cfg['finder']},grouper={cfg['grouper']},"
                            f"free_fwhm={cfg['freefwhm']},xy_bounds={cfg['xyb']}")
            for (k, what) in bad:
                sig = (f"{desc['machine']}.make_model_image:depends-on-earlier-reads" if what.startswith('READ')
                       else f"{desc['machine']}.grouper:replaced-by-None" if what.startswith('GROUPER')
                       else f"{desc['machine']}.psf_model:parameters-overwritten" if what.startswith('MODEL')
                       else f"{desc['machine']}.__call__:after-earlier-call")
                report(ctx, sig,
                              f"{desc['machine']} call {k} {what}; calls (image, init_params kind, columns) = {h[:k + 1]}",
                              dict(desc, step=k, cmd='bin/check C09 --replay <this file>'))
            if any((not is_img(c)) and psf_may_raise(c) for c in h):
                ctx.stat('psf', 'histories with calls raising half-way / inside the fit loop')
            if any((not is_img(c)) and psf_norm(c)[5] for c in h):
                ctx.stat('psf', 'histories re-using data / error / mask / init_params objects refilled in place')
            if any(is_img(c) for c in h):
                ctx.stat('psf', 'histories with make_model_image / make_residual_image reads')
            if not cfg['iterative'] and obs:
                cases.append(f"CPsf {coq(cfg['finder'])} {coq(cfg['grouper'])} {coq(obs)}")
                meta.append(('psf', desc, bool(bad)))
    ctx.sample({'machine': 'PSFPhotometry', 'config': cfgs[0], 'calls': [[0, 2, 0], [0, 1, 0], [0, 0, 0]]})


def replay_psf(r):
    obs, bad = psf_run(r['config'], [tuple(c) for c in r['calls']], {})
    for (k, what) in bad:
        print(f'call {k}: {what}')
    return bad


# --------------------------------------------------------------------------
# (d) star finders
# --------------------------------------------------------------------------
def finder_make(kind):
    from photutils.detection import DAOStarFinder, IRAFStarFinder, StarFinder
    if kind == 'DAOStarFinder':
        return DAOStarFinder(5.0, 3.0, brightest=3)
    if kind == 'IRAFStarFinder':
        return IRAFStarFinder(5.0, 3.0)
    yy, xx = np.mgrid[-3:4, -3:4]
    kernel = 7.0 * np.exp(-(xx ** 2 + yy ** 2) / 3.0)      # max != 1: a normalised copy is used by each call
    obj = StarFinder(5.0, kernel, min_separation=2.0)
    obj._c09_kernel0 = kernel.copy()
    return obj


def finder_args(call):
    """a call: (image, mask kind, bad): mask kind 0 none / 1 the upper half masked / 2 a mask of the wrong shape
    (raises after the convolution); bad 1 = a 1-D 'image' (raises inside the convolution)"""
    d, mk, badarg = call
    data = np.ones(31) if badarg else psf_image(d)
    mask = None
    if mk == 1:
        mask = np.zeros((31, 31), bool)
        mask[16:, :] = True
    elif mk == 2:
        mask = np.zeros((5, 5), bool)
    return data, mask


def finder_call(obj, data, mask, use_call):
    try:
        with Quiet():
            return 0, (obj(data, mask=mask) if use_call else obj.find_stars(data, mask=mask))
    except Exception as e:  # noqa
        return exc_code(e), None


def finder_run(kind, h, reuse, use_call, fresh):
    """h: calls; reuse: ONE image buffer and ONE mask buffer are handed over by every call, their contents replaced
    in place between the calls.  Every call is compared with a fresh finder on copies of the current contents."""
    with Quiet():
        obj = finder_make(kind)
    bad = []
    bufs = {}
    for k, call in enumerate(h):
        call = tuple(call)
        data, mask = finder_args(call)
        if reuse:
            for name, arr in (('data', data), ('mask', mask)):
                if arr is not None and name in bufs and bufs[name].shape == arr.shape:
                    bufs[name][...] = arr
                elif arr is not None:
                    bufs[name] = arr
            data = bufs['data']
            mask = None if mask is None else bufs['mask']
        exc, res = finder_call(obj, data, mask, use_call[k])
        if kind == 'StarFinder' and not same(np.array(obj.kernel), obj._c09_kernel0):
            bad.append((k, 'KERNEL', 'StarFinder.kernel differs from the kernel given to the constructor'))
        if call not in fresh:
            fd, fm = finder_args(call)
            fresh[call] = finder_call(finder_make(kind), fd, fm, False)
        fexc, fres = fresh[call]
        if exc != fexc:
            bad.append((k, 'CALL', f'raises (code {exc}) where a fresh finder gives code {fexc}'))
        elif exc == 0 and not same(res, fres):
            bad.append((k, 'CALL', 'differs from a fresh finder on a copy of the same contents'))
    return bad


def section_finders(ctx):
    rng = ctx.rng
    n = 8 if ctx.tier == 'quick' else 20
    for kind in ['DAOStarFinder', 'IRAFStarFinder', 'StarFinder']:
        fresh = {}
        plans = [([(0, 0, 0), (1, 0, 0), (1, 1, 0), (0, 1, 0), (2, 0, 0), (-1, 0, 0), (0, 0, 0)], True),
                 ([(0, 0, 0), (0, 2, 0), (0, 0, 0), (1, 0, 1), (1, 0, 0), (-1, 0, 0), (2, 1, 0)], False)]
        for _ in range(n):
            h = []
            for _ in range(rng.randint(2, 7)):
                r = rng.random()
                h.append((rng.choice([0, 1, 2, -1]), 2 if r < 0.08 else rng.choice([0, 0, 1]), 1 if 0.08 <= r < 0.15 else 0))
            plans.append((h, rng.random() < 0.5))
        for h, reuse in plans:
            use_call = [rng.random() < 0.5 for _ in h]
            bad = finder_run(kind, h, reuse, use_call, fresh)
            desc = {'machine': kind, 'calls': [list(c) for c in h], 'reuse_buffers': reuse, 'use_call': use_call}
            ctx.count_case(desc, len(set(h)) > 1)
            ctx.stat('finders', f"{kind},{'one buffer refilled in place' if reuse else 'new arrays'}")
            if kind == 'StarFinder':
                ctx.support('StarFinder.kernel unchanged by a call (bitwise)', len(h))
            for (k, what, text) in bad:
                sig = 'StarFinder.kernel:modified-by-call' if what == 'KERNEL' else f'{kind}.find_stars:repeated-call'
                report(ctx, sig, f'{kind} call {k} {text}; calls (image, mask kind, bad argument) = {h[:k + 1]}'
                                 + ('; the image / mask buffers are re-used, refilled in place' if reuse else ''),
                       dict(desc, step=k, cmd='bin/check C09 --replay <this file>'))


def replay_finder(r):
    calls = r.get('calls') or [[d, 0, 0] for d in r['images']]
    bad = finder_run(r['machine'], calls, r.get('reuse_buffers', False), r.get('use_call', [False] * len(calls)), {})
    for (k, what, text) in bad:
        print(f'call {k}: {text}')
    return bad


# --------------------------------------------------------------------------
# (d) Ellipse.fit_image
# --------------------------------------------------------------------------
_GAL = {}


def galaxy():
    if 'g' not in _GAL:
        yy, xx = np.mgrid[0:64, 0:64]
        _GAL['g'] = np.round(1000 * np.exp(-np.sqrt((xx - 32.0) ** 2 + ((yy - 31.0) / 0.7) ** 2) / 6.0))
    return _GAL['g']


GEO_FIELDS = ['sma', 'x0', 'y0', 'eps', 'pa', 'astep']
ELL_SMA0 = [None, 6.0, 10.0]
ISO_SMA = [7.0, 11.0]
ISO_KEYS = ('sma', 'intens', 'eps', 'pa', 'x0', 'y0', 'stop_code', 'niter', 'valid')


def ell_make(g0, persisted=None, version=0):
    """persisted: (linear_growth, fix) left on the geometry by earlier calls (the known finding), applied to a
    fresh object to decide whether a difference is explained by it"""
    from photutils.isophote import Ellipse, EllipseGeometry
    geo = EllipseGeometry(32.0, 31.0, 8.0, 0.25, 0.1, linear_growth=g0['lin'])
    if any(g0['fix']):
        geo.fix = np.array(g0['fix'])
    if persisted is not None:
        geo.linear_growth = persisted[0]
        geo.fix = np.array(persisted[1])
    img = ell_image(version)          # a private buffer: Ellipse keeps a reference to it
    e = Ellipse(img, geo)
    e._c09_img = img
    return e, geo


def ell_image(version):
    g = galaxy()
    return [g.copy(), g * 2.0, g + 50.0][version]


def geo_snapshot(geo):
    return {f: float(getattr(geo, f)) for f in GEO_FIELDS}


def ell_norm(a):
    """calls: ('image', linear 0/1/2, fix_center, fix_pa, fix_eps, sma0 index), ('iso', sma index),
    ('image_bad',): fit_image with an unknown integrmode (raises part-way), and ('refill', version): the image array
    given to the constructor gets new contents IN PLACE (expected afterwards: a fresh Ellipse on a copy of them)"""
    a = tuple(a)
    if a[0] in ('iso', 'refill', 'image_bad'):
        return a
    if a[0] != 'image':                    # old replays: (linear, fc, fp, fe)
        a = ('image',) + a
    return a + (0,) * (6 - len(a))


def iso_key(iso):
    return {k: np.asarray(getattr(iso, k), float) for k in ISO_KEYS}


def ell_call(e, a):
    """returns (comparable result, the live result object)"""
    with Quiet():
        if a[0] == 'iso':
            iso = e.fit_isophote(ISO_SMA[a[1]])
            return iso_key(iso), iso
        if a[0] == 'image_bad':
            il = e.fit_image(maxsma=14.0, minsma=5.0, step=0.35, integrmode='no-such-mode')
            return il.to_table(), il
        _, lin, fc, fp, fe, si = a
        il = e.fit_image(sma0=ELL_SMA0[si], maxsma=14.0, minsma=5.0, step=0.35 if lin != 2 else 2.0,
                         linear={0: None, 1: False, 2: True}[lin], fix_center=bool(fc), fix_pa=bool(fp),
                         fix_eps=bool(fe))
        return il.to_table(), il


def live_key(live):
    from photutils.isophote import IsophoteList
    with Quiet():
        return live.to_table() if isinstance(live, IsophoteList) else iso_key(live)


def ell_run(g0, calls, cache):
    """returns (Coq observations of the fit_image calls, bad) with bad = (call, kind, text);
    kind 'known' = explained by geometry.fix / linear_growth persisting after a call with those options
    (the recorded known finding), anything else is new"""
    e, geo = ell_make(g0)
    geo0 = geo_snapshot(geo)
    lin0, fix0 = bool(g0['lin']), [bool(x) for x in g0['fix']]
    obs, bad, earlier = [], [], []
    version = 0
    for k, a in enumerate(calls):
        a = ell_norm(a)
        if a[0] == 'refill':
            version = a[1]
            e._c09_img[...] = ell_image(version)
            continue
        before = (bool(geo.linear_growth), [bool(x) for x in geo.fix])
        exc, t, live = 0, None, None
        try:
            t, live = ell_call(e, a)
        except Exception as ex:  # noqa
            exc = exc_code(ex)
        ck = (a, version)
        if ck not in cache:
            try:
                cache[ck] = (0, ell_call(ell_make(g0, None, version)[0], a)[0])
            except Exception as ex:  # noqa
                cache[ck] = (exc_code(ex), None)
        fexc, ft = cache[ck]
        if exc and exc == fexc:          # a call that raises for a fresh object too: nothing to compare, but
            continue                     # every later call must still equal a fresh object's
        cache[a] = ft
        eqf = exc == 0 and same(t, cache[a])
        name = 'fit_isophote' if a[0] == 'iso' else 'fit_image'
        if exc:
            bad.append((k, 'new:depends-on-earlier-calls', f'{name} raises (code {exc})'))
        elif not eqf:
            explained = False
            if before != (lin0, fix0):
                key = ('persisted', before[0], tuple(before[1]), a, version)
                if key not in cache:
                    cache[key] = ell_call(ell_make(g0, before, version)[0], a)[0]
                explained = same(t, cache[key])
            if explained:
                bad.append((k, 'known', f'{name} result differs from a fresh Ellipse object\'s (explained by the '
                                        f'persisted linear_growth={before[0]}, fix={before[1]})'))
            else:
                bad.append((k, 'new:depends-on-earlier-calls',
                            f'{name} result differs from a fresh Ellipse object\'s and is NOT explained by persisted '
                            f'fix / linear_growth options'))
        after = (bool(geo.linear_growth), [bool(x) for x in geo.fix])
        if after != (lin0, fix0) and not any(b[0] == k for b in bad):
            bad.append((k, 'known', f'{name} leaves the caller\'s EllipseGeometry overwritten (linear_growth / fix), '
                                    'which later calls then use'))
        snap = geo_snapshot(geo)
        for f in GEO_FIELDS:
            if snap[f] != geo0[f]:
                bad.append((k, f'new:geometry-modified:{f}',
                            f'{name} changed the caller\'s EllipseGeometry.{f} from {geo0[f]} to {snap[f]}'))
        for (k0, key0, live0) in earlier:
            if not same(live_key(live0), key0):
                bad.append((k, 'new:earlier-result-modified',
                            f'the result returned by call {k0} changed after call {k}'))
        if live is not None:
            earlier.append((k, t, live))
        if a[0] == 'image':
            obs.append((k, a[1], bool(a[2]), bool(a[3]), bool(a[4]),
                        (eqf, bool(geo.linear_growth), [bool(x) for x in geo.fix])))
    return obs, bad


def section_ellipse(ctx, cases, meta):
    rng = ctx.rng
    g0s = [dict(lin=False, fix=[False] * 4), dict(lin=True, fix=[False] * 4),
           dict(lin=False, fix=[False, False, True, False])]
    nh = 3 if ctx.tier == 'quick' else 8
    # the Coq machine is the code as found (legacy) as long as the persistence is a recorded known
    # finding (fix C09-4 not applied), and the repaired one otherwise
    legacy = any(kf.get('property') == PID and kf.get('signature') == 'Ellipse.fit_image:geometry-persists'
                 for kf in ctx.known.get('findings', []))
    ctx.stat('ellipse', 'compared with the ' + ('code-as-found (legacy) machine' if legacy else 'repaired machine'))
    for g0 in g0s:
        cache = {}
        hists = [[('image', 0, True, False, False, 0), ('image', 0, False, False, False, 0)],
                 # different starting semimajor axes, default afterwards; single isophotes in between
                 [('image', 0, False, False, False, 2), ('image', 0, False, False, False, 0), ('iso', 1),
                  ('image', 0, False, False, False, 0), ('iso', 0), ('iso', 1)],
                 # a call raising part-way, and the constructor's image array refilled in place between calls
                 [('image', 0, False, False, False, 0), ('image_bad',), ('image', 0, False, False, False, 0),
                  ('refill', 1), ('image', 0, False, False, False, 0), ('iso', 0), ('refill', 2), ('iso', 0)]]
        for _ in range(nh):
            h = []
            for _ in range(rng.randint(2, 4 if ctx.tier == 'quick' else 8)):
                r = rng.random()
                if r < 0.25:
                    h.append(('iso', rng.randrange(2)))
                    continue
                if r < 0.33:
                    h.append(('image_bad',) if r < 0.29 else ('refill', rng.randrange(3)))
                    continue
                fc, fp, fe = rng.choice([(False, False, False), (False, False, False), (True, False, False),
                                         (False, True, False), (False, False, True), (True, True, False),
                                         (True, True, True)])
                h.append(('image', rng.choice([0, 0, 1, 2]), fc, fp, fe, rng.choice([0, 0, 1, 2])))
            hists.append(h)
        for h in hists:
            obs, bad = ell_run(g0, h, cache)
            desc = {'machine': 'Ellipse.fit_image', 'geometry': g0, 'calls': [list(c) for c in h]}
            ctx.count_case(desc, len(h) > 1)
            ctx.stat('ellipse', f"lin0={g0['lin']},fix0={any(g0['fix'])}")
            for (k, kind, what) in sorted(bad, key=lambda b: (0 if 'result differs' in b[2] else 1, b[0])):
                sig = ('Ellipse.fit_image:geometry-persists' if kind == 'known' else 'Ellipse.fit_image:' + kind[4:])
                report(ctx, sig, f'Ellipse call {k}: {what}; calls (fit_image: linear, fix_center, fix_pa, fix_eps, '
                                 f'sma0 index / fit_isophote: sma index) = {h[:k + 1]}',
                       dict(desc, step=k, cmd='bin/check C09 --replay <this file>'))
            if obs:
                cases.append(f"CEll {coq(legacy)} {coq(g0['lin'])} {coq([bool(x) for x in g0['fix']])} {coq(obs)}")
                meta.append(('ell', desc, bool(bad) and not legacy))


def replay_ell(r):
    obs, bad = ell_run(r['geometry'], [tuple(c) for c in r['calls']], {})
    for (k, kind, what) in bad:
        print(f'call {k} [{kind}]: {what}')
    return bad


# --------------------------------------------------------------------------
# (d) GriddedPSFModel
# --------------------------------------------------------------------------
def grid_make(cfg):
    from astropy.nddata import NDData
    from photutils.psf import GriddedPSFModel
    r = np.random.default_rng(cfg['seed'])
    xs, ys = cfg['xg'], cfg['yg']
    pos = [(x, y) for y in ys for x in xs]
    order = list(range(len(pos)))
    np.random.default_rng(cfg['seed'] + 1).shuffle(order)
    pos = [pos[i] for i in order]
    data = r.integers(0, 100, (len(pos), 9, 9)).astype(float)
    return GriddedPSFModel(NDData(data, meta={'grid_xypos': pos, 'oversampling': cfg['os']}))


def grid_eval(m, xy, bufs=None):
    """bufs: the coordinate arrays handed over by the previous evaluation, refilled in place"""
    yy, xx = np.mgrid[0:7, 0:7]
    x0, y0 = xy[0], xy[1]
    x, y = xx + round(x0) - 3.0, yy + round(y0) - 3.0
    if bufs is not None:
        if 'x' in bufs:
            bufs['x'][...] = x
            bufs['y'][...] = y
        else:
            bufs['x'], bufs['y'] = x, y
        x, y = bufs['x'], bufs['y']
    if len(xy) > 2:          # an evaluation that raises: 3-D coordinate arrays
        x, y = x[None, :, :] * np.ones((2, 1, 1)), y[None, :, :] * np.ones((2, 1, 1))
    with Quiet():
        return m.evaluate(x, y, 2.0, x0, y0)


GSCALE = 8        # grid positions are multiples of 1/4, evaluation positions multiples of 1/8


def grid_run(cfg, h, users_pick):
    """evaluate at the positions h on one model (and its copy()); returns (Coq observations, bad)"""
    m = grid_make(cfg)
    users = [m, m.copy()]            # copy() shares the _interpolator dictionary with the original
    obs, bad = [], []
    bufs = {}
    for k, xy in enumerate(h):
        exc, v = 0, None
        try:
            v = grid_eval(users[users_pick[k]], xy, bufs)
        except Exception as e:  # noqa
            exc = exc_code(e)
        if len(xy) > 2:          # raises for a fresh model too; must leave no trace
            if exc != 2:
                bad.append((k, f'gives code {exc} instead of raising ValueError for 3-D coordinates'))
            continue
        fv = grid_eval(grid_make(cfg), xy)
        eqf = exc == 0 and same(v, fv)
        if exc or not eqf:
            bad.append((k, 'raises' if exc else 'differs from a fresh model'))
        obs.append((int(round(GSCALE * xy[0])), int(round(GSCALE * xy[1])), eqf,
                    [(int(round(GSCALE * kx)), int(round(GSCALE * ky))) for (kx, ky) in m._interpolator.keys()]))
    return obs, bad


def grid_axis(rng, kind, n):
    if kind == 'integer':
        return sorted(rng.sample(range(0, 40, 4), n))
    if kind == 'subunit':            # reference positions less than one unit apart, negative and fractional
        return sorted(v / 4.0 for v in rng.sample(range(-4, 9), n))
    pool = [-3.5, -0.75, -0.25, 0.0, 0.25, 0.5, 0.75, 1.0, 1.5, 4.25, 10.0, 10.5, 23.75]   # non-uniform spacings
    return sorted(rng.sample(pool, n))


def section_grid(ctx, cases, meta):
    rng = ctx.rng
    n = 36 if ctx.tier == 'quick' else 120
    for it in range(n):
        nx, ny = rng.choice([(2, 2), (3, 2), (2, 3), (3, 3)])
        kind = ['integer', 'subunit', 'mixed'][it % 3]
        xg, yg = grid_axis(rng, kind, nx), grid_axis(rng, rng.choice([kind, 'integer']), ny)
        cfg = dict(seed=rng.randrange(1000), xg=xg, yg=yg, os=rng.choice([1, 2]))

        def point():
            def coord(g):
                lo, hi = g[0] - 1.0, g[-1] + 1.0
                if rng.random() < 0.2:
                    return float(rng.choice(g))                       # on a grid line: zero weights
                return rng.randint(int(lo * 8), int(hi * 8)) / 8.0
            return (coord(xg), coord(yg))
        pts = [point() for _ in range(rng.randint(1, 4))]
        if rng.random() < 0.6:
            h = (pts + pts[::-1])[:8]          # the same cells visited in both orders
        else:
            h = [rng.choice(pts) if rng.random() < 0.3 else point() for _ in range(rng.randint(1, 8))]
        if len(h) > 1 and rng.random() < 0.3:
            i = rng.randrange(len(h))
            h = h[:i] + [h[i] + ('bad',)] + h[i:]
            h = h[:8]
        pick = [0 if rng.random() < 0.7 else 1 for _ in h]
        obs, bad = grid_run(cfg, h, pick)
        desc = {'machine': 'GriddedPSFModel', 'config': cfg, 'xy': h, 'evaluated_on_copy': pick}
        for (k, what) in bad:
            report(ctx, 'GriddedPSFModel.evaluate:after-earlier-evaluations',
                   f'GriddedPSFModel.evaluate at {h[k]} {what} after evaluations at {h[:k]} (grid x {xg}, y {yg})',
                   dict(desc, step=k, cmd='bin/check C09 --replay <this file>'))
        ctx.count_case(desc, len(h) > 1)
        ctx.stat('grid', f'{kind},{nx}x{ny}')
        cases.append(f'CGrid {coq([int(round(GSCALE * x)) for x in xg])} {coq([int(round(GSCALE * y)) for y in yg])} '
                     f'{coq(obs)}')
        meta.append(('grid', desc, bool(bad)))


def replay_grid(r):
    obs, bad = grid_run(r['config'], [tuple(p) for p in r['xy']], r['evaluated_on_copy'])
    for (k, what) in bad:
        print(f'evaluation {k} at {r["xy"][k]}: {what}')
    return bad


# --------------------------------------------------------------------------
# cross-object histories: several objects sharing helper instances (default-argument
# singletons or one instance passed to two constructors), used alternately
# --------------------------------------------------------------------------
_PRISTINE = {}


def helper_defaults(cls):
    """constructor parameters whose default is a (shared) helper instance"""
    import inspect
    out = {}
    for n, prm in inspect.signature(cls.__init__).parameters.items():
        d = prm.default
        if d is not inspect.Parameter.empty and not isinstance(d, (int, float, str, bool, tuple, type(None))):
            out[n] = d
    return out


def snapshot_pristine():
    """Deep copies of every default-argument helper, taken BEFORE any object of this run exists:
    the reference ("fresh") objects of the cross-object histories are built from copies of these."""
    import copy
    from photutils.background import Background2D, LocalBackground
    from photutils.psf import IterativePSFPhotometry, PSFPhotometry
    for cls in (Background2D, LocalBackground, PSFPhotometry, IterativePSFPhotometry):
        _PRISTINE[cls.__name__] = copy.deepcopy(helper_defaults(cls))


def private_helpers(clsname):
    import copy
    return copy.deepcopy(_PRISTINE[clsname])


def xbkg_build(base, var, helpers):
    """base: data / box / region; var: which argument carries the blank region, fill value, scale."""
    from photutils.background import Background2D
    r = np.random.default_rng(base['seed'])
    ny, nx = base['shape']
    by, bx = base['box']
    d = r.integers(0, 40, (ny, nx)).astype(float) / 4.0 + np.linspace(0, 5, nx)[None, :]
    region = np.zeros((ny, nx), bool)
    region[:, :bx] = True            # one full column of boxes
    region[ny - by:, :] = True       # and one full row of boxes
    d = d * var['scale']
    if var['nan_region']:
        d[region] = np.nan
    kw = dict(helpers)
    if var['cov']:
        kw['coverage_mask'] = region.copy()
    if var['mask']:
        kw['mask'] = region.copy()
    return Background2D(d, (by, bx), fill_value=var['fill'], **kw)


def xbkg_shared(mode):
    import photutils.background as pb
    if mode.startswith('one-'):
        name, cls = mode[4:].split(':')
        return {name: getattr(pb, cls)()}
    return {}


def xbkg_run(base, variants, mode, ops):
    """objects built with shared helpers, read alternately; returns (per-object Coq observations, bad)"""
    shared = xbkg_shared(mode)
    with Quiet():
        objs = [xbkg_build(base, v, shared) for v in variants]
    ref = {}
    per_obj = [[] for _ in objs]
    bad = []
    for k, (j, r) in enumerate(ops):
        attr = BREADS[r]
        exc, v = 0, None
        try:
            with Quiet():
                v = getattr(objs[j], attr)
        except Exception as e:  # noqa
            exc = exc_code(e)
        if (j, r) not in ref:
            priv = private_helpers('Background2D')
            for name, inst in shared.items():
                priv[name] = type(inst)()
            with Quiet():
                ref[(j, r)] = getattr(xbkg_build(base, variants[j], priv), attr)
        eqf = exc == 0 and same(v, ref[(j, r)])
        if exc or not eqf:
            bad.append((k, j, attr, 'raises' if exc else 'differs from the same object built with private helper '
                                                         'instances'))
        o = objs[j]
        per_obj[j].append((r, exc, eqf, o._bkg_stats is None, o._bkgrms_stats is None,
                           [a in o.__dict__ for a in BLAZY]))
    return per_obj, bad


def section_cross_bkg(ctx, cases, meta):
    rng = ctx.rng
    n = 10 if ctx.tier == 'quick' else 60
    modes = ['defaults', 'one-interpolator:BkgZoomInterpolator', 'one-interpolator:BkgIDWInterpolator',
             'one-bkg_estimator:MedianBackground']
    plans = [(m, True) for m in modes] + [(rng.choice(modes + ['defaults']), False) for _ in range(n)]
    for mode, canonical in plans:
        base = dict(seed=rng.randrange(1000), shape=rng.choice([(30, 35), (24, 30)]), box=rng.choice([(6, 5), (6, 6)]))
        nobj = 2 if canonical else rng.randint(2, 3)
        variants = []
        for j in range(nobj):
            where = rng.choice(['cov', 'mask', 'both', 'none'])
            variants.append(dict(cov=where in ('cov', 'both'), mask=where in ('mask', 'both'),
                                 nan_region=where != 'none' and rng.random() < 0.7,
                                 fill=rng.choice([0.0, -1.0, float('nan')]), scale=rng.choice([1.0, 1.0, 2.0])))
        if canonical or variants[0]['cov'] == variants[1]['cov']:
            # the same low-resolution mesh reached with and without a coverage mask
            c0 = rng.random() < 0.5
            variants[0] = dict(variants[0], cov=c0, mask=not c0, nan_region=True)
            variants[1] = dict(variants[0], cov=not c0, mask=c0)
        if canonical:
            # every map read on one object and immediately on the other, in both orders
            ops = [(0, 4), (1, 4), (1, 5), (0, 5), (1, 4), (0, 4), (0, 5), (1, 5)]
        else:
            focus = rng.choice([4, 5])
            ops = [(rng.randrange(nobj), focus if rng.random() < 0.6 else rng.choice([0, 1, 2, 4, 5, 7]))
                   for _ in range(rng.randint(3, 8))]
        per_obj, bad = xbkg_run(base, variants, mode, ops)
        desc = {'machine': 'Background2D-objects-sharing-helpers', 'base': base, 'variants': variants,
                'helpers': mode, 'ops': [[j, BREADS[r]] for j, r in ops]}
        for (k, j, attr, what) in bad:
            report(ctx, f'Background2D.{attr}:depends-on-other-objects',
                   f'Background2D.{attr} of object {j} {what} after the reads {desc["ops"][:k]} on objects sharing '
                   f'{mode}', dict(desc, step=k, cmd='bin/check C09 --replay <this file>'))
        ctx.count_case(desc, True)
        ctx.stat('cross', f'Background2D,{mode}')
        for obs in per_obj:
            if obs:
                cases.append(f'CBkg false false false {coq(obs)}')
                meta.append(('bkg', desc, bool(bad)))


def replay_cross_bkg(r):
    snapshot_pristine()
    _, bad = xbkg_run(r['base'], r['variants'], r['helpers'], [(j, BREADS.index(a)) for j, a in r['ops']])
    for (k, j, attr, what) in bad:
        print(f'step {k}: Background2D.{attr} of object {j} {what}')
    return bad


def xpsf_run(cfgs, mode, calls):
    from photutils.background import LocalBackground
    from photutils.detection import DAOStarFinder
    from photutils.psf import SourceGrouper
    shared = {}
    if mode != 'default-fitter':
        shared = {'finder': DAOStarFinder(5.0, 3.0), 'grouper': SourceGrouper(6.0),
                  'localbkg': LocalBackground(5.0, 8.0)}
    with Quiet():
        objs = [psf_make(c, shared) for c in cfgs]
    per_obj = [[] for _ in objs]
    bad = []
    for k, (j, d, ini, tab) in enumerate(calls):
        exc, res = psf_call(objs[j], d, ini, tab)
        with Quiet():
            f = psf_make(cfgs[j], {'fitter': private_helpers('PSFPhotometry')['fitter']})
        fexc, fres = psf_call(f, d, ini, tab)
        eqf = exc == 0 and fexc == 0 and same(res, fres)
        if exc != fexc:
            bad.append((k, j, f'raises (code {exc}) where an object with private helper instances gives code {fexc}'))
        elif exc == 0 and not eqf:
            bad.append((k, j, 'differs from an object with private helper instances'))
        p = getattr(objs[j], '_psfphot', objs[j])
        per_obj[j].append((d, ini, tab, (exc, res is None, eqf),
                           (p.grouper is None, p.results is None, p.finder_results is None)))
    return per_obj, bad


def section_cross_psf(ctx, cases, meta):
    rng = ctx.rng
    n = 4 if ctx.tier == 'quick' else 20
    for _ in range(n):
        mode = rng.choice(['default-fitter', 'one-finder-grouper-localbkg'])
        cfgs = [dict(finder=True, grouper=rng.random() < 0.6, localbkg=rng.random() < 0.6,
                     iterative=rng.random() < 0.3, mode='new', freefwhm=rng.random() < 0.5, xyb=None)
                for _ in range(2)]
        calls = []
        for k in range(rng.randint(3, 6)):
            ini = rng.choice([0, 1, 2])
            d = rng.choice([0, 1, 2, -1]) if ini == 0 else rng.choice([0, 1, 2])
            calls.append([rng.randrange(2), d, ini, rng.randrange(16) if ini else 0])
        per_obj, bad = xpsf_run(cfgs, mode, calls)
        desc = {'machine': 'PSFPhotometry-objects-sharing-helpers', 'configs': cfgs, 'helpers': mode, 'calls': calls}
        for (k, j, what) in bad:
            report(ctx, 'PSFPhotometry.__call__:depends-on-other-objects',
                   f'call {k} (object {j}) {what}; calls (object, image, init kind, columns) = {calls[:k + 1]}; '
                   f'objects share {mode}', dict(desc, step=k, cmd='bin/check C09 --replay <this file>'))
        ctx.count_case(desc, True)
        ctx.stat('cross', f'PSFPhotometry,{mode}')
        for j, obs in enumerate(per_obj):
            if obs and not cfgs[j]['iterative']:
                cases.append(f"CPsf true {coq(cfgs[j]['grouper'])} {coq(obs)}")
                meta.append(('psf', desc, bool(bad)))


def replay_cross_psf(r):
    snapshot_pristine()
    _, bad = xpsf_run(r['configs'], r['helpers'], [tuple(c) for c in r['calls']])
    for (k, j, what) in bad:
        print(f'call {k} (object {j}): {what}')
    return bad


# --------------------------------------------------------------------------
# apertures of several classes in ONE process, one fresh subprocess per scenario: state kept
# at class / module level is decided by whichever class is re-assigned first in the process
# --------------------------------------------------------------------------
SKYCLS = {'SkyCircularAperture': ['positions', 'r'], 'SkyEllipticalAperture': ['positions', 'a', 'b', 'theta']}


def sky_decode(v):
    import astropy.units as u
    from astropy.coordinates import SkyCoord
    kind, x = v
    if kind == 'sky':
        return SkyCoord(x[0], x[1], unit='deg')
    if kind == 'arcsec':
        return x * u.arcsec
    if kind == 'deg':
        return x * u.deg
    raise ValueError(kind)


class ApObj:
    """one aperture driven step by step (pixel classes: observations for the Coq machine)"""

    def __init__(self, clsname, init):
        self.clsname = clsname
        self.sky = clsname in SKYCLS
        self.names = SKYCLS[clsname] if self.sky else APCLS[clsname][0]
        self.cls = ap_class(clsname)
        self.dec = sky_decode if self.sky else ap_decode
        self.cur = dict(init)
        with Quiet():
            self.obj = self.cls(**{k: self.dec(v) for k, v in self.cur.items()})
        keys0 = [a in self.obj.__dict__ for a in ALAZY]
        self.nid = 100
        self.obs = []
        for i, _ in enumerate(self.names):
            self.obs.append((0, i, self.nid, True, (0, True, keys0)))
            self.nid += 1

    def step(self, op):
        """returns None or a description of the violation"""
        bad = None
        if op[0] == 'get':
            with Quiet():
                pub = public_reads(self.obj, exclude=ALAZY)
                nm = pub[op[1] % len(pub)]
                v = getattr(self.obj, nm)
                fr = getattr(self.cls(**{n: self.dec(x) for n, x in self.cur.items()}), nm)
            return None if same(v, fr) else (nm, 'differs from a fresh aperture with the current parameters')
        if op[0] == 'set':
            _, i, vd, valid = op
            exc = 0
            try:
                with Quiet():
                    setattr(self.obj, self.names[i], self.dec(vd))
            except Exception as e:  # noqa
                exc = exc_code(e)
            if exc == 0:
                self.cur[self.names[i]] = vd
            if valid and exc:
                bad = (self.names[i], f'assignment raises (code {exc})')
            self.obs.append((0, i, self.nid, bool(valid), (exc, True, [a in self.obj.__dict__ for a in ALAZY])))
            self.nid += 1
        else:
            a = op[1]
            exc, v = 0, None
            try:
                with Quiet():
                    v = ap_read(self.obj, a)
            except Exception as e:  # noqa
                exc = exc_code(e)
            if a == 11:
                return None if exc == 2 else ("to_mask('no-such-method')", f'gives code {exc} instead of raising')
            with Quiet():
                fr = ap_read(self.cls(**{n: self.dec(x) for n, x in self.cur.items()}), a)
            eqf = exc == 0 and same(v, fr)
            nm = ALAZY[a] if a < 8 else f'to_mask({AMETH[a - 8][0]})'
            if exc:
                bad = (nm, f'raises (code {exc})')
            elif not eqf:
                bad = (nm, 'differs from a fresh aperture with the current parameters')
            self.obs.append((1, a, 0, True, (exc, eqf, [x in self.obj.__dict__ for x in ALAZY])))
        return bad


def aper_scenario(rng):
    """2-4 apertures of different classes (pixel and sky) in one process.  Every object gets one or two
    read -> re-assign -> read blocks (plus a few stray reads / rejected assignments); the blocks of the
    different objects are merged at random, and the object whose re-assignment comes FIRST in the process
    is drawn at random (class-level state is decided by the first re-assignment)."""
    classes = rng.sample(list(APCLS) + list(SKYCLS), rng.randint(2, 4))
    if rng.random() < 0.25:
        classes.append(rng.choice(classes))          # two objects of the same class
    objs, queues = [], []
    for j, c in enumerate(classes):
        q = []
        if c in SKYCLS:
            init = {'positions': ['sky', [10.0 + rng.randint(0, 8) / 4.0, 20.0]]}
            for nme in SKYCLS[c][1:]:
                init[nme] = ['deg', float(rng.randint(0, 90))] if nme == 'theta' else ['arcsec', rng.randint(2, 12) / 4.0]
            for _ in range(rng.randint(1, 2)):
                a = rng.choice([0, 1])
                i = rng.randrange(1, len(SKYCLS[c]))
                nme = SKYCLS[c][i]
                vd = ['deg', float(rng.randint(0, 90))] if nme == 'theta' else ['arcsec', rng.randint(2, 12) / 4.0]
                q += [[j, 'read', a], [j, 'set', i, vd, True], [j, 'read', a]]
        else:
            names = APCLS[c][0]
            init = {}
            for nme in names:
                init[nme] = ap_value(rng, nme, init, True)
            cur = dict(init)
            for _ in range(rng.randint(1, 2)):
                a = rng.choice([3, 4, 5, 5, 6, 7, 7, 8, 9, 10])
                i = rng.randrange(len(names))
                vd = ap_value(rng, names[i], cur, True)
                cur[names[i]] = vd
                q += [[j, 'read', a], [j, 'set', i, vd, True], [j, 'read', a]]
                if rng.random() < 0.3:
                    q.append([j, 'read', rng.choice([3, 5, 7, 8, 10])])
                if rng.random() < 0.2:
                    q.append([j, 'get', rng.randrange(8)])
                if rng.random() < 0.1:
                    q.append([j, 'read', 11])
                if rng.random() < 0.15:
                    i2 = rng.randrange(len(names))
                    q.append([j, 'set', i2, ap_value(rng, names[i2], cur, False), False])
        objs.append({'class': c, 'init': init})
        queues.append(q)
    first = rng.randrange(len(objs))
    ops = queues[first][:2]                  # its read and its re-assignment open the process
    queues[first] = queues[first][2:]
    while any(queues):
        j = rng.choice([k for k, q in enumerate(queues) if q])
        ops.append(queues[j].pop(0))
    return {'objects': objs, 'ops': ops}


def aper_scenario_run(sc):
    """executed in a FRESH interpreter (see aper_worker); also used by --replay"""
    objs = [ApObj(o['class'], o['init']) for o in sc['objects']]
    bad = []
    for k, op in enumerate(sc['ops']):
        b = objs[op[0]].step(tuple(op[1:]))
        if b:
            bad.append([k, op[0], objs[op[0]].clsname, b[0], b[1]])
    return {'obs': [None if o.sky else o.obs for o in objs], 'bad': bad}


def aper_worker():
    import json
    import sys
    sc = json.load(sys.stdin)
    json.dump(aper_scenario_run(sc), sys.stdout)


def run_in_fresh_process(scs):
    """one new interpreter per scenario, all in parallel"""
    import json
    import subprocess
    import sys
    from .core import VERIF
    procs = []
    for sc in scs:
        p = subprocess.Popen([sys.executable, '-W', 'ignore', '-c',
                              'from harness import core, c09; core.setup_repo_path(); c09.aper_worker()'],
                             cwd=str(VERIF), stdin=subprocess.PIPE, stdout=subprocess.PIPE, stderr=subprocess.PIPE,
                             text=True)
        p.stdin.write(json.dumps(sc))
        p.stdin.close()
        procs.append(p)
    out = []
    for p in procs:
        txt = p.stdout.read()
        err = p.stderr.read()
        p.wait()
        if p.returncode != 0:
            raise RuntimeError('aperture worker failed: ' + err[-1500:])
        out.append(json.loads(txt))
    return out


def tup_obs(o):
    return (o[0], o[1], o[2], o[3], (o[4][0], o[4][1], o[4][2]))


def section_aper_processes(ctx, cases, meta):
    rng = ctx.rng
    n = 16 if ctx.tier == 'quick' else 96
    scs = [aper_scenario(rng) for _ in range(n)]
    results = []
    for i in range(0, n, 16):
        results += run_in_fresh_process(scs[i:i + 16])
    for sc, res in zip(scs, results):
        desc = {'machine': 'apertures-in-one-process', 'objects': sc['objects'], 'ops': sc['ops']}
        first = next((sc['objects'][o[0]]['class'] for o in sc['ops'] if o[1] == 'set'), 'none')
        ctx.count_case(desc, True)
        ctx.stat('aper-process', f'first re-assigned class: {first}')
        for (k, j, clsname, nm, what) in res['bad']:
            report(ctx, f'{clsname}.{nm}:after-reassignment',
                   f'{clsname}.{nm} (object {j}) {what}, in a fresh process running {sc["ops"][:k + 1]} on '
                   f'{[o["class"] for o in sc["objects"]]}', dict(desc, step=k, cmd='bin/check C09 --replay <this file>'))
        for o, obs in zip(sc['objects'], res['obs']):
            if obs is not None:
                _, le, la = APCLS[o['class']]
                cases.append(f'CAper {coq(le)} {coq(la)} {coq([tup_obs(x) for x in obs])}')
                meta.append(('aper', desc, bool(res['bad'])))


def replay_aper_process(r):
    res = run_in_fresh_process([{'objects': r['objects'], 'ops': r['ops']}])[0]
    for (k, j, clsname, nm, what) in res['bad']:
        print(f'step {k}: {clsname}.{nm} (object {j}) {what}')
    return res['bad']


# --------------------------------------------------------------------------
def run(ctx):
    ctx.build(FILES)
    snapshot_pristine()
    ctx.cov['rule'] = (
        'histories of length <= 8 (reads / setter assignments / calls) on one real object per case; every call '
        'alphabet contains calls that RAISE at different depths (validation errors; PSF fits with a zero / NaN of the '
        'error map inside a fit box, a fully masked source or a source off the image; finder calls with a 1-D image or '
        'a mask of the wrong shape; fit_image with an unknown integrmode; normalize / to_mask with an unknown method; '
        'evaluate with 3-D coordinates) and calls returning None, interleaved with normal calls and reads -- the '
        'reference object never sees the failed request; in part of the histories of every callable machine ONE '
        'image / error / mask / coordinate buffer and ONE init_params table are handed over by consecutive calls '
        'with their contents replaced in place (Ellipse: the constructor\'s image array), expected = a fresh object '
        'on copies of the current contents; the READ alphabet '
        'of Background2D, the profiles, the PSF machines and the apertures is derived from the object (every public '
        'non-callable attribute, deprecated accessors such as background_mesh_masked / mesh_nmasked / fit_results '
        'included, plot-free, gaussian_* excluded); over '
        'Background2D (filter_threshold none/low/mid/high x filter_size x Zoom/IDW interpolator, masks, units, '
        'coverage mask, bottleneck as installed), RadialProfile / CurveOfGrowth (normalize max/sum, unnormalize, '
        'zero / negative / NaN / all-masked profiles, units; reads of profile, profile_error, data_profile, '
        'normalization_value, calc_ee_at_radius, calc_radius_at_ee, area, radius, data_radius), the six pixel '
        'aperture classes (valid and invalid reassignments, scalar and list positions) and LocalBackground, '
        'PSFPhotometry (finder x grouper x local background x PSF model with/without a free shape parameter x '
        'xy_bounds; init_params none / table / table with group_id, flux, local_bkg, fwhm columns, the column set '
        'changing from call to call; the constructor\'s psf_model parameters snapshotted after every call), '
        'IterativePSFPhotometry (new/all, maxiters 1-3), make_model_image / make_residual_image with each '
        '(psf_shape, include_localbkg) as READ operations of both PSF machines (compared with a fresh object brought '
        'through the same calls without the earlier reads), DAO/IRAF/StarFinder, Ellipse.fit_image (linear, fix_*), '
        'GriddedPSFModel evaluations (original and copy() sharing the cache) on integer, sub-unit (negative / '
        'fractional reference positions less than one unit apart) and non-uniform grids, the same cells visited in '
        'both orders; type and unit (Quantity vs ndarray) of every profile read in the un-normalised state compared '
        'with a fresh object without calls; CROSS-OBJECT histories: 2-3 '
        'Background2D objects (same mesh with / without coverage mask, different fill values) and pairs of '
        '(Iterative)PSFPhotometry objects sharing helper instances (default-argument singletons or one '
        'interpolator / estimator / finder / grouper / LocalBackground passed to both), read alternately and '
        'compared with objects built from private copies of the pristine defaults (deep-copied before any object '
        'of the run exists); 2-4 apertures of different pixel and sky classes driven in ONE fresh subprocess '
        'per scenario with read -> re-assign -> read blocks, the class re-assigned first drawn at random; '
        'thorough adds all 720 read orders of Background2D per configuration and all orders of first reads / '
        'calc_* around normalize/unnormalize; every step is compared with a FRESH object; non-trivial = '
        'history with >= 2 steps mixing mutators/reads; distinct = distinct (configuration, history)')
    ctx.assumptions += [
        'the numeric kernels (interpolators, median filters, fits, overlap kernels, splines) are abstract pure '
        'functions in the model; that they are deterministic functions of their arguments is observed on every '
        'step (bitwise equality with a fresh object), not proved',
        'profiles: the rescaling arithmetic is mirrored with Coq primitive floats (binary64); nanmax/nansum are '
        'modelled as left-to-right folds, valid for the < 8-element profiles generated',
        'caller-side in-place edits of returned arrays are outside the history alphabet (reads, setter '
        'assignments, calls); images are passed as copies so that C10 defects do not leak into this check',
        'cross-object references are built from deep copies of the default-argument helpers taken at the start '
        'of the run; state kept at module / class level is only reached through the per-scenario subprocesses '
        '(apertures)']
    ctx.cov['partial_clauses'] = [
        'Ellipse.fit_image: fix C09-4 is not applied (known finding Ellipse.fit_image:geometry-persists); the '
        'implementation is compared with the code-as-found machine (ecall legacy=true, refuted by '
        'ellipse_legacy_refuted); ellipse_calls_fresh is a theorem about the proposed repair only',
        'IterativePSFPhotometry, the star finders, LocalBackground values, calc_ee_at_radius / '
        'calc_radius_at_ee / area / radius / data_radius values and the cross-object comparisons are tied to '
        'the implementation by the direct fresh-object oracle (the model covers their cache / state effect, '
        'not their values; the inner iteration schedule is an abstract function there)',
        'PSFPhotometry calls that raise half-way (source off the image) are compared with a fresh object '
        'directly; the model has no such branch',
        'starfinder_inplace_calls_fresh_partial (the code before fix C10-3) assumes an idempotent normalisation; '
        'the current code only reads the kernel (starfinder_calls_fresh, full; attribute checked unchanged)',
        'RadialProfile.gaussian_fit / gaussian_profile / gaussian_fwhm are deliberately NOT among the observables: '
        'they are documented not to follow normalize()']
    cases, meta = [], []
    section_bkg(ctx, cases, meta)
    section_prof(ctx, cases, meta)
    section_aper(ctx, cases, meta)
    section_psf(ctx, cases, meta)
    section_finders(ctx)
    section_ellipse(ctx, cases, meta)
    section_grid(ctx, cases, meta)
    section_cross_bkg(ctx, cases, meta)
    section_cross_psf(ctx, cases, meta)
    section_aper_processes(ctx, cases, meta)
    bad = ctx.coq_eval_cases(['C09_Model'], 'check_case', cases, case_type='case', shard_numerals=12000)
    ctx.stat('coq', 'disagreements', len(bad))
    for i in bad[:25]:
        kind, desc, violated = meta[i]
        if violated:
            continue          # the direct oracle already reported the concrete input
        detail = {'case': desc, 'coq_case': cases[i][:4000],
                  'model': ctx.coq_eval_term(['C09_Model'], f'model_out ({cases[i]})') if len(cases[i]) < 20000 else None}
        report(ctx, f'correspondence:C09_Model.check_case:{kind}',
                      'model and implementation disagree on exception / cache keys / private state while every '
                      'value equals a fresh object\'s', detail, found_input=False)


def replay(obj):
    r = obj['replay']
    r = r.get('case', r)
    m = r.get('machine')
    if m == 'Background2D':
        bad = replay_bkg(r)
    elif m == 'profile':
        bad = replay_prof(r)
    elif m == 'aperture':
        bad = replay_aper(r)
    elif m == 'GriddedPSFModel':
        bad = replay_grid(r)
    elif m == 'apertures-in-one-process':
        bad = replay_aper_process(r)
    elif m == 'Background2D-objects-sharing-helpers':
        bad = replay_cross_bkg(r)
    elif m == 'PSFPhotometry-objects-sharing-helpers':
        bad = replay_cross_psf(r)
    elif m in ('PSFPhotometry', 'IterativePSFPhotometry'):
        bad = replay_psf(r)
    elif m == 'Ellipse.fit_image':
        bad = replay_ell(r)
    elif m in ('DAOStarFinder', 'IRAFStarFinder', 'StarFinder'):
        bad = replay_finder(r)
    else:
        print('nothing to replay for', m)
        return 0
    print('property holds on this history' if not bad else 'property FAILS on this history')
    return 1 if bad else 0
