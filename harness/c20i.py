"""C20I (stretch of C20): the SAMPLING code of photutils.isophote.

Tie between the Coq model coq/C20I_Model.v (exact arithmetic over Q) and the real classes
  photutils.isophote.integrator._BiLinearIntegrator / _NearestNeighborIntegrator /
  _MeanIntegrator / _MedianIntegrator,  photutils.isophote.sample.EllipseSample
  (extract, _sigma_clip),  photutils.isophote.geometry.EllipseGeometry.

`run_integrator_correspondence(ctx, n_cases)` is meant to be called from the C20 harness after
its build (with the C20I files among the built files so that C20I_Model.vo exists).  Groups:

  int   one `integrate(radius, phi)` call of the real bilinear / nearest-neighbour integrator on
        a small dyadic-valued image (plain or masked array).  The values math.cos(phi+pa),
        math.sin(phi+pa) are RECORDED from the implementation (a proxy for the `math` name of
        integrator.py) and handed to Coq as exact rationals.  'exact' cases (phi+pa = 0 or
        radius = 0, dyadic x0, y0, radius): every binary64 operation of the code is exact, and
        Coq compares the appended (angle, radius, sample) / the nothing-appended decision with
        equality.  'general' cases (arbitrary floats): the model is evaluated at the binary64
        position (x_, y_) — checked inside Coq to lie within 2^-50 (|r|+|x0|+|y0|+1) of
        r*c + x0, r*s + y0 — and the sample must agree within 2^-46 * (sum of |cell pixels|)
        (9 roundings of relative size 2^-53 each); angle and radius exactly.
  ext   whole `EllipseSample(...).extract()` runs (nclip = 0) with every integrate call, every
        geometry.radius call and the trigonometric values recorded: Coq checks the walk
        (first angle = initial_polar_angle of the model within 2^-40, each next angle =
        phi + min(1/radius, 1/2) within 2^-49, all <= stop < the angle that ended the loop,
        radii within [sma(1-eps), sma], total_points = number of calls), and that the three
        returned arrays are exactly the in-range calls of the model (angles, radii: equality;
        intensities: the rounding bound above).
  clip  `EllipseSample._sigma_clip` of the real object on dyadic lists, and extract() runs with
        nclip > 0 against the model clip of the nclip = 0 arrays: surviving positions must be
        equal.  Decisions within 1e-9 (relative) of a clipping bound are skipped and counted
        unless every intermediate quantity (mean, variance, std, bounds) is a small dyadic
        number, in which case binary64 computes them exactly and the tie is kept (this is how
        the constant-ring behaviour is exercised).
  area  one `integrate` call of the mean / median integrators: the vertices returned by
        initialize_sector_geometry and the (radius, angle) returned by to_polar for every
        pixel of the bounding box are recorded; the sector test on them is evaluated in Python
        with the code's own expression (library numerics: a Section variable of the model);
        Coq computes the range tests, the pixel list, the fallback to bilinear (< 7 pixels)
        and the mean / upper median, compared within 2^-46 (|v|+1).

Also, directly on the implementation (no model): bilinear sampling of an affine dyadic image
returns a + b x + c y exactly (support count).

Observations of the unchanged code that the model states as theorems (reported through
ctx.violation only when `report_findings=True`; they are not part of the C20 property text):
  * nclip > 0 and a constant ring of intensities: every sample is clipped (std = 0 makes
    lower = upper = mean and the test is  lower <= v < upper);
  * a point with -1 < x < 0 is sampled by extrapolation (int() truncates towards zero);
  * a point exactly on the last pixel column / row is not sampled.
"""
import math
from fractions import Fraction

import numpy as np

from .core import Some, coq

IMPORTS = ['C20I_Model']
COQ_FILES = ['C20I_Model.v', 'C20I_Proofs.v', 'C20I_Properties.v']
EPS = Fraction(1, 10**9)


# --------------------------------------------------------------------------
# exact conversions
# --------------------------------------------------------------------------
def dy(x):
    """binary64 -> (m, e) with x = m * 2**e exactly, m odd (or 0)."""
    x = float(x)
    if x == 0.0:
        return (0, 0)
    if not math.isfinite(x):
        raise ValueError('non-finite value')
    n, d = x.as_integer_ratio()
    e = -(d.bit_length() - 1)
    if d == 1:
        tz = (n & -n).bit_length() - 1
        n >>= tz
        e = tz
    return (int(n), int(e))


def rows_term(zimg, mask):
    return [[None if (mask is not None and mask[j][i]) else Some(int(zimg[j][i]))
             for i in range(len(zimg[j]))] for j in range(len(zimg))]


def small_dyadic(fr, bits=30):
    d = fr.denominator
    return d & (d - 1) == 0 and d <= 2**bits and abs(fr.numerator) < 2**40


# --------------------------------------------------------------------------
# instrumentation of the real code (restored in `finally`)
# --------------------------------------------------------------------------
class _MathProxy:
    """Stands for the name `math` inside photutils/isophote/integrator.py: records cos / sin."""

    def __init__(self):
        self.log = []

    def cos(self, x):
        v = math.cos(x)
        self.log.append(('cos', x, v))
        return v

    def sin(self, x):
        v = math.sin(x)
        self.log.append(('sin', x, v))
        return v

    def __getattr__(self, name):
        return getattr(math, name)


class _Instrument:
    def __enter__(self):
        from photutils.isophote import integrator as im
        self.im = im
        self.saved_math = im.math
        self.saved_int = dict(im.INTEGRATORS)
        self.proxy = _MathProxy()
        self.calls = []
        im.math = self.proxy
        calls = self.calls
        for name, cls in self.saved_int.items():
            def make(cls):
                class Rec(cls):
                    def integrate(self, radius, phi):
                        calls.append((radius, phi, type(self).__mro__[1].__name__))
                        return super().integrate(radius, phi)
                Rec.__name__ = 'Rec' + cls.__name__
                return Rec
            im.INTEGRATORS[name] = make(cls)
        return self

    def __exit__(self, *exc):
        self.im.math = self.saved_math
        for name, cls in self.saved_int.items():
            self.im.INTEGRATORS[name] = cls
        return False


def make_image(rng, ny, nx, den, kind, masked):
    if kind == 'random':
        z = [[rng.randint(-64, 64) for _ in range(nx)] for _ in range(ny)]
    elif kind == 'affine':
        a, b, c = rng.randint(-20, 20), rng.randint(-8, 8), rng.randint(-8, 8)
        z = [[a + b * i + c * j for i in range(nx)] for j in range(ny)]
    elif kind == 'bilinear':
        a, b, c, d = rng.randint(-20, 20), rng.randint(-8, 8), rng.randint(-8, 8), rng.randint(-3, 3)
        z = [[a + b * i + c * j + d * i * j for i in range(nx)] for j in range(ny)]
    elif kind == 'spike':
        z = [[0] * nx for _ in range(ny)]
        z[rng.randrange(ny)][rng.randrange(nx)] = rng.randint(1, 200)
    else:   # distinct values: a wrong pixel is always visible
        z = [[1 + i + 17 * j for i in range(nx)] for j in range(ny)]
    arr = np.array(z, dtype=float) / den
    mask = None
    if masked:
        mask = [[rng.random() < 0.15 for _ in range(nx)] for _ in range(ny)]
        arr = np.ma.MaskedArray(arr, mask=np.array(mask, dtype=bool))
    return z, mask, arr


# --------------------------------------------------------------------------
# group `int`: one integrate call
# --------------------------------------------------------------------------
COORD_KINDS = ['interior', 'centre', 'frac>=half', 'neg(-1,0)', 'minus-one', 'below', 'last', 'last-cell', 'beyond',
               'zero']
COORD_W = [6, 3, 4, 3, 1, 1, 2, 3, 1, 1]


def pick_coord(rng, n):
    """A dyadic coordinate of the named class for an axis with n pixels."""
    kind = rng.choices(COORD_KINDS, COORD_W)[0]
    hi = max(n - 2, 0)
    if kind == 'interior':
        v = rng.randint(0, hi) + rng.randint(0, 7) / 8
    elif kind == 'centre':
        v = float(rng.randint(0, max(n - 1, 0)))
    elif kind == 'frac>=half':
        v = rng.randint(0, hi) + rng.choice([4, 5, 6, 7]) / 8
    elif kind == 'neg(-1,0)':
        v = -rng.randint(1, 7) / 8
    elif kind == 'minus-one':
        v = -1.0
    elif kind == 'below':
        v = -1.0 - rng.randint(1, 24) / 8
    elif kind == 'last':
        v = float(n - 1)
    elif kind == 'last-cell':
        v = (n - 2) + rng.randint(1, 7) / 8
    elif kind == 'beyond':
        v = (n - 1) + rng.randint(1, 24) / 8
    else:
        v = 0.0
    return kind, v


def gen_int_case(rng):
    ny = rng.choice([1, 2, 2, 3, 4, 5, 6, 7])
    nx = rng.choice([1, 2, 2, 3, 4, 5, 6, 7])
    den = rng.choice([1, 2, 4, 8])
    kind = rng.choice(['random', 'random', 'affine', 'bilinear', 'spike', 'distinct', 'distinct'])
    masked = rng.random() < 0.25
    z, mask, arr = make_image(rng, ny, nx, den, kind, masked)
    mode = rng.choice(['bilinear', 'bilinear', 'nearest_neighbor'])
    group = rng.choices(['exact-axis', 'exact-centre', 'general'], [5, 2, 3])[0]
    kx, tx = pick_coord(rng, nx)
    ky, ty = pick_coord(rng, ny)
    if group == 'exact-axis':
        radius = rng.randint(0, 63) / 8
        phi = rng.choice([0.0, rng.uniform(0, 6.3)])
        pa = -phi
        x0, y0 = tx - radius, ty
    elif group == 'exact-centre':
        radius = 0.0
        phi = rng.uniform(0, 6.3)
        pa = rng.uniform(-3.2, 3.2)
        x0, y0 = tx, ty
    else:
        radius = rng.uniform(0.0, 6.0)
        phi = rng.uniform(0, 6.4)
        pa = rng.uniform(-3.2, 3.2)
        x0 = tx - radius * math.cos(phi + pa)
        y0 = ty - radius * math.sin(phi + pa)
    return dict(ny=ny, nx=nx, den=den, kind=kind, z=z, mask=mask, arr=arr, mode=mode, group=group,
                radius=radius, phi=phi, pa=pa, x0=x0, y0=y0, kx=kx, ky=ky)


def run_int_case(c):
    """Run the real integrator; returns (c, s, appended or None)."""
    from photutils.isophote.geometry import EllipseGeometry
    g = EllipseGeometry(c['x0'], c['y0'], 10.0, 0.2, c['pa'])
    with _Instrument() as ins:
        angles, radii, intens = [], [], []
        integ = ins.im.INTEGRATORS[c['mode']](c['arr'], g, angles, radii, intens)
        integ.integrate(c['radius'], c['phi'])
        log = list(ins.proxy.log)
    cs = [v for (k, _, v) in log if k == 'cos']
    sn = [v for (k, _, v) in log if k == 'sin']
    args = [a for (_, a, _) in log]
    ok_args = len(cs) == 1 and len(sn) == 1 and all(a == c['phi'] + c['pa'] for a in args)
    cc = cs[0] if cs else math.cos(c['phi'] + c['pa'])
    ss = sn[0] if sn else math.sin(c['phi'] + c['pa'])
    if len(angles) != len(radii) or len(angles) != len(intens) or len(angles) > 1:
        res = 'bad-lengths'
    elif angles:
        res = (float(angles[0]), float(radii[0]), float(intens[0]))
    else:
        res = None
    return cc, ss, res, ok_args


def int_term(c, cc, ss, res):
    xf = c['radius'] * cc + c['x0']
    yf = c['radius'] * ss + c['y0']
    exact = c['group'] != 'general'
    r = None if res is None else Some((dy(res[0]), dy(res[1]), dy(res[2])))
    return coq((c['mode'] == 'bilinear', int(c['den']), rows_term(c['z'], c['mask']), dy(c['x0']), dy(c['y0']),
                dy(c['radius']), dy(c['phi']), dy(cc), dy(ss), dy(xf), dy(yf), bool(exact), r)), xf, yf


def describe_int(c):
    return {k: c[k] for k in ('ny', 'nx', 'den', 'kind', 'z', 'mask', 'mode', 'group', 'radius', 'phi', 'pa', 'x0', 'y0')}


# --------------------------------------------------------------------------
# group `ext`: whole extract() runs
# --------------------------------------------------------------------------
def gen_ext_case(rng, nclip=0):
    n = rng.choice([12, 16, 20, 24])
    den = rng.choice([1, 4])
    kind = rng.choice(['random', 'affine', 'bilinear', 'distinct', 'galaxy'])
    if kind == 'galaxy':
        cx, cy = n / 2, n / 2
        z = [[int(round(256 * math.exp(-math.hypot(i - cx, (j - cy) * 1.3) / 4))) for i in range(n)] for j in range(n)]
        mask = None
        arr = np.array(z, dtype=float) / den
    else:
        z, mask, arr = make_image(rng, n, n, den, kind, rng.random() < 0.15)
    sma = rng.choice([rng.randint(1, 9) + rng.randint(0, 3) / 4, rng.uniform(0.6, n / 2)])
    eps = rng.choice([0.0, 0.0, 0.1, 0.25, 0.5, 0.7, rng.uniform(0.0, 0.8)])
    pa = rng.choice([0.0, rng.uniform(-3.1, 3.1)])
    where = rng.choices(['inside', 'near-border', 'corner'], [5, 3, 1])[0]
    if where == 'inside':
        x0, y0 = n / 2 + rng.randint(-8, 8) / 4, n / 2 + rng.randint(-8, 8) / 4
    elif where == 'near-border':
        x0, y0 = rng.choice([1.5, n - 2.5, n / 2]), rng.choice([2.0, n - 3.0])
    else:
        x0, y0 = 0.5, 0.25
    astep = rng.choice([0.05, 0.1, 0.1, 0.2, 0.3, 0.5, 1.0, 4.0])
    lin = rng.random() < 0.4
    mode = rng.choice(['bilinear', 'bilinear', 'nearest_neighbor'])
    sclip = rng.choice([1.0, 1.5, 2.0, 3.0, 3.0])
    return dict(n=n, den=den, kind=kind, z=z, mask=mask, arr=arr, sma=float(sma), eps=float(eps), pa=float(pa),
                x0=float(x0), y0=float(y0), astep=float(astep), lin=lin, mode=mode, where=where, nclip=nclip,
                sclip=sclip)


def run_extract(c, nclip=0):
    """Run EllipseSample.extract() with recording.  Returns a dict of observations."""
    from photutils.isophote.sample import EllipseSample
    with _Instrument() as ins:
        s = EllipseSample(c['arr'], c['sma'], x0=c['x0'], y0=c['y0'], astep=c['astep'], eps=c['eps'],
                          position_angle=c['pa'], sclip=c['sclip'], nclip=nclip, linear_growth=c['lin'],
                          integrmode=c['mode'])
        geo = s.geometry
        rad_log = []
        orig_radius = geo.radius

        def radius(angle):
            v = orig_radius(angle)
            rad_log.append((float(angle), float(v)))
            return v
        geo.radius = radius
        import warnings
        with warnings.catch_warnings():
            warnings.simplefilter('ignore')
            vals = s.extract()
        calls = list(ins.calls)
        log = list(ins.proxy.log)
    cs = [(a, v) for (k, a, v) in log if k == 'cos']
    sn = [(a, v) for (k, a, v) in log if k == 'sin']
    return dict(calls=calls, cos=cs, sin=sn, rad_log=rad_log, total=int(s.total_points), actual=int(s.actual_points),
                angles=[float(v) for v in vals[0]], radii=[float(v) for v in vals[1]],
                intens=[float(v) for v in vals[2]], geo=(float(geo.x0), float(geo.y0), float(geo.sma),
                                                         float(geo.eps), float(geo.astep), bool(geo.linear_growth)),
                pa=float(geo.pa))


def ext_term(c, ob):
    x0, y0, sma, eps, astep, lin = ob['geo']
    calls = []
    for k, (radius, phi, _) in enumerate(ob['calls']):
        cc, ss = ob['cos'][k][1], ob['sin'][k][1]
        xf = radius * cc + x0
        yf = radius * ss + y0
        calls.append((dy(phi), dy(radius), dy(cc), dy(ss), dy(xf), dy(yf)))
    last = ob['rad_log'][-1][0]
    stop = np.pi * 2.0 + 0.05
    return coq((c['mode'] == 'bilinear', int(c['den']), rows_term(c['z'], c['mask']),
                (dy(x0), dy(y0), dy(sma), dy(eps), dy(astep), bool(lin)), calls, dy(last), dy(float(stop)),
                int(ob['total']), ([dy(v) for v in ob['angles']], [dy(v) for v in ob['radii']],
                                   [dy(v) for v in ob['intens']])))


def describe_ext(c):
    return {k: c[k] for k in ('n', 'den', 'kind', 'z', 'mask', 'sma', 'eps', 'pa', 'x0', 'y0', 'astep', 'lin', 'mode',
                              'where', 'nclip', 'sclip')}


# --------------------------------------------------------------------------
# group `clip`
# --------------------------------------------------------------------------
def exact_clip(vals, nclip, sclip):
    """Reference in Fractions.  Returns (surviving indices, tie) where tie is None, 'near' (some decision within EPS
    of a bound and the binary64 computation may round) or 'exact-safe' (a tie, but all quantities small dyadics)."""
    idx = list(range(len(vals)))
    cur = list(vals)
    tie = None
    for _ in range(max(nclip, 0)):
        if not cur:
            break
        n = len(cur)
        mean = sum(cur) / n
        var = sum((x - mean) ** 2 for x in cur) / n
        t2 = sclip * sclip * var
        # exactly representable computation?
        root = None
        if var == 0:
            root = Fraction(0)
        else:
            p, q = var.numerator, var.denominator
            rp, rq = math.isqrt(p), math.isqrt(q)
            if rp * rp == p and rq * rq == q:
                root = Fraction(rp, rq)
        safe = (root is not None and all(small_dyadic(x) for x in cur) and small_dyadic(mean) and small_dyadic(var)
                and small_dyadic(root) and small_dyadic(sclip * root) and small_dyadic(mean + sclip * root)
                and small_dyadic(mean - sclip * root)
                and all(small_dyadic((x - mean) ** 2) for x in cur) and small_dyadic(sum(cur))
                and small_dyadic(sum((x - mean) ** 2 for x in cur)))
        scale2 = max([abs(x) for x in cur] + [Fraction(1, 2**30)]) ** 2
        keep = []
        for x in cur:
            d = x - mean
            # lower <= x  <=>  not (mean - x > s*sig);   x < upper  <=>  x - mean < s*sig
            if sclip >= 0:
                lo_ok = not (-d > 0 and d * d > t2)
                hi_ok = (d < 0) or (d * d < t2)
            else:
                lo_ok = not (-d > 0 or d * d < t2)
                hi_ok = (d < 0) and (d * d > t2)
            near = abs(d * d - t2) <= EPS * (d * d + t2 + scale2)
            if near:
                if safe:
                    tie = tie or 'exact-safe'
                else:
                    tie = 'near'
            keep.append(lo_ok and hi_ok)
        idx = [i for i, k in zip(idx, keep) if k]
        cur = [x for x, k in zip(cur, keep) if k]
    return idx, tie


CLIP_KINDS = ['noise+outliers', 'constant', 'flat+outlier', 'few-values', 'ramp', 'uniform', 'two-point']
CLIP_W = [8, 2, 3, 3, 2, 3, 1]


def gen_clip_case(rng):
    kind = rng.choices(CLIP_KINDS, CLIP_W)[0]
    n = rng.choice([1, 2, 3, 4, 5, 8, 12, 16]) if rng.random() < 0.4 else rng.randint(1, 40)
    den = rng.choice([1, 2, 4, 8])
    off = rng.choice([0, 0, 3, -7, 100, 1000])
    if kind == 'noise+outliers':
        z = [rng.randint(-8, 8) + rng.randint(-8, 8) for _ in range(n)]
        for _ in range(rng.randint(0, max(1, n // 6))):
            z[rng.randrange(n)] = rng.choice([-1, 1]) * rng.randint(30, 2000)
    elif kind == 'constant':
        z = [rng.randint(-50, 50)] * n
    elif kind == 'flat+outlier':
        z = [rng.randint(-10, 10)] * n
        z[rng.randrange(n)] += rng.choice([-1, 1]) * rng.choice([1, 2, 50, 1000])
    elif kind == 'few-values':
        pool = [rng.randint(-20, 20) for _ in range(rng.randint(2, 4))]
        z = [rng.choice(pool) for _ in range(n)]
    elif kind == 'ramp':
        s = rng.randint(1, 5)
        z = [s * i for i in range(n)]
        rng.shuffle(z)
    elif kind == 'uniform':
        r = rng.choice([3, 10, 100, 5000])
        z = [rng.randint(-r, r) for _ in range(n)]
    else:
        a = rng.randint(-5, 5)
        z = [a, a + 2 * rng.randint(1, 8)] * max(1, n // 2)
    z = [v + off for v in z]
    nclip = rng.choice([0, 1, 1, 2, 2, 3, 5, -1])
    sclip = rng.choice([0.0, 0.5, 1.0, 1.0, 1.5, 2.0, 2.5, 3.0, 3.0, 3.0, 5.0, -1.0])
    return dict(kind=kind, den=den, z=z, nclip=nclip, sclip=sclip)


CLIP_LANDMARKS = [
    dict(kind='landmark', den=1, z=[5, 5, 5, 5], nclip=1, sclip=3.0),                 # constant ring: emptied
    dict(kind='landmark', den=1, z=[5], nclip=1, sclip=3.0),
    dict(kind='landmark', den=1, z=[0] * 10 + [11], nclip=1, sclip=3.0),              # outlier removed ...
    dict(kind='landmark', den=1, z=[0] * 10 + [11], nclip=2, sclip=3.0),              # ... then everything
    dict(kind='landmark', den=1, z=[0, 2], nclip=1, sclip=1.0),                       # upper bound is strict
    dict(kind='landmark', den=1, z=[0, 2], nclip=2, sclip=1.0),
    dict(kind='landmark', den=1, z=[1, 2, 3, 4, 5, 100], nclip=1, sclip=2.0),
    dict(kind='landmark', den=1, z=[1, 2, 3], nclip=0, sclip=3.0),
    dict(kind='landmark', den=1, z=[1, 2, 3], nclip=-2, sclip=3.0),
    dict(kind='landmark', den=1, z=[1, 2, 3], nclip=1, sclip=-1.0),                   # negative sclip
    dict(kind='landmark', den=1, z=[], nclip=2, sclip=3.0),
]


def impl_clip(vals, nclip, sclip):
    from photutils.isophote.sample import EllipseSample
    s = EllipseSample(np.zeros((8, 8)), 2.0, x0=4.0, y0=4.0, sclip=sclip, nclip=nclip)
    n = len(vals)
    idx = [float(i) for i in range(n)]
    import warnings
    with warnings.catch_warnings():
        warnings.simplefilter('ignore')
        a, r, v = s._sigma_clip(list(idx), list(idx), [float(x) for x in vals])
    a, r, v = list(a), list(r), list(v)
    return [int(x) for x in a], [int(x) for x in r], [float(x) for x in v]


def clip_term(nclip, sclip, fvals, kept):
    return coq((int(nclip), dy(sclip), [dy(v) for v in fvals], [int(k) for k in kept]))


# --------------------------------------------------------------------------
# group `area`
# --------------------------------------------------------------------------
def gen_area_case(rng):
    big = rng.random() < 0.55           # sectors that hold more than 6 pixels
    n = rng.choice([32, 40]) if big else rng.choice([16, 20, 24, 32])
    den = rng.choice([1, 4])
    kind = rng.choice(['random', 'distinct', 'affine', 'bilinear'])
    z, mask, arr = make_image(rng, n, n, den, kind, rng.random() < 0.15)
    lin = rng.random() < 0.4
    if big:
        sma = rng.uniform(6.0, n / 2 - 6)
        astep = rng.choice([6.0, 8.0, 10.0]) if lin else rng.choice([0.8, 1.0, 1.2])
    else:
        sma = rng.choice([rng.uniform(1.0, 4.0), rng.uniform(4.0, n / 2)])
        astep = rng.choice([0.5, 2.0, 3.0, 4.0]) if lin else rng.choice([0.1, 0.3, 0.5, 1.5])
    eps = rng.choice([0.0, 0.1, 0.3, 0.6])
    pa = rng.choice([0.0, rng.uniform(-3.1, 3.1)])
    where = rng.choices(['inside', 'near-border'], [4, 1])[0]
    if where == 'inside':
        x0, y0 = n / 2 + rng.randint(-8, 8) / 4, n / 2 + rng.randint(-8, 8) / 4
    else:
        x0, y0 = rng.choice([2.5, n - 3.5, n / 2]), rng.choice([3.0, n - 4.0])
    mode = rng.choice(['mean', 'median'])
    phi = rng.uniform(0.0, 6.3)
    return dict(n=n, den=den, kind=kind, z=z, mask=mask, arr=arr, sma=float(sma), eps=float(eps), pa=float(pa),
                x0=float(x0), y0=float(y0), astep=float(astep), lin=lin, mode=mode, phi=float(phi), where=where)


def run_area_case(c):
    from photutils.isophote.geometry import EllipseGeometry
    g = EllipseGeometry(c['x0'], c['y0'], c['sma'], c['eps'], c['pa'], c['astep'], c['lin'])
    radius = float(g.radius(c['phi']))
    vert, polar = [], []
    o_init, o_polar = g.initialize_sector_geometry, g.to_polar

    def init(phi):
        vx, vy = o_init(phi)
        vert.append((np.array(vx, dtype=float), np.array(vy, dtype=float)))
        return vx, vy

    def to_polar(x, y):
        r = o_polar(x, y)
        polar.append((int(x), int(y), float(r[0]), float(r[1])))
        return r
    g.initialize_sector_geometry = init
    g.to_polar = to_polar
    with _Instrument() as ins:
        angles, radii, intens = [], [], []
        integ = ins.im.INTEGRATORS[c['mode']](c['arr'], g, angles, radii, intens)
        integ.integrate(radius, c['phi'])
        log = list(ins.proxy.log)
    phi1, phi2 = g.polar_angle_sector_limits()
    sma1, sma2 = g.bounding_ellipses()
    tbl = []
    for (i, j, rp, phip) in polar:
        ok = False
        if phip < phi2 and phip >= phi1:
            aux = ((1.0 - g.eps) / math.sqrt(((1.0 - g.eps) * math.cos(phip))**2 + (math.sin(phip))**2))
            r1, r2 = sma1 * aux, sma2 * aux
            ok = bool(rp < r2 and rp >= r1)
        tbl.append(ok)
    vx, vy = vert[0]
    # the bilinear fallback (if any) made the last cos / sin calls with argument phi + pa
    target = c['phi'] + c['pa']
    cs = [v for (k, a, v) in log if k == 'cos' and a == target]
    sn = [v for (k, a, v) in log if k == 'sin' and a == target]
    cc = cs[-1] if cs else math.cos(target)
    ss = sn[-1] if sn else math.sin(target)
    if len(angles) != len(radii) or len(angles) != len(intens) or len(angles) > 1:
        res = 'bad-lengths'
    elif angles:
        res = (float(angles[0]), float(radii[0]), float(intens[0]))
    else:
        res = None
    return dict(radius=radius, vminx=float(min(vx)), vminy=float(min(vy)), vmaxx=float(max(vx)), vmaxy=float(max(vy)),
                tbl=tbl, polar=[(p[0], p[1]) for p in polar], c=cc, s=ss, res=res, npix=sum(tbl))


def area_term(c, ob):
    res = ob['res']
    xf = ob['radius'] * ob['c'] + c['x0']
    yf = ob['radius'] * ob['s'] + c['y0']
    return coq((c['mode'] == 'median', int(c['den']), rows_term(c['z'], c['mask']), dy(c['x0']), dy(c['y0']),
                dy(ob['radius']), dy(c['phi']), dy(ob['c']), dy(ob['s']), (dy(xf), dy(yf)),
                (dy(ob['vminx']), dy(ob['vminy']), dy(ob['vmaxx']), dy(ob['vmaxy'])),
                [bool(b) for b in ob['tbl']], None if res is None else Some(dy(res[2]))))


def area_loop_order_ok(ob):
    """The recorded to_polar calls must be the loop  for j in range(j1, j2): for i in range(i1, i2)."""
    if not ob['polar']:
        return True
    i1, j1 = int(ob['vminx']) - 1, int(ob['vminy']) - 1
    i2, j2 = int(ob['vmaxx']) + 1, int(ob['vmaxy']) + 1
    return ob['polar'] == [(i, j) for j in range(j1, j2) for i in range(i1, i2)]


def describe_area(c):
    return {k: c[k] for k in ('n', 'den', 'kind', 'z', 'mask', 'sma', 'eps', 'pa', 'x0', 'y0', 'astep', 'lin', 'mode',
                              'phi', 'where')}


# --------------------------------------------------------------------------
def _detail(ctx, fn, term, tag):
    try:
        return ctx.coq_eval_term(IMPORTS, f'{fn} {term}', tag=tag)
    except Exception as e:      # diagnostics only
        return repr(e)[:300]


def run_integrator_correspondence(ctx, n_cases, report_findings=False):
    """Returns a dict of counts; disagreements are reported through ctx.violation."""
    rng = ctx.rng
    out = {'int_cases': 0, 'int_exact': 0, 'int_general': 0, 'int_disagreements': 0,
           'ext_cases': 0, 'ext_disagreements': 0, 'ext_calls': 0,
           'clip_cases': 0, 'clip_skipped_near_tie': 0, 'clip_exact_ties_kept': 0, 'clip_disagreements': 0,
           'clip_reference_disagreements': 0, 'clip_extract_runs': 0,
           'area_cases': 0, 'area_disagreements': 0, 'affine_exact_runs': 0, 'affine_exact_failures': 0,
           'observed_constant_ring_emptied': 0, 'observed_extrapolation': 0, 'observed_last_column_unsampled': 0}
    n_int = max(20, int(n_cases * 0.55))
    n_ext = max(4, int(n_cases * 0.06))
    n_clip = max(len(CLIP_LANDMARKS) + 10, int(n_cases * 0.25))
    n_clipext = max(3, int(n_cases * 0.04))
    n_area = max(6, int(n_cases * 0.10))

    # ---------------- int ----------------
    terms, kept = [], []
    for _ in range(n_int):
        c = gen_int_case(rng)
        try:
            cc, ss, res, ok_args = run_int_case(c)
        except Exception as e:
            ctx.violation('correspondence:C20I:integrate-raises', 'integrate(radius, phi) raised ' + repr(e)[:200],
                          {'case': describe_int(c)}, found_input=False)
            continue
        out['int_cases'] += 1
        out['int_general' if c['group'] == 'general' else 'int_exact'] += 1
        ctx.stat('integrate', 'mode:' + c['mode'])
        ctx.stat('integrate', 'group:' + c['group'])
        ctx.stat('integrate', 'x:' + c['kx'])
        ctx.stat('integrate', 'y:' + c['ky'])
        ctx.stat('integrate', 'image:' + c['kind'] + ('+masked' if c['mask'] is not None else ''))
        ctx.stat('integrate', 'appended:' + ('yes' if isinstance(res, tuple) else 'no'))
        ctx.count_case(('integrate', describe_int(c)), nontrivial=True)
        if res == 'bad-lengths' or not ok_args:
            ctx.violation('correspondence:C20I:integrate-protocol',
                          'one integrate() call appended more than one entry / lists of different lengths / evaluated '
                          'cos, sin at something else than phi + pa', {'case': describe_int(c)}, found_input=False)
            continue
        try:
            t, xf, yf = int_term(c, cc, ss, res)
        except ValueError:
            ctx.violation('correspondence:C20I:non-finite', 'integrate() stored a non-finite value for a finite image',
                          {'case': describe_int(c), 'impl': repr(res)}, found_input=False)
            continue
        terms.append(t)
        kept.append((c, cc, ss, res, xf, yf))
        # properties of the unchanged code that the model states as theorems
        if isinstance(res, tuple) and c['mode'] == 'bilinear' and (-1 < xf < 0 or -1 < yf < 0):
            out['observed_extrapolation'] += 1
        if res is None and (xf == c['nx'] - 1 and 0 <= yf < c['ny'] - 1 and c['mask'] is None and c['nx'] >= 2):
            out['observed_last_column_unsampled'] += 1
        # directly on the implementation: affine images are reproduced exactly (exact groups)
        if c['kind'] == 'affine' and c['mode'] == 'bilinear' and c['group'] != 'general' and isinstance(res, tuple):
            z = c['z']
            a0 = Fraction(z[0][0], c['den'])
            b0 = Fraction(z[0][1] - z[0][0], c['den']) if c['nx'] > 1 else Fraction(0)
            c0 = Fraction(z[1][0] - z[0][0], c['den']) if c['ny'] > 1 else Fraction(0)
            want = a0 + b0 * Fraction(xf) + c0 * Fraction(yf)
            out['affine_exact_runs'] += 1
            if Fraction(res[2]) != want:
                out['affine_exact_failures'] += 1
                ctx.violation('correspondence:C20I:bilinear-affine-exact',
                              'the bilinear integrator does not reproduce an affine dyadic image exactly',
                              {'case': describe_int(c), 'sample': res[2], 'expected': str(want)}, found_input=False)
    bad = ctx.coq_eval_cases(IMPORTS, 'check_int_case', terms, case_type='int_case', tag='c20i_int')
    out['int_disagreements'] = len(bad)
    for i in bad[:8]:
        c, cc, ss, res, xf, yf = kept[i]
        ctx.violation('correspondence:C20I_Model.check_int_case',
                      'integrate(radius, phi) of the real integrator (appended angle / radius / sample, or the decision '
                      'not to append) differs from the exact-arithmetic model',
                      {'case': describe_int(c), 'cos': cc, 'sin': ss, 'x_': xf, 'y_': yf, 'impl': res,
                       'model (int(x), int(y), angles, radii, intensities)': _detail(ctx, 'int_model_out', terms[i],
                                                                                       'c20i_int_detail')},
                      found_input=False)
    if kept:
        c, cc, ss, res, xf, yf = kept[-1]
        ctx.sample({'c20i_integrate_case': describe_int(c), 'cos': cc, 'sin': ss, 'impl': res}, limit=8)

    # ---------------- ext ----------------
    terms, kept = [], []
    for _ in range(n_ext):
        c = gen_ext_case(rng)
        try:
            ob = run_extract(c, nclip=0)
        except Exception as e:
            ctx.violation('correspondence:C20I:extract-raises', 'EllipseSample.extract() raised ' + repr(e)[:200],
                          {'case': describe_ext(c)}, found_input=False)
            continue
        out['ext_cases'] += 1
        out['ext_calls'] += len(ob['calls'])
        ctx.stat('extract', 'mode:' + c['mode'])
        ctx.stat('extract', 'growth:' + ('linear' if c['lin'] else 'geometric'))
        ctx.stat('extract', 'centre:' + c['where'])
        ctx.stat('extract', 'eps:' + ('0' if c['eps'] == 0 else '>0'))
        ctx.stat('extract', 'off-image calls:' + ('none' if ob['actual'] == ob['total'] else
                                                    'all' if ob['actual'] == 0 else 'some'))
        ctx.count_case(('extract', describe_ext(c)), nontrivial=True)
        protocol = (len(ob['cos']) == len(ob['calls']) and len(ob['sin']) == len(ob['calls'])
                    and len(ob['rad_log']) == len(ob['calls']) and len(ob['calls']) >= 1
                    and all(ob['cos'][k][0] == ob['calls'][k][1] + ob['pa'] for k in range(len(ob['calls'])))
                    and all(ob['sin'][k][0] == ob['calls'][k][1] + ob['pa'] for k in range(len(ob['calls'])))
                    # radius(phi) is what is handed to the next integrate call
                    and all(ob['rad_log'][k - 1] == (ob['calls'][k][1], ob['calls'][k][0])
                            for k in range(1, len(ob['calls']))))
        if not protocol:
            ctx.violation('correspondence:C20I:extract-protocol',
                          '_extract does not follow the recorded protocol (one cos/sin pair at phi+pa per integrate call; '
                          'integrate(geometry.radius(phi), phi); one radius() call per loop iteration)',
                          {'case': describe_ext(c), 'n_calls': len(ob['calls']), 'n_cos': len(ob['cos']),
                           'n_radius': len(ob['rad_log'])}, found_input=False)
            continue
        try:
            terms.append(ext_term(c, ob))
        except ValueError:
            ctx.violation('correspondence:C20I:non-finite', 'extract() returned a non-finite value for a finite image',
                          {'case': describe_ext(c)}, found_input=False)
            continue
        kept.append((c, ob))
    bad = ctx.coq_eval_cases(IMPORTS, 'check_ext_case', terms, case_type='ext_case', tag='c20i_ext')
    out['ext_disagreements'] = len(bad)
    for i in bad[:5]:
        c, ob = kept[i]
        ctx.violation('correspondence:C20I_Model.check_ext_case',
                      'EllipseSample.extract(): the walk (angles, stopping rule, total_points) or the returned arrays '
                      '(in-range calls, angle/radius bookkeeping, intensities) differ from the model',
                      {'case': describe_ext(c), 'total_points': ob['total'], 'actual_points': ob['actual'],
                       'first_calls': ob['calls'][:3], 'angles': ob['angles'][:5], 'intens': ob['intens'][:5]},
                      found_input=False)
    if kept:
        c, ob = kept[-1]
        ctx.sample({'c20i_extract_case': {k: v for k, v in describe_ext(c).items() if k not in ('z', 'mask')},
                    'total_points': ob['total'], 'actual_points': ob['actual']}, limit=8)

    # ---------------- clip ----------------
    terms, kept = [], []
    cases = [dict(c) for c in CLIP_LANDMARKS]
    while len(cases) < n_clip:
        cases.append(gen_clip_case(rng))
    for c in cases:
        vals = [Fraction(z, c['den']) for z in c['z']]
        fvals = [z / c['den'] for z in c['z']]
        ref, tie = exact_clip(vals, c['nclip'], Fraction(c['sclip']))
        ctx.stat('sigma_clip', 'kind:' + c['kind'])
        ctx.stat('sigma_clip', 'nclip:' + str(c['nclip']))
        if tie == 'near':
            out['clip_skipped_near_tie'] += 1
            ctx.stat('sigma_clip', 'skipped:near-tie')
            continue
        if tie == 'exact-safe':
            out['clip_exact_ties_kept'] += 1
        a, r, v = impl_clip(fvals, c['nclip'], c['sclip'])
        out['clip_cases'] += 1
        ctx.stat('sigma_clip', 'survivors:' + ('all' if len(a) == len(fvals) else 'none' if not a else 'some'))
        ctx.count_case(('sigma_clip', c), nontrivial=len(vals) > 1)
        if a != r or v != [fvals[k] for k in a]:
            ctx.violation('correspondence:C20I:sigma-clip-lockstep',
                          '_sigma_clip returned angles / radii / intensities that are not the same positions',
                          {'case': c, 'angles': a, 'radii': r}, found_input=False)
            continue
        if a != ref:
            out['clip_reference_disagreements'] += 1
        if c['nclip'] > 0 and len(set(c['z'])) == 1 and len(c['z']) > 0 and not a:
            out['observed_constant_ring_emptied'] += 1
        terms.append(clip_term(c['nclip'], c['sclip'], fvals, a))
        kept.append((c, a))
    # extract() with nclip > 0 against the model clip of the nclip = 0 arrays
    for _ in range(n_clipext):
        c = gen_ext_case(rng, nclip=rng.choice([1, 1, 2, 3]))
        try:
            ob0 = run_extract(c, nclip=0)
            ob1 = run_extract(c, nclip=c['nclip'])
        except Exception as e:
            ctx.violation('correspondence:C20I:extract-raises', 'EllipseSample.extract() raised ' + repr(e)[:200],
                          {'case': describe_ext(c)}, found_input=False)
            continue
        if not all(math.isfinite(v) for v in ob0['intens'] + ob1['intens']):
            ctx.violation('correspondence:C20I:non-finite', 'extract() returned a non-finite value for a finite image',
                          {'case': describe_ext(c)}, found_input=False)
            continue
        vals = [Fraction(v) for v in ob0['intens']]
        ref, tie = exact_clip(vals, c['nclip'], Fraction(c['sclip']))
        ctx.stat('sigma_clip', 'kind:extract-run')
        if tie == 'near':
            out['clip_skipped_near_tie'] += 1
            ctx.stat('sigma_clip', 'skipped:near-tie')
            continue
        pos = {a: k for k, a in enumerate(ob0['angles'])}
        if any(a not in pos for a in ob1['angles']) or len(pos) != len(ob0['angles']):
            ctx.violation('correspondence:C20I:sigma-clip-lockstep',
                          'extract() with nclip > 0 returned angles that are not angles of the nclip = 0 run',
                          {'case': describe_ext(c)}, found_input=False)
            continue
        a = [pos[x] for x in ob1['angles']]
        out['clip_cases'] += 1
        out['clip_extract_runs'] += 1
        ctx.count_case(('sigma_clip_extract', describe_ext(c)), nontrivial=True)
        if a != ref:
            out['clip_reference_disagreements'] += 1
        if (ob1['radii'] != [ob0['radii'][k] for k in a] or ob1['intens'] != [ob0['intens'][k] for k in a]
                or ob1['actual'] != len(a) or ob1['total'] != ob0['total']):
            ctx.violation('correspondence:C20I:sigma-clip-lockstep',
                          'extract() with nclip > 0: radii / intensities / actual_points / total_points are not those of '
                          'the surviving positions', {'case': describe_ext(c)}, found_input=False)
            continue
        try:
            terms.append(clip_term(c['nclip'], c['sclip'], ob0['intens'], a))
        except ValueError:
            ctx.violation('correspondence:C20I:non-finite', 'extract() returned a non-finite value for a finite image',
                          {'case': describe_ext(c)}, found_input=False)
            continue
        kept.append(({'extract': describe_ext(c)}, a))
    bad = ctx.coq_eval_cases(IMPORTS, 'check_clip_case', terms, case_type='clip_case', tag='c20i_clip')
    out['clip_disagreements'] = len(bad)
    for i in bad[:8]:
        c, a = kept[i]
        ctx.violation('correspondence:C20I_Model.check_clip_case',
                      'EllipseSample._sigma_clip keeps other positions than the exact-arithmetic model (no value near '
                      'a clipping bound)',
                      {'case': c, 'impl_kept': a, 'model_kept': _detail(ctx, 'clip_model_out', terms[i],
                                                                        'c20i_clip_detail')}, found_input=False)
    if out['clip_reference_disagreements']:
        ctx.violation('correspondence:C20I:fraction-reference',
                      'the harness\'s Fraction reference of _sigma_clip disagrees with the implementation',
                      {'n': out['clip_reference_disagreements']}, found_input=False)

    # ---------------- area ----------------
    terms, kept = [], []
    for _ in range(n_area):
        c = gen_area_case(rng)
        try:
            ob = run_area_case(c)
            u = rng.random()               # steer towards the threshold  npix in range(7)  /  npix > 6
            want = (6, 7) if u < 0.3 else (5, 8) if u < 0.45 else None
            if want:
                for _ in range(40):
                    if ob['npix'] in want:
                        break
                    c = gen_area_case(rng)
                    ob = run_area_case(c)
        except Exception as e:
            ctx.violation('correspondence:C20I:area-raises', 'area integrate() raised ' + repr(e)[:200],
                          {'case': describe_area(c)}, found_input=False)
            continue
        out['area_cases'] += 1
        ctx.stat('area', 'mode:' + c['mode'])
        ctx.stat('area', 'branch:' + ('range-test-failed' if not ob['polar'] and ob['res'] is None else
                                      'fallback-bilinear' if ob['npix'] < 7 else 'accumulated'))
        ctx.stat('area', 'appended:' + ('yes' if isinstance(ob['res'], tuple) else 'no'))
        ctx.stat('area', 'npix:' + (str(ob['npix']) if 5 <= ob['npix'] <= 8 else '<5' if ob['npix'] < 5 else '>8'))
        ctx.count_case(('area', describe_area(c)), nontrivial=True)
        if ob['res'] == 'bad-lengths' or not area_loop_order_ok(ob) or (
                isinstance(ob['res'], tuple) and (ob['res'][0] != c['phi'] or ob['res'][1] != ob['radius'])):
            ctx.violation('correspondence:C20I:area-protocol',
                          'the area integrator does not visit  for j in range(j1, j2): for i in range(i1, i2)  / stores '
                          'another angle or radius than it was given', {'case': describe_area(c)}, found_input=False)
            continue
        try:
            terms.append(area_term(c, ob))
        except ValueError:
            ctx.violation('correspondence:C20I:non-finite', 'area integrate() stored a non-finite value for a finite image',
                          {'case': describe_area(c), 'impl': repr(ob['res'])}, found_input=False)
            continue
        kept.append((c, ob))
    bad = ctx.coq_eval_cases(IMPORTS, 'check_area_case', terms, case_type='area_case', tag='c20i_area')
    out['area_disagreements'] = len(bad)
    for i in bad[:5]:
        c, ob = kept[i]
        ctx.violation('correspondence:C20I_Model.check_area_case',
                      'integrate(radius, phi) of the real mean / median integrator differs from the model (range tests, '
                      'accumulated pixels, fallback to bilinear below 7 pixels, mean / upper median)',
                      {'case': describe_area(c), 'npix': ob['npix'], 'impl': ob['res'],
                       'bbox': [ob['vminx'], ob['vminy'], ob['vmaxx'], ob['vmaxy']]}, found_input=False)

    if report_findings:
        if out['observed_constant_ring_emptied']:
            ctx.violation('EllipseSample._sigma_clip:constant-intensities',
                          'nclip > 0 removes every sample of a ring of equal intensities (std = 0: lower = upper = mean, '
                          'test is lower <= v < upper)', {'values': [5.0, 5.0, 5.0, 5.0], 'nclip': 1, 'sclip': 3.0})
    for k, v in out.items():
        ctx.stat('c20i_totals', k, v)
    ctx.support('bilinear_affine_exact_on_implementation', out['affine_exact_runs'])
    return out


def main(argv=None):
    """Standalone: python -m harness.c20i [n_cases] [seed]  (uses a private work directory; VERIF_REPO selects the
    tree under test)."""
    import json
    import sys
    from . import core
    argv = sys.argv[1:] if argv is None else argv
    n = int(argv[0]) if argv else 400
    seed = int(argv[1]) if len(argv) > 1 else 0
    core.setup_repo_path()
    ctx = core.Ctx('C20I', 'quick', seed)
    ok, log, missing = core.build_files(['lib/Cases.v', 'C20I_Model.v'])
    if missing:
        print(log[-2000:])
        return 2
    out = run_integrator_correspondence(ctx, n)
    print(json.dumps({'result': out, 'distribution': ctx.cov['correspondence']}, indent=1))
    for v in ctx.violations:
        print('VIOLATION', v)
    return 1 if ctx.violations else 0


if __name__ == '__main__':
    raise SystemExit(main())
