"""C06M (stretch of C06): the multi-threshold marker logic of
photutils.segmentation.deblend._SingleSourceDeblender inside the model.

Tie between coq/C06M_Model.v and the REAL per-source deblender.  For every generated source
(`run_marker_correspondence(ctx, n_cases)`, own PRNG derived from ctx.seed):

  * a small cutout (3..8 x 3..8 pixels) with INTEGER pixel values (every float operation of the code
    that the model reproduces -- comparisons with a level, nansum, sum_labels -- is exact) and a
    footprint `segment_data == label`: 1-3 blended peaks (cones in the Chebyshev / Manhattan / Euclid
    metric, summed or max-combined), flat-topped peaks (plateaus), two equal peaks whose saddle sits
    exactly on a linear level (ties of the strict `data > level`), two blobs joined by a one-pixel
    bridge, blocks that touch only diagonally (4- vs 8-connectivity), peaks on the cutout edge, noise,
    ramps (nothing to deblend), constant sources, negative / zero-sum sources (division by a
    non-positive source_sum, exponential -> linear switch), footprints made of two pieces (the guard
    raises), foreign labels inside the cutout;
  * all modes, nlevels 1..8, contrast in {0, 1e-3, 0.1, 0.5, 1}, npixels 1..6, connectivity 4 / 8;
  * the REAL `_SingleSourceDeblender(data, segment_data, label, params).deblend_source()` runs under
    recording wrappers (nothing is replaced): `deblend._detect_sources` records the level handed to
    every detection and checks that the other arguments are the source's own (data, npixels, footprint,
    segment mask, relabel=False, return_segmimg=False); `skimage.segmentation.watershed` records the
    marker array it receives and the label array it returns and checks image == -data, mask ==
    segment mask, connectivity == footprint;
  * Coq (`check_case`, vm_compute) then recomputes everything from the cutout and the recorded levels:
    the marker array of every watershed call must EQUAL the model's (the first = make_markers; the
    later ones = the model's contrast pruning of the recorded previous result), every recorded
    watershed result must satisfy the specification the theorems assume (`ws_spec_b`, `ws_flood_b`,
    `markers_wf_b`), the final children / None / ValueError and the two warning flags must equal the
    model's post-processing, the recorded levels must satisfy the guard (`levels_ok`: count = nlevels,
    non-decreasing, inside [source_min, source_max]) and the linear ones must agree with the exact
    np.linspace formula to 2^-40.

  The float test `flux / source_sum < contrast` is reproduced exactly: for |flux|, |source_sum| < 2^26
  the correctly rounded quotient is below the double `contrast` iff the exact quotient is below the
  midpoint of `contrast` and its predecessor, which is the rational handed to Coq (0 for contrast 0).

Every real call is bounded: the recording watershed wrapper raises `NonTermination` after more calls than
the cutout has pixels (the model's contrast loop makes at most one call per marker label) and a SIGALRM
backstop (CASE_TIMEOUT seconds, main thread only) covers any other hang; a non-terminating implementation is
reported as `correspondence:C06M_Model:non-termination` with the input.  Non-finite detection levels are
reported as `correspondence:C06M_Model:protocol`.

Thorough tier only (`include_big`): one cutout with > 200 isolated one-pixel peaks (checkerboard,
connectivity 4, npixels 1, exponential / sinh) so that the `nmarkers` second pass with linear levels is
exercised (about 3.5 minutes of vm_compute, far above the quick budget).

A disagreement is reported as `correspondence:C06M_Model...` (found_input=False) unless the plain-Python
oracle `c06_text_oracle` shows that the per-source result contradicts the C06 text (children do not
partition the footprint / fewer than 2 children / a child with < npixels pixels / labels not 1..k),
in which case it is a violation with the concrete input.  The oracle runs on every case.
"""
import math
import random
import signal
import threading
import warnings
from fractions import Fraction

import numpy as np

IMPORTS = ['C06M_Model']
COQ_FILES = ['lib/Conn.v', 'C04_Model.v', 'C04_Proofs.v', 'C04_PathModel.v', 'C04_PathProofs.v',
             'C06_Model.v', 'C06_Proofs.v',
             'C06M_Model.v', 'C06M_Proofs.v', 'C06M_Link.v', 'C06M_Properties.v']
OBLIGATION_FILES = ['C06M_Properties.v']

MODES = ['linear', 'exponential', 'sinh']
CONTRASTS = [0.0, 1e-3, 0.1, 0.5, 1.0]
KINDS = (['peaks'] * 8 + ['plateau'] * 4 + ['saddle'] * 4 + ['bridge'] * 4 + ['diag'] * 2 + ['edge'] * 4
         + ['noise'] * 3 + ['ramp', 'flat'] + ['negative'] * 3 + ['zerosum'] * 3 + ['split'] * 3 + ['foreign'] * 3
         + ['many'] * 4)


# --------------------------------------------------------------------------
# literals
# --------------------------------------------------------------------------
def zlit(n):
    n = int(n)
    return f'({n})' if n < 0 else str(n)


def qlit(x):
    """a finite double / Fraction as an exact Coq rational (numerals kept short)"""
    f = Fraction(x)
    num, den = f.numerator, f.denominator
    if den.bit_length() <= 61:
        return f'(qz {zlit(num)} {den})'
    if den & (den - 1) == 0:        # a power of two: split it
        k = den.bit_length() - 1
        parts = []
        while k > 60:
            parts.append(2 ** 60)
            k -= 60
        parts.append(2 ** k)
        if num.bit_length() <= 64 and len(parts) <= 3:
            t = f'(qz {zlit(num)} {parts[0]})'
            for d in parts[1:]:
                t = f'(Qmult {t} (qz 1 {d}))'
            return t
    raise ValueError(f'rational with a too long numeral: {f}')


def zlist(a):
    return '[' + ';'.join(zlit(v) for v in np.asarray(a).ravel().tolist()) + ']'


def blist(a):
    return '[' + ';'.join('true' if v else 'false' for v in np.asarray(a).ravel().tolist()) + ']'


def contrast_eff(c):
    """the exact rational q0 with  fl(a / b) < c  <->  a / b < q0  for small integers a, b"""
    c = float(c)
    if c == 0.0:
        return Fraction(0)
    lo = float(np.nextafter(c, -np.inf))
    return (Fraction(c) + Fraction(lo)) / 2


# --------------------------------------------------------------------------
# sources
# --------------------------------------------------------------------------
def _cone(yy, xx, y0, x0, a, slope, metric, top=0):
    dy, dx = np.maximum(0, np.abs(yy - y0) - top), np.maximum(0, np.abs(xx - x0) - top)
    if metric == 'cheb':
        d = np.maximum(dy, dx)
    elif metric == 'manh':
        d = dy + dx
    else:
        d = np.floor(np.sqrt(dy * dy + dx * dx) * 2) / 2
    return np.maximum(0, np.floor(a - slope * d))


def make_source(rng, kind=None):
    """-> (data float array with integer values, segment_data int array, label, kind, steer)
    `steer` may suggest nlevels so that a level falls exactly on a pixel value."""
    kind = kind or rng.choice(KINDS)
    ny, nx = rng.randint(3, 8), rng.randint(3, 8)
    if kind in ('peaks', 'plateau', 'edge', 'negative', 'zerosum', 'split', 'foreign'):
        ny, nx = rng.randint(4, 8), rng.randint(5, 8)
        if rng.random() < 0.5:
            ny, nx = nx, ny
    steer = {'kind': kind}
    if kind in ('bridge', 'saddle', 'diag'):
        ny, nx = rng.randint(3, 6), rng.randint(6, 8)
        if rng.random() < 0.4:
            steer['transpose'] = True
    if kind == 'many':
        ny, nx = rng.randint(5, 8), rng.randint(6, 8)
    yy, xx = np.mgrid[0:ny, 0:nx]
    data = np.zeros((ny, nx))
    ped = rng.choice([0, 1, 1, 2, 5])
    if kind in ('peaks', 'plateau', 'edge', 'negative', 'zerosum', 'split', 'foreign'):
        k = rng.choice([1, 2, 2, 2, 3, 3])
        comb = rng.choice(['sum', 'max', 'max'])
        sep = rng.choice([3, 4, 4, 5])
        placed = []
        for _ in range(k):
            for _try in range(20):
                if kind == 'edge':
                    y0 = rng.choice([0, ny - 1, rng.randrange(ny)])
                    x0 = rng.choice([0, nx - 1, rng.randrange(nx)])
                else:
                    y0, x0 = rng.randrange(ny), rng.randrange(nx)
                if all(max(abs(y0 - a), abs(x0 - b)) >= sep for a, b in placed):
                    break
            placed.append((y0, x0))
            c = _cone(yy, xx, y0, x0, rng.choice([4, 6, 9, 12, 20]), rng.choice([2, 3, 4, 6]),
                      rng.choice(['cheb', 'manh', 'euc']), top=rng.choice([0, 1, 1]))
            if kind == 'plateau':
                c = np.minimum(c, rng.choice([2, 3, 5]))
            data = data + c if comb == 'sum' else np.maximum(data, c)
        data += ped
    elif kind == 'saddle':
        # two equal peaks of height h over a saddle s and a pedestal b, all on the linear lattice
        nl = rng.randint(1, 8)
        step = rng.choice([1, 2, 3])
        b = rng.choice([0, 1, 2])
        h = b + step * (nl + 1)
        s = b + step * rng.randint(0, nl + 1)
        data[:] = b
        y0 = rng.randrange(ny)
        w = rng.choice([1, 2])
        data[max(0, y0 - 1):y0 + 2, :] = np.maximum(b, s - rng.choice([0, 1]))
        data[y0, :] = s
        data[max(0, y0 - w + 1):y0 + 1, 0:2] = h
        data[max(0, y0 - w + 1):y0 + 1, nx - 2:nx] = h - rng.choice([0, 0, step])
        if rng.random() < 0.4:
            data[y0, nx // 2] = rng.choice([h, s + step, s - step if s - step >= b else s])
        steer['nlevels'] = nl
    elif kind == 'bridge':
        b = rng.choice([1, 2])
        hi = rng.choice([6, 9, 10])
        mid = rng.choice([2, 3, 4, 5])
        data[:] = b
        y0 = rng.randrange(ny)
        h = rng.choice([1, 2, 3])
        data[max(0, y0 - h + 1):y0 + 1, 0:rng.choice([2, 3])] = hi
        data[max(0, y0 - h + 1):y0 + 1, nx - rng.choice([2, 3]):nx] = hi - rng.choice([0, 1, 3])
        data[y0, 2:nx - 2] = np.maximum(data[y0, 2:nx - 2], mid)
    elif kind == 'diag':
        b = rng.choice([1, 2])
        data[:] = b
        hi = rng.choice([5, 8])
        y0 = rng.randint(1, ny - 1)
        x0 = rng.randint(2, nx - 2)
        data[max(0, y0 - 2):y0, max(0, x0 - 2):x0] = hi
        data[y0:y0 + 2, x0:x0 + 2] = hi - rng.choice([0, 1])
        if rng.random() < 0.5:
            data[max(0, y0 - 2):y0, x0:x0 + 2] = rng.choice([b, b + 1, hi - 2])
    elif kind == 'noise':
        data = np.array([[rng.randint(0, rng.choice([3, 9])) for _ in range(nx)] for _ in range(ny)], float) + ped
    elif kind == 'many':
        # many small peaks: a lattice of isolated maxima
        sy, sx = rng.choice([2, 3]), rng.choice([2, 3])
        data[:] = 1
        data[::sy, ::sx] = np.array([[rng.choice([3, 4, 5, 8]) for _ in range(len(range(0, nx, sx)))]
                                     for _ in range(len(range(0, ny, sy)))], float)
    elif kind == 'ramp':
        data = (yy * rng.choice([0, 1, 2]) + xx * rng.choice([1, 2])).astype(float) + ped
    elif kind == 'flat':
        data[:] = rng.choice([0, 1, 3, -2])
    if kind == 'negative':
        data -= rng.choice([1, 2, 3, 6])
    if kind == 'zerosum':
        data -= round(float(data.mean()))
    if steer.get('transpose'):
        data = np.ascontiguousarray(data.T)
        ny, nx = nx, ny
        yy, xx = np.mgrid[0:ny, 0:nx]
    # ---- footprint ----
    zero_min = kind not in ('flat', 'negative', 'zerosum') and rng.random() < 0.15
    label = rng.choice([1, 2, 3, 7, 12])
    seg = np.zeros((ny, nx), dtype=rng.choice([np.int32, np.int64]))
    fp_kind = rng.choice(['all', 'all', 'above', 'blob'])
    if kind == 'split':
        fp = np.ones((ny, nx), bool)
        if rng.random() < 0.5:
            fp[:, rng.randrange(1, nx - 1) if nx > 2 else 0] = False
        else:
            # two pieces that touch only diagonally: joined for connectivity 8, split for 4
            cy, cx = rng.randint(1, ny - 1), rng.randint(1, nx - 1)
            fp[:] = False
            fp[:cy, :cx] = True
            fp[cy:, cx:] = True
    elif fp_kind == 'all':
        fp = np.ones((ny, nx), bool)
    elif fp_kind == 'above':
        fp = data > np.min(data)
        if fp.sum() < 2:
            fp = np.ones((ny, nx), bool)
    else:
        fp = np.zeros((ny, nx), bool)
        y, x = rng.randrange(ny), rng.randrange(nx)
        for _ in range(rng.randint(ny * nx // 2, 3 * ny * nx)):
            fp[y, x] = True
            dy, dx = rng.choice([(0, 1), (0, -1), (1, 0), (-1, 0), (1, 1), (-1, -1)])
            y, x = min(ny - 1, max(0, y + dy)), min(nx - 1, max(0, x + dx))
    if zero_min:          # source_min == 0 exactly (the boundary of the exponential -> linear switch)
        data = data - float(np.min(data[fp]))
    seg[fp] = label
    if kind == 'foreign' or rng.random() < 0.15:
        other = label + rng.choice([1, 5])
        free = ~fp
        seg[free & (np.array([[rng.random() < 0.6 for _ in range(nx)] for _ in range(ny)]))] = other
    return data, seg, label, kind, steer


def make_big_source(rng):
    """a cutout with more than 200 isolated one-pixel peaks (checkerboard, 4-connectivity, npixels = 1): the
    only way into the 'nmarkers' second pass (non-linear mode -> linear levels).  About 3.5 minutes of
    vm_compute (C04's neighbour lists are recomputed per propagation step), hence thorough tier only."""
    ny, nx = rng.choice([(20, 21), (21, 20), (14, 29)])
    yy, xx = np.mgrid[0:ny, 0:nx]
    data = np.ones((ny, nx))
    peaks = (yy + xx) % 2 == 0
    data[peaks] = np.array([rng.choice([4, 5, 6, 8]) for _ in range(int(peaks.sum()))], float)
    label = rng.choice([1, 3, 9])
    seg = np.full((ny, nx), label, dtype=np.int32)
    return data, seg, label, rng.choice(['exponential', 'sinh']), rng.randint(1, 2)


# --------------------------------------------------------------------------
# the real deblender under recording wrappers
# --------------------------------------------------------------------------
CASE_TIMEOUT = 20.0      # seconds of wall clock per real deblender call (backstop only)


class NonTermination(Exception):
    """the real per-source deblender does not stop: more watershed calls than pixels (the model's contrast
    loop removes one label per call, so it makes at most as many calls as there are marker labels), or the
    wall-clock backstop fired"""


def _alarm(signum, frame):
    raise NonTermination(f'no result within {CASE_TIMEOUT:g} s')


class _Recorder:
    def __init__(self):
        self.levels = []
        self.calls = []
        self.protocol = []

    def install(self):
        import skimage.segmentation as sks
        from photutils.segmentation import deblend as D
        self.sks, self.D = sks, D
        self.orig_ws = sks.watershed
        self.orig_det = D._detect_sources
        rec = self

        def watershed(image, markers=None, *args, **kwargs):
            if len(rec.calls) > rec.current['data'].size + 2:
                raise NonTermination(f'{len(rec.calls)} watershed calls for a cutout of '
                                     f'{rec.current["data"].size} pixels')
            out = rec.orig_ws(image, markers, *args, **kwargs)
            cur = rec.current
            ok = (not args and set(kwargs) == {'mask', 'connectivity'}
                  and np.array_equal(np.asarray(image), -cur['data'])
                  and np.array_equal(np.asarray(kwargs['mask']), cur['mask'])
                  and np.array_equal(np.asarray(kwargs['connectivity']), cur['footprint']))
            if not ok:
                rec.protocol.append('watershed called with arguments other than (-data, markers, '
                                    'mask=segment_mask, connectivity=footprint)')
            rec.calls.append((np.array(markers).copy(), np.array(out).copy()))
            return out

        def _detect_sources(data, threshold, npixels, footprint, inverse_mask, **kwargs):
            cur = rec.current
            ok = (np.array_equal(np.asarray(data), cur['data']) and npixels == cur['npixels']
                  and np.array_equal(np.asarray(footprint), cur['footprint'])
                  and inverse_mask is not None and np.array_equal(np.asarray(inverse_mask), cur['mask'])
                  and kwargs == {'relabel': False, 'return_segmimg': False} and np.ndim(threshold) == 0)
            if not ok:
                rec.protocol.append('_detect_sources called with arguments other than (data, level, npixels, '
                                    'footprint, segment_mask, relabel=False, return_segmimg=False)')
            rec.levels.append(float(threshold))
            return rec.orig_det(data, threshold, npixels, footprint, inverse_mask, **kwargs)

        sks.watershed = watershed
        D._detect_sources = _detect_sources

    def remove(self):
        self.sks.watershed = self.orig_ws
        self.D._detect_sources = self.orig_det


def run_real(rec, data, seg, label, npixels, nlevels, contrast, mode, connectivity):
    from photutils.segmentation.utils import _make_binary_structure
    D = rec.D
    footprint = _make_binary_structure(2, connectivity)
    rec.levels, rec.calls, rec.protocol = [], [], []
    rec.current = {'data': data.copy(), 'mask': seg == label, 'npixels': npixels, 'footprint': footprint}
    params = D._DeblendParams(npixels, footprint, nlevels, contrast, mode)
    data_in, seg_in = data.copy(), seg.copy()
    use_alarm = threading.current_thread() is threading.main_thread() and hasattr(signal, 'setitimer')
    if use_alarm:
        old_handler = signal.signal(signal.SIGALRM, _alarm)
        signal.setitimer(signal.ITIMER_REAL, CASE_TIMEOUT)
    try:
        with warnings.catch_warnings():
            warnings.simplefilter('ignore')
            deb = D._SingleSourceDeblender(data_in, seg_in, label, params)
            try:
                res = deb.deblend_source()
                code = 0 if res is None else 1
                exc = None
            except ValueError as e:
                res, code, exc = None, 2, repr(e)[:200]
    finally:
        if use_alarm:
            signal.setitimer(signal.ITIMER_REAL, 0)
            signal.signal(signal.SIGALRM, old_handler)
    warns = dict(deb.warnings)
    if not (np.array_equal(data_in, data) and np.array_equal(seg_in, seg)):
        rec.protocol.append('the deblender modified its input arrays')
    return {'code': code, 'children': None if res is None else np.asarray(res), 'exc': exc,
            'nonposmin': 'nonposmin' in warns, 'nmarkers': 'nmarkers' in warns,
            'levels': list(rec.levels), 'calls': list(rec.calls), 'protocol': list(rec.protocol)}


def c06_text_oracle(out, mask, npixels):
    """the C06 text on ONE parent: children exactly partition the parent's pixels, >= 2 children,
    each child >= npixels, labels 1..k.  Returns a list of violated clauses."""
    if out['code'] != 1:
        return []
    ch = out['children']
    bad = []
    if ch.shape != mask.shape or not np.array_equal(ch != 0, mask):
        bad.append('children do not cover exactly the parent footprint')
    labs = np.unique(ch[ch != 0]).tolist()
    if len(labs) < 2:
        bad.append('fewer than two children')
    if labs != list(range(1, len(labs) + 1)):
        bad.append('child labels are not 1..k')
    small = [int(l) for l in labs if int(np.count_nonzero(ch == l)) < npixels]
    if small:
        bad.append(f'children {small} have fewer than npixels={npixels} pixels')
    return bad


def case_term(data, seg, label, npixels, nlevels, contrast, mode, connectivity, out):
    ny, nx = data.shape
    mask = seg == label
    lv = out['levels']
    ths1 = lv[:nlevels]
    ths2 = lv[nlevels:2 * nlevels]
    calls = ';'.join(f'({zlist(m)}, {zlist(r)})' for m, r in out['calls'])
    children = zlist(out['children']) if out['code'] == 1 else '[]'
    return (f'({ny}, {nx}, {"true" if connectivity == 8 else "false"}, {npixels}, {zlist(data.astype(np.int64))}, '
            f'{blist(mask)}, {MODES.index(mode)}, {nlevels}, {qlit(contrast_eff(contrast))}, '
            f'[{";".join(qlit(t) for t in ths1)}], [{";".join(qlit(t) for t in ths2)}], [{calls}], '
            f'({out["code"]}, {children}, {"true" if out["nonposmin"] else "false"}, '
            f'{"true" if out["nmarkers"] else "false"}))')


def draw_params(rng, steer):
    mode = rng.choice(MODES)
    nlevels = steer.get('nlevels') if (steer.get('nlevels') and rng.random() < 0.7) else rng.randint(1, 8)
    if 'nlevels' in steer and rng.random() < 0.7:
        mode = 'linear'
    contrast = rng.choice(CONTRASTS)
    npixels = rng.choice([1, 1, 1, 2] if steer.get('kind') == 'many' else [1, 1, 2, 2, 3, 3, 4, 5, 6])
    connectivity = rng.choice([4, 8])
    return mode, nlevels, contrast, npixels, connectivity


def run_marker_correspondence(ctx, n_cases, include_big=None):
    """Returns a dict of counts; disagreements are reported through ctx.violation."""
    from . import core
    core.setup_repo_path()
    rng = random.Random((int(ctx.seed) + 1) * 2654435761 % (2 ** 32) + 0xC06)
    rec = _Recorder()
    rec.install()
    out_counts = {'cases': 0, 'deblended': 0, 'not_deblended': 0, 'guard_raised': 0, 'watershed_calls': 0,
                  'pruned_by_contrast': 0, 'disagreements': 0, 'text_violations': 0, 'protocol': 0}
    terms, meta = [], []
    try:
        for i in range(n_cases):
            out = exc = None
            for _attempt in range(4):
                # steering: sources without any marker are kept with probability 0.3 only
                data, seg, label, kind, steer = make_source(rng)
                mode, nlevels, contrast, npixels, connectivity = draw_params(rng, steer)
                mask = seg == label
                if not mask.any():
                    continue
                try:
                    out = run_real(rec, data, seg, label, npixels, nlevels, contrast, mode, connectivity)
                    exc = None
                except Exception as e:   # any other exception of the real code is a finding of its own
                    out, exc = None, e
                    break
                if out['calls'] or rng.random() < 0.3:
                    break
            if out is None and exc is None:
                continue
            if exc is not None:
                e = exc
                desc = {'data': data.tolist(), 'segment_data': seg.tolist(), 'label': label, 'npixels': npixels,
                        'nlevels': nlevels, 'contrast': contrast, 'mode': mode, 'connectivity': connectivity}
                if isinstance(e, NonTermination):
                    ctx.violation('correspondence:C06M_Model:non-termination',
                                  'the per-source deblender does not terminate on this input (' + str(e) + '); the '
                                  'model stops after at most one watershed call per marker label', desc,
                                  found_input=False)
                else:
                    ctx.violation('correspondence:C06M_Model:deblend_source-raises',
                                  'the per-source deblender raised ' + repr(e)[:200], desc, found_input=False)
                out_counts['disagreements'] += 1
                continue
            desc = {'kind': kind, 'data': data.tolist(), 'segment_data': seg.tolist(), 'label': int(label),
                    'npixels': npixels, 'nlevels': nlevels, 'contrast': contrast, 'mode': mode,
                    'connectivity': connectivity, 'levels': out['levels'],
                    'impl': {'code': out['code'], 'exc': out['exc'],
                             'children': None if out['children'] is None else out['children'].tolist(),
                             'nonposmin': out['nonposmin'], 'nmarkers': out['nmarkers'],
                             'watershed_calls': [(m.tolist(), r.tolist()) for m, r in out['calls']]}}
            # ---- direct oracles on the implementation ----
            textbad = c06_text_oracle(out, mask, npixels)
            desc['text_violations'] = textbad
            if textbad:
                out_counts['text_violations'] += 1
                ctx.violation('_SingleSourceDeblender.deblend_source:' + textbad[0].split(' ')[0],
                              'the per-source deblender result contradicts the C06 text: ' + '; '.join(textbad), desc)
            for msg in out['protocol']:
                out_counts['protocol'] += 1
                ctx.violation('correspondence:C06M_Model:protocol', msg, desc, found_input=False)
            lv_ok = len(out['levels']) in (0, nlevels, 2 * nlevels)
            if not lv_ok:
                out_counts['protocol'] += 1
                ctx.violation('correspondence:C06M_Model:protocol',
                              f'{len(out["levels"])} detections for nlevels={nlevels}', desc, found_input=False)
                continue
            if not all(math.isfinite(t) for t in out['levels']):
                out_counts['protocol'] += 1
                ctx.violation('correspondence:C06M_Model:protocol',
                              'a detection level handed to _detect_sources is not finite (the model has the '
                              'exponential -> linear switch for source_min <= 0)', desc, found_input=False)
                continue
            try:
                terms.append(case_term(data, seg, label, npixels, nlevels, contrast, mode, connectivity, out))
            except ValueError:
                ctx.stat('markers', 'skipped:level_with_long_numeral')
                continue
            meta.append(desc)
            out_counts['cases'] += 1
            out_counts[{0: 'not_deblended', 1: 'deblended', 2: 'guard_raised'}[out['code']]] += 1
            out_counts['watershed_calls'] += len(out['calls'])
            if len(out['calls']) > 1:
                out_counts['pruned_by_contrast'] += 1
            nm = 0 if not out['calls'] else len(np.unique(out['calls'][0][0][out['calls'][0][0] != 0]))
            ctx.stat('markers', f'kind={kind}')
            ctx.stat('markers', f'mode={mode}')
            ctx.stat('markers', f'nlevels={nlevels}')
            ctx.stat('markers', f'contrast={contrast}')
            ctx.stat('markers', f'npixels={npixels}')
            ctx.stat('markers', f'connectivity={connectivity}')
            ctx.stat('markers', f'result={("None", "children", "ValueError")[out["code"]]}')
            ctx.stat('markers', f'first_markers={min(nm, 6)}{"+" if nm >= 6 else ""}')
            ctx.stat('markers', f'watershed_calls={min(len(out["calls"]), 4)}{"+" if len(out["calls"]) >= 4 else ""}')
            if out['code'] == 1:
                ctx.stat('markers', f'children={len(np.unique(out["children"][out["children"] != 0]))}')
            if out['nonposmin']:
                ctx.stat('markers', 'warning=nonposmin')
            if out['nmarkers']:
                ctx.stat('markers', 'warning=nmarkers')
            ctx.count_case(['C06M', kind, mode, nlevels, contrast, npixels, connectivity, core.sha(desc['data']),
                            core.sha(desc['segment_data'])], bool(out['calls']))
    finally:
        rec.remove()
    if meta and len(ctx.cov['samples']) < 8:
        m0 = next((m for m in meta if m['impl']['code'] == 1), meta[0])
        ctx.sample({'marker_case': m0}, limit=8)
    if not terms:
        return out_counts
    bad = ctx.coq_eval_cases(IMPORTS, 'check_case', terms, case_type='case', tag='c06m', shard_numerals=6000)
    out_counts['disagreements'] += len(bad)
    for i in bad[:10]:
        try:
            model = ctx.coq_eval_term(IMPORTS, f'(model_out ({terms[i]}), check_parts ({terms[i]}))', tag='c06m_detail')
        except Exception as e:      # diagnostics only
            model = repr(e)[:300]
        m = meta[i]
        ctx.violation('correspondence:C06M_Model.check_case',
                      'the per-source deblender (markers handed to watershed / watershed contract / children / '
                      'warnings / levels) differs from the model',
                      {'case': m, 'model (result, nonposmin, nmarkers, first markers, watershed marker arrays), '
                                  'check parts': model}, found_input=False)
    if include_big if include_big is not None else getattr(ctx, 'tier', 'quick') == 'thorough':
        out_counts['second_pass_cases'] = _run_big(ctx, rng, out_counts)
    else:
        ctx.stat('markers', 'second_pass(>200 markers): modelled, not exercised in this tier')
    for k, v in out_counts.items():
        ctx.stat('markers_totals', k, v)
    return out_counts


def _run_big(ctx, rng, out_counts):
    """one source that reaches the > 200 markers second pass (thorough tier)"""
    rec = _Recorder()
    rec.install()
    try:
        data, seg, label, mode, nlevels = make_big_source(rng)
        out = run_real(rec, data, seg, label, 1, nlevels, 0.0, mode, 4)
    finally:
        rec.remove()
    desc = {'kind': 'big', 'shape': list(data.shape), 'data': data.tolist(), 'label': int(label), 'npixels': 1,
            'nlevels': nlevels, 'contrast': 0.0, 'mode': mode, 'connectivity': 4, 'levels': out['levels'],
            'impl': {'code': out['code'], 'nmarkers': out['nmarkers'], 'watershed_calls': len(out['calls'])}}
    if not out['nmarkers'] or len(out['levels']) != 2 * nlevels:
        ctx.violation('correspondence:C06M_Model:protocol',
                      'a source with more than 200 one-pixel peaks did not take the nmarkers second pass', desc,
                      found_input=False)
        out_counts['protocol'] += 1
        return 0
    for msg in out['protocol']:
        out_counts['protocol'] += 1
        ctx.violation('correspondence:C06M_Model:protocol', msg, desc, found_input=False)
    term = case_term(data, seg, label, 1, nlevels, 0.0, mode, 4, out)
    bad = ctx.coq_eval_cases(IMPORTS, 'check_case', [term], case_type='case', tag='c06m_big', timeout=1500)
    ctx.stat('markers', 'second_pass(>200 markers)=exercised')
    ctx.stat('markers', 'warning=nmarkers')
    ctx.count_case(['C06M', 'big', mode, nlevels, core_sha(desc['data'])], True)
    if bad:
        out_counts['disagreements'] += 1
        ctx.violation('correspondence:C06M_Model.check_case',
                      'the per-source deblender differs from the model on a source that takes the > 200 markers '
                      'second pass', {'case': desc}, found_input=False)
    return 1


def core_sha(obj):
    from . import core
    return core.sha(obj)


def main(argv=None):
    """Standalone: python -m harness.c06m [n_cases] [seed]  (uses a private work directory)."""
    import json
    import sys
    from . import core
    argv = sys.argv[1:] if argv is None else argv
    n = int(argv[0]) if argv else 120
    seed = int(argv[1]) if len(argv) > 1 else 0
    core.setup_repo_path()
    ctx = core.Ctx('C06M', 'quick', seed)
    ok, log, missing = core.build_files(['lib/Cases.v', 'lib/Conn.v', 'C04_Model.v', 'C04_PathModel.v', 'C06M_Model.v'])
    if missing:
        print(log[-2000:])
        return 2
    out = run_marker_correspondence(ctx, n, include_big=('big' in argv[2:]))
    print(json.dumps({'result': out, 'distribution': ctx.cov['correspondence']}, indent=1))
    for sig, what, path, found in ctx.violations:
        print('VIOLATION' if found else 'DISAGREEMENT', sig, what, path)
    return 1 if ctx.violations else 0


if __name__ == '__main__':
    raise SystemExit(main())
