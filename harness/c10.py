"""C10 — no public call modifies the arrays, tables or models passed to it.

Three parts (see DESIGN.md section 5, C10):

 V  the direct dynamic check of the property (needs no model): scenarios covering the public
    entry points and lazily evaluated properties; every caller-supplied object is deep-
    snapshotted before each call / property read and compared bit for bit after it returned
    or raised, across argument representations and data conditions.
 T  harness/c10_translate.py regenerates, from the CURRENT source text under VERIF_REPO, the
    array-effects IR (coq/C10_Model.v) of the scoped functions; the per-run obligations
    `accepts params (IR of f) = true` are evaluated inside Coq (vm_compute).  The theorem
    C10_Properties.analysis_sound makes an accepted IR leave every parameter buffer untouched.
 K  the numpy/astropy operation table used by the translator is executed row by row on real
    arrays (np.shares_memory / write-through / argument unchanged), and for every scoped
    function the observed aliasing between result and arguments must be predicted by the
    analysis (observed => predicted, checked inside Coq by check_case).
"""
import hashlib
import json
import random
import warnings

import numpy as np

from .core import coq, Raw

PID = 'C10'
FILES = ['lib/Cases.v', 'C10_Model.v', 'C10_Proofs.v', 'C10_Properties.v']


# ==========================================================================
# deep snapshots
# ==========================================================================
def _arr(a):
    a = np.asarray(a)
    if a.dtype == object:
        return ('O', a.shape, tuple(snap(x) for x in a.ravel()))
    return ('A', a.dtype.str, a.shape, hashlib.sha1(np.ascontiguousarray(a).tobytes()).hexdigest())


class Cache(dict):
    """Snapshots of already-cached lazy values: compared on the keys present before AND after."""


_LAZY = {}


def _lazy_names(cls):
    """Names of the lazyproperty caches of a class (they live in the instance __dict__)."""
    if cls not in _LAZY:
        from astropy.utils import lazyproperty
        names = set()
        for c in cls.__mro__:
            for k, v in vars(c).items():
                if isinstance(v, lazyproperty):
                    names.add(k)
        _LAZY[cls] = names
    return _LAZY[cls]


# helper objects handed to photutils (estimators, SigmaClip, interpolators, finders, groupers, fitters,
# local-background estimators, window functions ...) are caller-supplied objects like any other: their
# PUBLIC attributes are snapshotted by value.  Not watched: underscore attributes that are not arrays
# (scratch state such as LocalBackground._aperture) and `fit_info` of an astropy fitter (updated by the
# fitter's own __call__, the documented in-place effect of calling a fitter).
HELPER_CLASSES = ('SigmaClip',)
STATE_SKIP = ('fit_info',)


def _state(o, depth, skip=()):
    items = []
    d = getattr(o, '__dict__', None) or {}
    for k in sorted(d):
        if k.startswith('_') or k in skip or k in STATE_SKIP:
            continue
        v = d[k]
        if callable(v) and not hasattr(v, '__dict__'):
            items.append((k, ('py', 'callable', getattr(v, '__name__', type(v).__name__))))
        elif depth > 3:
            items.append((k, ('py', type(v).__name__, repr(v)[:80] if not hasattr(v, '__dict__') else '')))
        else:
            items.append((k, snap(v, depth + 1)))
    return ('state', type(o).__name__, tuple(items))


def snap(o, depth=0):
    """Deep, comparable description of a caller-supplied object: values (bitwise), dtype,
    shape, mask, fill value, unit, table columns and meta, model parameters and constraints,
    aperture geometry, segmentation data."""
    import astropy.units as u
    from astropy.nddata import NDData
    from astropy.table import Table
    from astropy.modeling import Model
    from astropy.convolution import Kernel
    if depth > 6:
        return ('deep',)
    if o is None or isinstance(o, (bool, int, float, complex, str, bytes)):
        return ('py', type(o).__name__, repr(o))
    if isinstance(o, np.generic):
        return ('np', o.dtype.str, repr(o.item()) if o.dtype != object else repr(o))
    if isinstance(o, Table):
        return ('T', type(o).__name__, tuple(o.colnames),
                tuple(snap(o[c], depth + 1) for c in o.colnames),
                repr(sorted((str(k), repr(v)) for k, v in o.meta.items())))
    if isinstance(o, u.Quantity):
        return ('Q', str(o.unit), _arr(o.view(np.ndarray)))
    if isinstance(o, np.ma.MaskedArray):
        m = np.ma.getmask(o)
        return ('MA', _arr(np.ma.getdata(o).view(np.ndarray)), 'nomask' if m is np.ma.nomask else _arr(m),
                repr(o.fill_value), bool(o.hardmask), snap(getattr(o, 'unit', None)))
    if isinstance(o, np.ndarray):
        return _arr(o.view(np.ndarray)) + ((str(getattr(o, 'unit', None)),) if hasattr(o, 'unit') else ())
    if isinstance(o, NDData):
        unc = o.uncertainty
        return ('ND', snap(o.data, depth + 1), snap(o.mask, depth + 1),
                None if unc is None else (type(unc).__name__, snap(unc.array, depth + 1), str(unc.unit)),
                str(o.unit), repr(sorted((str(k), repr(v)) for k, v in dict(o.meta).items())))
    if isinstance(o, Kernel):
        return ('K', type(o).__name__, _arr(o.array))
    if isinstance(o, Model):
        items = []
        lazy = _lazy_names(type(o))
        for k in sorted(o.__dict__):
            v = o.__dict__[k]
            # astropy keeps `_parameters` as a lazily synchronised mirror of the Parameter
            # objects (compared below through the public `parameters`); lazyproperty caches are
            # not the caller's data
            if isinstance(v, np.ndarray) and k != '_parameters' and k not in lazy:
                items.append((k, snap(v, depth + 1)))
        sub = ()
        if hasattr(o, 'left') and hasattr(o, 'right'):
            sub = (snap(o.left, depth + 1), snap(o.right, depth + 1))
        return ('M', type(o).__name__, tuple(o.param_names), _arr(o.parameters),
                repr(sorted(o.fixed.items())), repr(sorted(o.bounds.items())),
                repr(sorted((k, v is not None and v is not False) for k, v in o.tied.items())),
                tuple(items), sub)
    mod = type(o).__module__ or ''
    if mod.startswith('photutils'):
        from photutils.aperture import Aperture
        from photutils.segmentation import SegmentationImage
        if isinstance(o, Aperture):
            try:
                bb = repr(o.bbox)
            except Exception:
                bb = 'n/a'
            return ('Ap', type(o).__name__, snap(o.positions, depth + 1),
                    tuple((p, snap(getattr(o, p), depth + 1)) for p in o._params), bb)
        if isinstance(o, SegmentationImage):
            return ('Seg', snap(o._data, depth + 1))
        items = []
        cache = Cache()
        lazy = _lazy_names(type(o))
        for k in sorted(getattr(o, '__dict__', {})):
            v = o.__dict__[k]
            if k in lazy:
                # values already cached by a lazyproperty (e.g. a detection catalog whose properties
                # were read by the caller): filling a cache is not a modification, CHANGING a value
                # that is already there is
                # (public names only: underscore caches are the object's scratch space, e.g. the work
                # apertures of SourceCatalog._fluxfrac_optimizer_args whose radius is varied by design)
                if not k.startswith('_') and (isinstance(v, (np.ndarray, Table))
                                              or (isinstance(v, (list, tuple)) and len(v) < 200)):
                    cache[k] = snap(v, depth + 1)
            elif isinstance(v, (np.ndarray, Table, NDData)):
                items.append((k, snap(v, depth + 1)))
        return ('obj', type(o).__name__, tuple(items), cache, _state(o, depth, skip=lazy)[2])
    if isinstance(o, (list, tuple)):
        return ('L', type(o).__name__, tuple(snap(x, depth + 1) for x in o))
    if isinstance(o, dict):
        return ('D', tuple((repr(k), snap(v, depth + 1)) for k, v in sorted(o.items(), key=lambda kv: repr(kv[0]))))
    import inspect
    if hasattr(o, '__dict__') and not (inspect.isroutine(o) or inspect.isclass(o) or inspect.ismodule(o)):
        return _state(o, depth)
    return ('other', type(o).__name__)


def diff(a, b, path=''):
    """First difference between two snapshots as a short text (None if equal)."""
    if a == b:
        return None
    if isinstance(a, Cache) and isinstance(b, Cache):
        for k in a:
            if k in b and a[k] != b[k]:
                d = diff(a[k], b[k], f'{path}.<cached>{k}')
                if d is not None:
                    return d
        return None
    if (type(a) != type(b) or not isinstance(a, tuple) or len(a) != len(b)
            or (a and b and isinstance(a[0], str) and a[0] != b[0])):
        return f'{path}: {str(a)[:80]} -> {str(b)[:80]}'
    tag = a[0] if a and isinstance(a[0], str) else ''
    names = {'MA': ['', 'data', 'mask', 'fill_value', 'hardmask', 'unit'],
             'A': ['', 'dtype', 'shape', 'bytes', 'unit'], 'Q': ['', 'unit', 'value'],
             'ND': ['', 'data', 'mask', 'uncertainty', 'unit', 'meta'],
             'T': ['', 'class', 'colnames', 'columns', 'meta'],
             'M': ['', 'class', 'param_names', 'parameters', 'fixed', 'bounds', 'tied', 'arrays', 'submodels'],
             'Ap': ['', 'class', 'positions', 'params', 'bbox'], 'Seg': ['', 'data'], 'K': ['', 'class', 'array']}.get(tag, [])
    only_cache_growth = False
    for i, (x, y) in enumerate(zip(a, b)):
        if x != y:
            nm = names[i] if i < len(names) else str(i)
            if (isinstance(x, tuple) and isinstance(y, tuple) and len(x) == 2 and len(y) == 2
                    and isinstance(x[0], str) and x[0] == y[0] and isinstance(x[1], tuple)):
                d = diff(x[1], y[1], f'{path}.{x[0]}')      # (name, snapshot) pair
            elif isinstance(x, (tuple, Cache)) and isinstance(y, (tuple, Cache)):
                d = diff(x, y, f'{path}.{nm}')
            else:
                d = f'{path}.{nm}: {str(x)[:60]} -> {str(y)[:60]}'
            if d is not None:
                return d
            only_cache_growth = True      # the only change below was a newly filled cache
    return None if only_cache_growth else f'{path}: differ'


# ==========================================================================
# scene and argument representations
# ==========================================================================
DATA_KINDS = ['ndarray', 'masked', 'masked_nomask', 'quantity', 'view', 'readonly', 'float32', 'nddata']
CONDS = ['clean', 'neg', 'nonfinite', 'neg+nonfinite']
MASK_KINDS = ['none', 'array', 'allfalse', 'readonly', 'view']
ERR_KINDS = ['none', 'array', 'nonfinite', 'readonly']


class Skip(Exception):
    pass


class Env:
    """One scenario run: builds the caller-supplied objects in the chosen representation,
    registers them, and checks them around every call."""

    def __init__(self, name, variant, seed, report, stat=None, count=None):
        self.name = name
        self.v = variant
        self.seed = seed
        self.rng = random.Random(seed)
        self.nrng = np.random.default_rng(seed)
        self.objs = {}
        self.report = report          # callable(signature, what, detail)
        self.stat = stat or (lambda *a, **k: None)
        self.count = count or (lambda *a, **k: None)
        self.ncalls = 0
        self.nraise = 0
        self.ro_traps = []
        self.exc_log = []
        self.unit = None
        self.shape = (41, 43)
        self.stars = [(12.3, 11.6, 90.0), (30.2, 14.1, 140.0), (21.7, 29.4, 110.0), (33.6, 31.2, 70.0)]

    def near(self, i, dy, dx):
        """Index of a pixel near star i (clipped to the frame)."""
        xc, yc, _ = self.stars[i % len(self.stars)]
        return (min(max(int(yc) + dy, 0), self.shape[0] - 1), min(max(int(xc) + dx, 0), self.shape[1] - 1))

    # ---- registration ----
    def reg(self, name, obj):
        self.objs[name] = obj
        return obj

    def size(self, name, value):
        """A size / shape parameter (box_size, fit_shape, border_width ...): plain Python value or, half
        of the time, a caller-owned integer ndarray (1- or 2-element), which is watched."""
        r = self.rng.random()
        if r < 0.5:
            return value
        arr = np.array(value if np.ndim(value) else ([value, value] if r < 0.8 else value), dtype=int)
        if r > 0.9:
            arr = arr.astype(np.int32)
        return self.reg(name, arr)

    def unwatch(self, name):
        self.objs.pop(name, None)

    def compare_table(self, name, new):
        """A table produced again by a caller-supplied object must equal the one produced before."""
        d = diff(snap(self.objs[name]), snap(new), name)
        if d is not None:
            self.report(f'{self.name}:{name}:changed', f'{self.name}: `{name}` of a caller-supplied object differs '
                        f'from what it returned before the calls ({d})',
                        {'scenario': self.name, 'variant': self.v, 'seed': self.seed, 'label': name, 'object': name,
                         'difference': d, 'outcome': 'returned', 'cmd': 'bin/check C10 --replay <this file>'})

    # ---- builders ----
    def plain_image(self, cond=None, sigma=1.6, bkg=5.0, noise=0.5):
        cond = self.v.get('cond', 'clean') if cond is None else cond
        ny, nx = self.shape
        y, x = np.mgrid[0:ny, 0:nx]
        img = np.full((ny, nx), bkg) + self.nrng.normal(0, noise, (ny, nx))
        for (xc, yc, amp) in self.stars:
            img += amp * np.exp(-((x - xc) ** 2 + (y - yc) ** 2) / (2 * sigma ** 2))
        if 'neg' in cond:
            img -= bkg + 3.0        # negative sky, so negative pixels sit inside star cutouts
        if 'nonfinite' in cond:
            img[2, 3] = np.nan
            img[self.near(0, 2, 1)] = np.nan    # next to a star
            img[self.near(1, -3, 0)] = np.inf
            img[ny - 2, nx - 4] = -np.inf
        return img

    def wrap(self, name, arr, kind, unit='adu', regbase=True):
        """Put a plain float ndarray into the requested representation and register it."""
        import astropy.units as u
        arr = np.array(arr)
        if kind in ('ndarray', 'array'):
            obj = arr
        elif kind == 'float32':
            obj = arr.astype(np.float32)
        elif kind == 'readonly':
            obj = arr
            obj.setflags(write=False)
        elif kind == 'view':
            big = np.zeros((arr.shape[0] + 4, 2 * arr.shape[1] + 6), dtype=arr.dtype)
            big[:] = 7 if arr.dtype != bool else False
            obj = big[2:-2, 3:-3:2]
            obj[...] = arr
            if regbase:
                self.reg(name + '.base', big)
        elif kind == 'masked':
            m = np.zeros(arr.shape, bool)
            m[1, 1] = True
            m[-3:, -2:] = True
            obj = np.ma.MaskedArray(arr, mask=m)
        elif kind == 'masked_nomask':
            obj = np.ma.MaskedArray(arr)
        elif kind == 'quantity':
            self.unit = u.Unit(unit)
            obj = arr << self.unit
        elif kind == 'nddata':
            from astropy.nddata import NDData
            obj = NDData(arr)
        else:
            raise ValueError(kind)
        return self.reg(name, obj)

    def data(self, name='data', kinds=None, cond=None, **kw):
        kind = self.v.get('data', 'ndarray')
        if kinds is not None and kind not in kinds:
            raise Skip(f'data kind {kind}')
        self.plain = self.plain_image(cond, **kw)
        return self.wrap(name, self.plain, kind)

    def like(self, name, arr, kind='ndarray'):
        """Companion array (error, background, threshold): same unit as the data if any."""
        obj = self.wrap(name, arr, kind) if kind not in ('ndarray',) else np.array(arr)
        if self.unit is not None and kind in ('ndarray', 'readonly', 'view'):
            obj = np.array(arr) << self.unit
            if kind == 'readonly':
                obj.setflags(write=False)
        return self.reg(name, obj)

    def mask(self, name='mask', shape=None, force=None):
        kind = force or self.v.get('mask', 'none')
        if kind == 'none':
            return None
        shape = shape or self.shape
        m = np.zeros(shape, bool)
        if kind != 'allfalse':
            m[0:2, 0:3] = True
            m[shape[0] // 2, shape[1] // 2] = True
            if tuple(shape) == tuple(self.shape):
                m[self.near(3, 0, 2)] = True
        k = {'array': 'ndarray', 'allfalse': 'ndarray'}.get(kind, kind)
        return self.wrap(name, m, k)

    def error(self, name='error', shape=None, force=None):
        kind = force or self.v.get('error', 'none')
        if kind == 'none':
            return None
        shape = shape or self.shape
        e = 1.0 + 0.1 * self.nrng.random(shape)
        if kind == 'nonfinite':
            e[4, 5] = np.nan
            if tuple(shape) == tuple(self.shape):
                e[self.near(2, 1, 0)] = np.inf
        return self.like(name, e, 'readonly' if kind == 'readonly' else 'ndarray')

    # ---- the check around one call ----
    def call(self, label, thunk):
        before = {n: snap(o) for n, o in self.objs.items()}
        exc = None
        res = None
        with warnings.catch_warnings():
            warnings.simplefilter('ignore')
            try:
                with np.errstate(all='ignore'):
                    res = thunk()
            except Skip:
                raise
            except Exception as e:     # the property also covers "or raises"
                exc = e
        self.ncalls += 1
        self.count([self.name, label, sorted(self.v.items()), self.seed], True)
        if exc is not None:
            self.nraise += 1
            self.exc_log.append((label, f'{type(exc).__name__}: {str(exc)[:150]}'))
            if 'read-only' in str(exc) or 'readonly' in str(exc).replace('-', ''):
                self.ro_traps.append(label)
        for n, o in self.objs.items():
            d = diff(before[n], snap(o), n)
            if d is not None:
                self.report(f'{self.name}:{label}:{n}',
                            f'{self.name} / {label}: caller-supplied `{n}` differs after the call '
                            f'{"raised " + type(exc).__name__ if exc is not None else "returned"} ({d})',
                            {'scenario': self.name, 'variant': self.v, 'seed': self.seed, 'label': label,
                             'object': n, 'difference': d,
                             'outcome': 'raised ' + repr(exc)[:200] if exc is not None else 'returned',
                             'cmd': 'bin/check C10 --replay <this file>'})
                before[n] = snap(o)
        self.last_exc = exc
        return res

    def props(self, obj, names, prefix=''):
        """Read lazily evaluated properties one at a time (each read is a checked call)."""
        for nm in names:
            self.call(prefix + nm, lambda nm=nm: getattr(obj, nm))


# ==========================================================================
# scenarios: public entry points and lazily evaluated properties
# ==========================================================================
ARR = ['ndarray', 'masked', 'masked_nomask', 'quantity', 'view', 'readonly', 'float32']
PLAIN = ['ndarray', 'view', 'readonly', 'float32']
SCENARIOS = {}


def scenario(name, **axes):
    ax = {'data': ARR, 'cond': CONDS, 'mask': MASK_KINDS, 'error': ERR_KINDS}
    ax.update(axes)

    def deco(f):
        SCENARIOS[name] = (f, {k: v for k, v in ax.items() if v})
        return f
    return deco


def _xy(E):
    return [(s[0], s[1]) for s in E.stars]


# ---------------- centroids ----------------
def _cutout_scene(E):
    E.shape = (15, 17)
    E.stars = [(8.3, 6.7, 100.0)]


@scenario('centroid_com')
def s_centroid_com(E):
    from photutils.centroids import centroid_com
    _cutout_scene(E)
    data, mask = E.data(), E.mask()
    E.call('call', lambda: centroid_com(data, mask=mask))


@scenario('centroid_quadratic', opt=['auto', 'peak', 'search'])
def s_centroid_quadratic(E):
    from photutils.centroids import centroid_quadratic
    _cutout_scene(E)
    data, mask = E.data(), E.mask()
    kw = {}
    if E.v['opt'] != 'auto':
        kw = dict(xpeak=8, ypeak=7)
    if E.v['opt'] == 'search':
        kw['search_boxsize'] = E.size('search_boxsize', 5)
    kw['fit_boxsize'] = E.size('fit_boxsize', 5)
    E.call('call', lambda: centroid_quadratic(data, mask=mask, **kw))


@scenario('centroid_1dg')
def s_centroid_1dg(E):
    from photutils.centroids import centroid_1dg
    _cutout_scene(E)
    data, mask, error = E.data(), E.mask(), E.error()
    E.call('call', lambda: centroid_1dg(data, error=error, mask=mask))


@scenario('centroid_2dg')
def s_centroid_2dg(E):
    from photutils.centroids import centroid_2dg
    _cutout_scene(E)
    data, mask, error = E.data(), E.mask(), E.error()
    E.call('call', lambda: centroid_2dg(data, error=error, mask=mask))


@scenario('centroid_sources', func=['com', 'quadratic', '1dg', '2dg'], fp=['box', 'footprint'])
def s_centroid_sources(E):
    from photutils.centroids import (centroid_sources, centroid_com, centroid_quadratic, centroid_1dg,
                                     centroid_2dg)
    func = {'com': centroid_com, 'quadratic': centroid_quadratic, '1dg': centroid_1dg,
            '2dg': centroid_2dg}[E.v['func']]
    data, mask = E.data(), E.mask()
    kw = {}
    if E.v['func'] in ('1dg', '2dg'):
        err = E.error()
        if err is not None:
            kw['error'] = err
    xpos = E.reg('xpos', np.array([s[0] for s in E.stars]).round())
    ypos = E.reg('ypos', np.array([s[1] for s in E.stars]).round())
    if E.v['fp'] == 'footprint':
        fp = np.ones((9, 9), bool)
        fp[0, 0] = fp[-1, -1] = False
        kw['footprint'] = E.reg('footprint', fp)
    else:
        kw['box_size'] = E.size('box_size', 9)
    E.call('call', lambda: centroid_sources(data, xpos, ypos, mask=mask, centroid_func=func, **kw))


# ---------------- detection ----------------
@scenario('find_peaks', opt=['plain', 'footprint', 'centroid', 'threshold2d'])
def s_find_peaks(E):
    from photutils.detection import find_peaks
    from photutils.centroids import centroid_com
    data, mask = E.data(), E.mask()
    kw = {}
    thr = 20.0 if E.unit is None else 20.0 * E.unit
    if E.v['opt'] == 'footprint':
        kw['footprint'] = E.reg('footprint', np.ones((5, 5), bool))
    elif E.v['opt'] == 'centroid':
        kw['centroid_func'] = centroid_com
        err = E.error()
        if err is not None:
            kw['error'] = err
    elif E.v['opt'] == 'threshold2d':
        thr = E.like('threshold', np.full(E.shape, 20.0), 'readonly' if E.v['data'] == 'readonly' else 'ndarray')
    if 'footprint' not in kw:
        kw['box_size'] = E.size('box_size', 5)
    if E.rng.random() < 0.5:
        kw['border_width'] = E.size('border_width', 2)
    E.call('call', lambda: find_peaks(data, thr, mask=mask, **kw))


@scenario('DAOStarFinder', error=None, opt=['plain', 'xycoords', 'brightest'])
def s_dao(E):
    from photutils.detection import DAOStarFinder
    data, mask = E.data(), E.mask()
    kw = {}
    if E.v['opt'] == 'xycoords':
        kw['xycoords'] = E.reg('xycoords', np.array(_xy(E)).round())
    elif E.v['opt'] == 'brightest':
        kw.update(brightest=2, peakmax=1000.0 if E.unit is None else 1000.0 * E.unit)
    thr = 10.0 if E.unit is None else 10.0 * E.unit
    finder = E.call('init', lambda: DAOStarFinder(thr, 3.5, **kw))
    if finder is not None:
        E.call('find_stars', lambda: finder(data, mask=mask))


@scenario('IRAFStarFinder', error=None, opt=['plain', 'xycoords', 'brightest'])
def s_iraf(E):
    from photutils.detection import IRAFStarFinder
    data, mask = E.data(), E.mask()
    kw = {}
    if E.v['opt'] == 'xycoords':
        kw['xycoords'] = E.reg('xycoords', np.array(_xy(E)).round())
    elif E.v['opt'] == 'brightest':
        kw.update(brightest=2)
    thr = 10.0 if E.unit is None else 10.0 * E.unit
    finder = E.call('init', lambda: IRAFStarFinder(thr, 3.5, **kw))
    if finder is not None:
        E.call('find_stars', lambda: finder(data, mask=mask))


@scenario('StarFinder', error=None, kernel=['max1', 'max3', 'readonly', 'int'])
def s_starfinder(E):
    from photutils.detection import StarFinder
    data, mask = E.data(), E.mask()
    y, x = np.mgrid[0:7, 0:7]
    k = np.exp(-((x - 3) ** 2 + (y - 3) ** 2) / (2 * 1.6 ** 2))
    if E.v['kernel'] == 'max3':
        k = k * 3.0
    elif E.v['kernel'] == 'int':
        k = np.round(k * 10).astype(int)
    elif E.v['kernel'] == 'readonly':
        k = k * 2.0
        k.setflags(write=False)
    kernel = E.reg('kernel', k)
    thr = 5.0 if E.unit is None else 5.0 * E.unit
    finder = E.call('init', lambda: StarFinder(thr, kernel, min_separation=3.0))
    if finder is not None:
        E.call('find_stars', lambda: finder(data, mask=mask))
        E.call('find_stars_again', lambda: finder(data, mask=mask))


# ---------------- background ----------------
@scenario('Background2D', data=ARR + ['nddata'], error=None, cov=['none', 'coverage'],
          est=['default', 'mean', 'median', 'mmm', 'biweight', 'mode'], interp=['zoom', 'idw'],
          filt=['plain', 'threshold'], box=['10', '10', 'full', 'exact', 'edge_crop'])
def s_background2d(E):
    from photutils.background import (Background2D, MeanBackground, MedianBackground, MMMBackground,
                                      BiweightLocationBackground, ModeEstimatorBackground,
                                      MADStdBackgroundRMS, BiweightScaleBackgroundRMS, BkgIDWInterpolator,
                                      BkgZoomInterpolator)
    from astropy.stats import SigmaClip
    if E.v['box'] in ('exact', 'full'):
        E.shape = (40, 40)          # an integer number of boxes: no padded edge, reshapes can be views
    data, mask = E.data(), E.mask()
    box = E.shape if E.v['box'] == 'full' else (10, 10)
    kw = {}
    if E.v['box'] == 'edge_crop':
        kw['edge_method'] = 'crop'
    if E.v['box'] == 'full':
        kw['exclude_percentile'] = 100.0
    if E.v['cov'] == 'coverage':
        c = np.zeros(E.shape, bool)
        c[:, :4] = True
        kw['coverage_mask'] = E.reg('coverage_mask', c)
        kw['fill_value'] = -1.0
    est = {'default': None, 'mean': MeanBackground(), 'median': MedianBackground(), 'mmm': MMMBackground(),
           'biweight': BiweightLocationBackground(), 'mode': ModeEstimatorBackground()}[E.v['est']]
    if est is not None:
        kw['bkg_estimator'] = est
        kw['bkgrms_estimator'] = (MADStdBackgroundRMS() if E.v['est'] in ('mean', 'median')
                                  else BiweightScaleBackgroundRMS())
    kw['interpolator'] = BkgIDWInterpolator() if E.v['interp'] == 'idw' else BkgZoomInterpolator()
    if E.v['filt'] == 'threshold':
        kw['filter_threshold'] = 6.0
    for nm_ in ('bkg_estimator', 'bkgrms_estimator', 'interpolator'):
        if nm_ in kw:
            E.reg(nm_, kw[nm_])
    kw['sigma_clip'] = E.reg('sigma_clip', SigmaClip(sigma=3.0, maxiters=5)) if E.rng.random() < 0.7 else None
    box = E.size('box_size', box)
    fs = E.size('filter_size', 3 if E.v['box'] != 'full' else 1)
    bkg = E.call('init', lambda: Background2D(data, box, mask=mask, filter_size=fs, **kw))
    for nm_ in ('bkg_estimator', 'bkgrms_estimator'):
        if nm_ in kw:      # the caller's estimator still behaves as before
            E.call(nm_ + '.call', lambda nm_=nm_: kw[nm_](np.asarray(E.plain)))
    if bkg is not None:
        names = ['background', 'background_rms', 'background_mesh', 'background_rms_mesh',
                 'background_median', 'background_rms_median', 'mesh_nmasked', 'npixels_mesh',
                 'npixels_map', 'background_mesh_masked', 'background_rms_mesh_masked']
        E.rng.shuffle(names)
        E.props(bkg, [n for n in names if hasattr(type(bkg), n)])


BOXK = ['divides', 'two_boxes', 'equals', 'nodivide', 'larger']


@scenario('Background2D_blocks', data=None, cond=None, mask=None, error=None, ybox=BOXK, xbox=BOXK,
          order=['C', 'C', 'F', 'view'], msk=['none', 'array', 'readonly'], cov=['none', 'coverage'],
          outliers=['yes', 'yes', 'no'], clip=['default', 'none'], edge=['pad', 'crop'],
          est=['default', 'median', 'mean'], shape=['40x30', '30x40', '36x36'])
def s_background2d_blocks(E):
    """Blockwise code paths: box size chosen per axis independently (divides the axis / two
    boxes / equals the axis / does not divide / larger than the axis), C- and F-contiguous float64
    input, with masked, coverage-masked and sigma-clipped pixels that carry finite values."""
    from astropy.stats import SigmaClip
    from photutils.background import Background2D, MedianBackground, MeanBackground, MADStdBackgroundRMS
    ny, nx = [int(t) for t in E.v['shape'].split('x')]
    E.shape = (ny, nx)

    def box(kind, n):
        small = [d for d in (10, 6, 5, 4, 3) if n % d == 0][0]
        return {'divides': small, 'two_boxes': n // 2, 'equals': n, 'nodivide': [d for d in (7, 11, 13) if n % d][0],
                'larger': n + 5}[kind]
    bs = (box(E.v['ybox'], ny), box(E.v['xbox'], nx))
    img = E.nrng.normal(10.0, 1.0, (ny, nx))
    if E.v['outliers'] == 'yes':
        img[3, 4] = 5000.0
        img[ny // 2, nx // 2] = -4000.0
        img[-2, -2] = 7000.0
        img[ny // 3, 1] = 900.0
    if E.v['order'] == 'F':
        data = E.reg('data', np.asfortranarray(img))
    elif E.v['order'] == 'view':
        data = E.wrap('data', img, 'view')
    else:
        data = E.reg('data', np.ascontiguousarray(img))
    kw = {}
    if E.v['msk'] != 'none':
        m = np.zeros((ny, nx), bool)
        m[1, 1] = m[ny // 2 + 1, 2] = m[ny - 1, nx - 1] = True
        m[5:7, 8:12] = True
        if E.v['msk'] == 'readonly':
            m.setflags(write=False)
        kw['mask'] = E.reg('mask', m)
    if E.v['cov'] == 'coverage':
        c = np.zeros((ny, nx), bool)
        c[-1, :3] = True
        c[:4, -2:] = True
        kw['coverage_mask'] = E.reg('coverage_mask', c)
        kw['fill_value'] = -7.0
    if E.v['clip'] == 'none':
        kw['sigma_clip'] = None
    if E.v['est'] != 'default':
        kw['bkg_estimator'] = MedianBackground() if E.v['est'] == 'median' else MeanBackground()
    if 'bkg_estimator' in kw:
        E.reg('bkg_estimator', kw['bkg_estimator'])
        kw['bkgrms_estimator'] = E.reg('bkgrms_estimator', MADStdBackgroundRMS())
    if kw.get('sigma_clip', 1) is not None:
        kw['sigma_clip'] = E.reg('sigma_clip', SigmaClip(sigma=3.0, maxiters=10))
    bs = E.size('box_size', bs)
    bkg = E.call('init', lambda: Background2D(data, bs, filter_size=1, edge_method=E.v['edge'],
                                              exclude_percentile=90.0, **kw))
    if bkg is not None:
        names = ['background', 'background_rms', 'background_mesh', 'background_rms_mesh', 'npixels_mesh',
                 'npixels_map', 'mesh_nmasked', 'background_median']
        E.rng.shuffle(names)
        E.props(bkg, names)


@scenario('background_estimators', data=['ndarray', 'masked', 'masked_nomask', 'quantity', 'view', 'readonly'],
          mask=None, error=None, axis=['none', '0', 'tuple'], masked=['no', 'yes'])
def s_bkg_estimators(E):
    from photutils import background as B
    data = E.data()
    axis = {'none': None, '0': 0, 'tuple': (0, 1)}[E.v['axis']]
    for cls in ('MeanBackground', 'MedianBackground', 'ModeEstimatorBackground', 'MMMBackground',
                'SExtractorBackground', 'BiweightLocationBackground', 'StdBackgroundRMS',
                'MADStdBackgroundRMS', 'BiweightScaleBackgroundRMS'):
        est = getattr(B, cls)()
        E.call(cls, lambda est=est: est(data, axis=axis, masked=E.v['masked'] == 'yes'))
        est2 = getattr(B, cls)(sigma_clip=None)
        E.call(cls + '.noclip', lambda est2=est2: est2.calc_background(data, axis=axis) if hasattr(est2, 'calc_background')
               else est2.calc_background_rms(data, axis=axis))


@scenario('LocalBackground', data=['ndarray', 'quantity', 'view', 'readonly', 'masked'], error=None)
def s_localbkg(E):
    from photutils.background import LocalBackground
    data, mask = E.data(), E.mask()
    x = E.reg('x', np.array([s[0] for s in E.stars]))
    y = E.reg('y', np.array([s[1] for s in E.stars]))
    from photutils.background import MedianBackground
    lb = E.reg('local_bkg', LocalBackground(5, 9, bkg_estimator=E.reg('bkg_estimator', MedianBackground())))
    E.call('call', lambda: lb(data, x, y, mask=mask))


# ---------------- segmentation ----------------
def _segm(E, plain):
    from photutils.segmentation import detect_sources
    with warnings.catch_warnings():
        warnings.simplefilter('ignore')
        d = np.where(np.isfinite(plain), plain, 0.0)
        thr = (np.median(d) + 8.0)
        return detect_sources(d, thr, 5)


@scenario('detect_threshold', bkg=['none', 'scalar', 'array'])
def s_detect_threshold(E):
    from photutils.segmentation import detect_threshold
    data, mask, error = E.data(), E.mask(), E.error()
    kw = {}
    if E.v['bkg'] == 'scalar':
        kw['background'] = 4.0 if E.unit is None else 4.0 * E.unit
    elif E.v['bkg'] == 'array':
        kw['background'] = E.like('background', np.full(E.shape, 4.0))
    from astropy.stats import SigmaClip
    kw['sigma_clip'] = E.reg('sigma_clip', SigmaClip(sigma=3.0, maxiters=5))
    E.call('call', lambda: detect_threshold(data, 2.0, error=error, mask=mask, **kw))


@scenario('detect_sources', error=None, thr=['scalar', 'array', 'readonly'])
def s_detect_sources(E):
    from photutils.segmentation import detect_sources, SourceFinder
    data, mask = E.data(), E.mask()
    if E.v['thr'] == 'scalar':
        thr = 15.0 if E.unit is None else 15.0 * E.unit
    else:
        thr = E.like('threshold', np.full(E.shape, 15.0), 'readonly' if E.v['thr'] == 'readonly' else 'ndarray')
    E.call('call', lambda: detect_sources(data, thr, 5, mask=mask))
    sf = SourceFinder(npixels=5, progress_bar=False, nlevels=8)
    E.call('SourceFinder', lambda: sf(data, thr, mask=mask))


@scenario('deblend_sources', mask=None, error=None, mode=['exponential', 'linear', 'sinh'], lab=['all', 'some'])
def s_deblend(E):
    from photutils.segmentation import deblend_sources
    E.stars = E.stars + [(15.0, 13.0, 80.0)]      # a blend
    data = E.data()
    segm = _segm(E, E.plain)
    if segm is None:
        raise Skip('no segments')
    E.reg('segment_img', segm)
    labels = None if E.v['lab'] == 'all' else E.reg('labels', np.array(segm.labels[:1]))
    E.call('call', lambda: deblend_sources(data, segm, 5, labels=labels, nlevels=8, contrast=0.001,
                                           mode=E.v['mode'], progress_bar=False))


def public_reads(obj, skip=()):
    """The read alphabet of an object, derived from the object itself: every public attribute that
    is not callable - properties and lazyproperties of its class (whole MRO) and public instance
    attributes."""
    names = []
    for n in dir(type(obj)):
        if n.startswith('_') or n in skip:
            continue
        try:
            a = getattr(type(obj), n)
        except Exception:
            continue
        if isinstance(a, property) or (hasattr(a, '__get__') and not callable(a)):
            names.append(n)
    for n in getattr(obj, '__dict__', {}):
        if not n.startswith('_') and n not in names and n not in skip and not callable(obj.__dict__[n]):
            names.append(n)
    return sorted(names)


SEG_LAYOUTS = ['detected', 'nested', 'interleaved', 'diagonal', 'deblended', 'ring', 'touching_border']
SEG_DTYPES = ['int64', 'int32', 'int16', 'uint8', 'uint16', 'uint32']


def label_map(E, layout, shape=(41, 43)):
    """Label maps whose bounding boxes contain pixels of OTHER labels (nested, interleaved,
    diagonal neighbours, deblended blends, a ring around another source), non-consecutive labels."""
    ny, nx = shape
    lab = np.zeros(shape, int)
    if layout == 'detected':
        return np.array(_segm(E, E.plain_image('clean')).data)
    if layout == 'nested':
        lab[5:25, 6:30] = 3
        lab[10:14, 12:18] = 7            # a small source inside the bounding box (a hole) of label 3
        lab[10:14, 12:18][1:3, 2:4] = 9  # and one inside that
        lab[30:36, 5:12] = 12
    elif layout == 'ring':
        yy, xx = np.mgrid[0:ny, 0:nx]
        r = np.hypot(yy - 20, xx - 21)
        lab[(r > 8) & (r < 12)] = 4
        lab[r < 4] = 2
        lab[2:5, 2:5] = 40
    elif layout == 'interleaved':
        for i, x0 in enumerate(range(4, 36, 4)):
            lab[6 + 2 * (i % 2):30, x0:x0 + 2] = 5 if i % 2 == 0 else 6   # two combs, teeth alternating
        lab[4:6, 4:36] = 5
        lab[30:32, 4:36] = 6
    elif layout == 'diagonal':
        for k in range(6):
            lab[5 + 5 * k:10 + 5 * k, 5 + 5 * k:10 + 5 * k] = 2 + 3 * k
        lab[5:9, 28:34] = 30
        lab[8:12, 24:29] = 31            # bounding boxes overlap corner to corner
    elif layout == 'touching_border':
        lab[0:6, 0:9] = 1
        lab[3:12, 6:14] = 2
        lab[ny - 4:, nx - 7:] = 8
        lab[ny - 8:ny - 2, nx - 12:nx - 5] = 9
    else:  # deblended blend
        from photutils.segmentation import deblend_sources, detect_sources
        E.stars = [(15.0, 14.0, 100.0), (19.0, 17.0, 80.0), (23.0, 14.5, 90.0), (33.0, 30.0, 60.0), (30.0, 33.5, 70.0)]
        img = E.plain_image('clean')
        with warnings.catch_warnings():
            warnings.simplefilter('ignore')
            sg = detect_sources(img, np.median(img) + 4.0, 5)
            sg = deblend_sources(img, sg, 5, nlevels=16, contrast=0.0001, progress_bar=False)
        return np.array(sg.data)
    return lab


@scenario('SegmentationImage', data=None, cond=None, mask=None, error=None, layout=SEG_LAYOUTS, dtype=SEG_DTYPES,
          rep=['array', 'view', 'readonly', 'fortran'])
def s_segmimg(E):
    """SegmentationImage and its Segment objects: the read alphabet is derived from the objects
    (every public non-callable attribute of the image and of EACH segment) plus the documented
    methods; the label array supplied by the caller (also as a view of a larger array) and the
    image itself are watched."""
    from photutils.segmentation import SegmentationImage
    lab = label_map(E, E.v['layout']).astype(E.v['dtype'])
    E.shape = lab.shape
    rep = E.v['rep']
    if rep == 'view':
        arr = E.wrap('segm_array', lab, 'view')
    elif rep == 'fortran':
        arr = E.reg('segm_array', np.asfortranarray(lab))
    else:
        arr = E.wrap('segm_array', lab, 'readonly' if rep == 'readonly' else 'ndarray')
    segm = E.call('init', lambda: SegmentationImage(arr))
    if segm is None:
        return
    E.reg('segm', segm)
    names = public_reads(segm)
    E.rng.shuffle(names)
    E.props(segm, names)
    plain = E.nrng.normal(5.0, 1.0, lab.shape)
    other = E.reg('data_img', plain)
    segs = E.call('segments', lambda: segm.segments) or []
    order = list(range(len(segs)))
    E.rng.shuffle(order)
    for i in order[:8]:
        sg = segs[i]
        rd = public_reads(sg)
        E.rng.shuffle(rd)
        E.props(sg, rd, prefix='Segment.')
        E.call('Segment.__array__', lambda sg=sg: np.asarray(sg))
        E.call('Segment.__array__dtype', lambda sg=sg: np.asarray(sg, dtype=float))
        E.call('Segment.make_cutout', lambda sg=sg: sg.make_cutout(other, masked_array=False))
        E.call('Segment.make_cutout_ma', lambda sg=sg: sg.make_cutout(other, masked_array=True))
        E.call('Segment.repr', lambda sg=sg: (repr(sg), str(sg)))
    E.call('copy', lambda: segm.copy())
    E.call('array', lambda: np.asarray(segm))
    E.call('repr', lambda: (repr(segm), str(segm)))
    l0 = int(segm.labels[0])
    E.call('get_index', lambda: segm.get_index(l0))
    E.call('get_area', lambda: segm.get_area(l0))
    labs = E.reg('labels_arg', np.array(segm.labels[:2]))
    E.call('get_areas', lambda: segm.get_areas(labs))
    E.call('get_indices', lambda: segm.get_indices(labs))
    E.call('check_labels', lambda: segm.check_labels(labs))
    E.call('check_label', lambda: segm.check_label(l0))
    E.call('make_cmap', lambda: segm.make_cmap(seed=1))
    E.call('to_regions', lambda: segm.to_regions())
    E.call('to_patches', lambda: segm.to_patches(origin=(2, 3)))
    fp = E.reg('footprint', np.ones((3, 3), bool))
    E.call('make_source_mask', lambda: segm.make_source_mask(footprint=fp))
    E.call('make_source_mask_size', lambda: segm.make_source_mask(size=3))
    E.call('getitem_slices', lambda: [segm.data[s_] for s_ in segm.slices])
    # in-place mutators of their own object are exempt, their ARGUMENTS are not: run them on
    # a private copy and watch the arguments
    msk = np.zeros(lab.shape, bool)
    msk[:, : lab.shape[1] // 2] = True
    msk = E.reg('mask_arg', msk)
    E.call('remove_masked_labels', lambda: segm.copy().remove_masked_labels(msk))
    E.call('remove_masked_labels_partial', lambda: segm.copy().remove_masked_labels(msk, partial_overlap=False))
    E.call('keep_labels', lambda: segm.copy().keep_labels(labs))
    E.call('remove_labels', lambda: segm.copy().remove_labels(labs, relabel=True))
    newl = E.reg('new_labels_arg', np.array([50, 60]))
    E.call('reassign_labels', lambda: segm.copy().reassign_labels(labs, newl))
    E.call('reassign_labels_scalar', lambda: segm.copy().reassign_labels(labs, 70, relabel=True))
    E.call('remove_border_labels', lambda: segm.copy().remove_border_labels(3))
    E.call('relabel_consecutive', lambda: segm.copy().relabel_consecutive())
    # the properties again, after everything else ran
    E.props(segm, names[:6], prefix='again.')


CAT_PROPS = None


@scenario('SourceCatalog', conv=['none', 'convolved'], bkg=['none', 'array'], lbw=['0', '5'],
          aperm=['correct', 'mask', 'none'], det=['none', 'detcat'])
def s_catalog(E):
    from photutils.segmentation import SourceCatalog, make_2dgaussian_kernel
    from astropy.convolution import convolve
    data, mask, error = E.data(), E.mask(), E.error()
    segm = _segm(E, E.plain)
    if segm is None:
        raise Skip('no segments')
    E.reg('segment_img', segm)
    kw = {}
    if E.v['conv'] == 'convolved':
        k = make_2dgaussian_kernel(3.0, size=5)
        kw['convolved_data'] = E.like('convolved_data', convolve(np.where(np.isfinite(E.plain), E.plain, 0), k))
    if E.v['bkg'] == 'array':
        kw['background'] = E.like('background', np.full(E.shape, 4.0))
    if E.v['det'] == 'detcat':
        # a detection catalog is a caller-supplied object: the caller has already read its
        # properties (they are cached), and its cached values / to_table() must not change
        detcat = SourceCatalog(np.where(np.isfinite(E.plain), E.plain, 0), segm)
        with warnings.catch_warnings():
            warnings.simplefilter('ignore')
            for nm_ in list(detcat.properties) + ['kron_aperture', 'fluxfrac_radius']:
                try:
                    getattr(detcat, nm_)
                except Exception:
                    pass
            E.reg('detection_cat.to_table', detcat.to_table())
        kw['detection_cat'] = E.reg('detection_cat', detcat)
    cat = E.call('init', lambda: SourceCatalog(data, segm, error=error, mask=mask, localbkg_width=int(E.v['lbw']),
                                               apermask_method=E.v['aperm'], **kw))
    if cat is None:
        return
    names = list(cat.properties)
    names += ['moments', 'moments_central', 'cutout_centroid', 'cutout_centroid_win', 'cutout_centroid_quad',
              'cutout_minval_index', 'cutout_maxval_index', 'data', 'data_ma', 'convdata', 'convdata_ma',
              'error', 'error_ma', 'segment', 'segment_ma', 'local_background_aperture', 'kron_aperture',
              'centroid_win', 'centroid_quad', 'sky_centroid_win', 'fwhm', 'gini', 'inertia_tensor',
              'covariance', 'cxx', 'cxy', 'cyy', 'ellipticity', 'elongation', 'equivalent_radius',
              'perimeter', 'slices', 'bbox', 'isscalar', 'nlabels']
    names = [n for n in dict.fromkeys(names) if hasattr(type(cat), n) and 'sky' not in n]
    E.rng.shuffle(names)
    E.props(cat, names)
    E.call('to_table', lambda: cat.to_table())
    E.call('circular_photometry', lambda: cat.circular_photometry(4.0))
    E.call('fluxfrac_radius', lambda: cat.fluxfrac_radius(0.5))
    E.call('make_kron_apertures', lambda: cat.make_kron_apertures())
    # non-default Kron parameters: a minimum (unscaled) Kron radius above the measured ones, and
    # the 3-element form with a minimum circular radius
    for kp in ((2.5, 6.0), (2.5, 1.4, 2.0), (3.0, 0.1, 0.0)):
        E.call(f'kron_photometry{kp}', lambda kp=kp: cat.kron_photometry(kp))
        E.call(f'make_kron_apertures{kp}', lambda kp=kp: cat.make_kron_apertures(kron_params=kp))
    E.call('fluxfrac_radius(0.9)', lambda: cat.fluxfrac_radius(0.9))
    if E.v['det'] == 'detcat':
        E.call('detection_cat.to_table', lambda: E.compare_table('detection_cat.to_table',
                                                                   kw['detection_cat'].to_table()))
    E.call('make_circular_apertures', lambda: cat.make_circular_apertures(3.0))
    E.call('make_cutouts', lambda: cat.make_cutouts((11, 11)))
    E.call('getitem', lambda: cat[0].to_table())
    E.call('get_labels', lambda: cat.get_labels(cat.labels[:2]).kron_flux)
    sub = cat[1] if len(cat) > 1 else cat[0]
    E.props(sub, ['kron_flux', 'kron_radius', 'segment_flux', 'centroid_quad', 'fwhm'], prefix='scalar.')


# ---------------- aperture ----------------
def _apertures(E, kind):
    from photutils import aperture as A
    pos = _xy(E) + [(1.0, 2.0), (E.shape[1] + 20.0, 5.0)]      # partial and off-image
    pos = E.reg('positions', np.array(pos))
    if kind == 'circle':
        return A.CircularAperture(pos, r=4.3)
    if kind == 'ellipse':
        return A.EllipticalAperture(pos, 5.0, 3.0, theta=0.4)
    if kind == 'rect':
        return A.RectangularAperture(pos, 6.0, 4.0, theta=0.3)
    if kind == 'cannulus':
        return A.CircularAnnulus(pos, 3.0, 6.0)
    if kind == 'eannulus':
        return A.EllipticalAnnulus(pos, 3.0, 6.0, 4.0, theta=0.2)
    return A.RectangularAnnulus(pos, 3.0, 6.0, 4.0, theta=0.2)


APS = ['circle', 'ellipse', 'rect', 'cannulus', 'eannulus', 'rannulus']
METHODS = ['exact', 'center', 'subpixel']


@scenario('aperture_photometry', data=ARR + ['nddata'], ap=APS, method=METHODS)
def s_aperture_photometry(E):
    from photutils.aperture import aperture_photometry
    data, mask, error = E.data(), E.mask(), E.error()
    ap = E.reg('aperture', _apertures(E, E.v['ap']))
    if E.v['data'] == 'nddata':
        E.call('call', lambda: aperture_photometry(data, ap, method=E.v['method']))
        E.call('call_list', lambda: aperture_photometry(data, [ap, ap], method=E.v['method']))
    else:
        E.call('call', lambda: aperture_photometry(data, ap, error=error, mask=mask, method=E.v['method']))
    if E.v['data'] != 'nddata':
        E.call('do_photometry', lambda: ap.do_photometry(data, error=error, mask=mask, method=E.v['method']))
        E.call('area_overlap', lambda: ap.area_overlap(data, mask=mask, method=E.v['method']))


@scenario('ApertureMask', error=None, ap=APS, method=METHODS)
def s_aperture_mask(E):
    data, mask = E.data(), E.mask()
    ap = E.reg('aperture', _apertures(E, E.v['ap']))
    masks = E.call('to_mask', lambda: ap.to_mask(method=E.v['method']))
    if not masks:
        return
    for i in (0, len(masks) - 2, len(masks) - 1):
        m = masks[i]
        E.call(f'cutout', lambda: m.cutout(data))
        E.call(f'cutout_copy', lambda: m.cutout(data, copy=True))
        E.call(f'cutout_fill', lambda: m.cutout(data, fill_value=np.nan))
        E.call(f'multiply', lambda: m.multiply(data))
        E.call(f'get_values', lambda: m.get_values(data, mask=mask))
        E.call(f'to_image', lambda: m.to_image(E.shape))
        E.call(f'get_overlap_slices', lambda: m.get_overlap_slices(E.shape))


def _agg_axes():
    import matplotlib
    matplotlib.use('Agg', force=True)
    import matplotlib.pyplot as plt
    fig, ax = plt.subplots()
    return plt, fig, ax


ORIGINS = ['zero', 'positive', 'negative', 'array']


def _origin(E):
    o = {'zero': (0, 0), 'positive': (3.5, 2.0), 'negative': (-4.0, -1.5), 'array': None}[E.v['origin']]
    return E.reg('origin', np.array([2.0, 5.0])) if o is None else o


@scenario('aperture_plotting', data=None, cond=None, mask=None, error=None, ap=APS, npos=['scalar', 'multi'],
          origin=ORIGINS, method=METHODS)
def s_aperture_plotting(E):
    """Apertures are caller-supplied objects: plotting, patch / region / mask conversion and the
    geometric properties must leave positions and shape parameters (and hence bbox) unchanged,
    also when called repeatedly with a non-default origin."""
    from photutils import aperture as A
    pos = (12.3, 9.6) if E.v['npos'] == 'scalar' else [(12.3, 9.6), (20.0, 15.5), (3.0, 4.0)]
    ap = {'circle': lambda: A.CircularAperture(pos, r=4.3),
          'ellipse': lambda: A.EllipticalAperture(pos, 5.0, 3.0, theta=0.4),
          'rect': lambda: A.RectangularAperture(pos, 6.0, 4.0, theta=0.3),
          'cannulus': lambda: A.CircularAnnulus(pos, 3.0, 6.0),
          'eannulus': lambda: A.EllipticalAnnulus(pos, 3.0, 6.0, 4.0, theta=0.2),
          'rannulus': lambda: A.RectangularAnnulus(pos, 3.0, 6.0, 4.0, theta=0.2)}[E.v['ap']]()
    E.reg('aperture', ap)
    E.reg('aperture._positions', ap._positions)
    origin = _origin(E)
    plt, fig, ax = _agg_axes()
    try:
        E.call('bbox', lambda: ap.bbox)
        E.call('plot', lambda: ap.plot(ax=ax, origin=origin, color='r'))
        E.call('plot_again', lambda: ap.plot(ax=ax, origin=origin))
        E.call('_to_patch', lambda: ap._to_patch(origin=origin))
        E.call('_define_patch_params', lambda: ap._define_patch_params(origin=origin, lw=2))
        E.call('to_mask', lambda: ap.to_mask(method=E.v['method']))
        E.call('area', lambda: ap.area)
        E.call('copy', lambda: ap.copy())
        E.call('eq', lambda: ap == ap.copy())
        E.call('repr', lambda: (repr(ap), str(ap)))
        E.call('aperture_to_region', lambda: A.aperture_to_region(ap))
        E.call('getitem', lambda: ap[0] if E.v['npos'] == 'multi' else len(ap))
        E.call('to_mask_to_image', lambda: (ap.to_mask()[0] if E.v['npos'] == 'multi' else ap.to_mask()).to_image((30, 30)))
        E.call('plot_default_axes', lambda: ap.plot(origin=origin))
    finally:
        plt.close('all')


@scenario('plot_helpers', data=PLAIN + ['quantity', 'masked'], cond=['clean', 'neg'], error=None, origin=ORIGINS)
def s_plot_helpers(E):
    """Plotting helpers of SegmentationImage, SourceCatalog, Background2D, the profile classes and
    GriddedPSFModel on a matplotlib Agg axes, with non-default origins."""
    from astropy.nddata import NDData
    from photutils.segmentation import SourceCatalog
    from photutils.background import Background2D
    from photutils.profiles import RadialProfile
    from photutils.psf import GriddedPSFModel
    data, mask = E.data(), E.mask()
    segm = _segm(E, E.plain)
    if segm is None:
        raise Skip('no segments')
    E.reg('segment_img', segm)
    origin = _origin(E)
    plt, fig, ax = _agg_axes()
    try:
        E.call('segm.imshow', lambda: segm.imshow(ax=ax))
        E.call('segm.imshow_map', lambda: segm.imshow_map(ax=ax))
        E.call('segm.to_patches', lambda: segm.to_patches(origin=origin, scale=2.0))
        labs = E.reg('labels_arg', np.array(segm.labels[:2]))
        E.call('segm.plot_patches', lambda: segm.plot_patches(ax=ax, origin=origin, labels=labs))
        cat = SourceCatalog(data, segm, mask=mask)
        E.reg('catalog', cat)
        E.call('cat.plot_kron_apertures', lambda: cat.plot_kron_apertures(ax=ax, origin=origin))
        kp = E.reg('kron_params', (2.5, 6.0))
        E.call('cat.plot_kron_apertures_params', lambda: cat.plot_kron_apertures(kron_params=kp, ax=ax, origin=origin))
        E.call('cat.plot_circular_apertures', lambda: cat.plot_circular_apertures(4.0, ax=ax, origin=origin))
        E.call('cat.kron_aperture', lambda: cat.kron_aperture)
        aps = [a for a in cat.kron_aperture if a is not None]
        if aps:
            E.reg('kron_aperture0', aps[0])
            E.call('kron_aperture.plot', lambda: aps[0].plot(ax=ax, origin=origin))
        E.call('cat.plot_kron_apertures_again', lambda: cat.plot_kron_apertures(ax=ax, origin=origin))
        E.call('cat[0].plot_kron_apertures', lambda: cat[0].plot_kron_apertures(ax=ax, origin=origin))
        bkg = E.call('Background2D', lambda: Background2D(data, (10, 10), mask=mask))
        if bkg is not None:
            E.call('bkg.plot_meshes', lambda: bkg.plot_meshes(ax=ax, outlines=True))
        radii = E.reg('radii', np.arange(0, 10.0))
        rp = E.call('RadialProfile', lambda: RadialProfile(data, _xy(E)[0], radii, mask=mask))
        if rp is not None:
            E.call('rp.plot', lambda: rp.plot(ax=ax))
            E.call('rp.plot_error', lambda: rp.plot_error(ax=ax))
        yy, xx = np.mgrid[-12:13, -12:13] / 2.0
        img = np.exp(-(xx ** 2 + yy ** 2) / (2 * 1.6 ** 2))
        nd = E.reg('grid_nddata', NDData(np.array([img, img * 1.1, img * 0.9, img]),
                                         meta={'grid_xypos': [(0, 0), (40, 0), (0, 40), (40, 40)], 'oversampling': 2}))
        g = GriddedPSFModel(nd)
        E.reg('gridded_psf', g)
        E.call('plot_grid', lambda: g.plot_grid())
        E.call('plot_grid_deltas', lambda: g.plot_grid(deltas=True, peak_norm=True))
    finally:
        plt.close('all')


@scenario('ApertureStats', ap=APS, method=['exact', 'center', 'subpixel'], clip=['none', 'clip'],
          lb=['none', 'array'])
def s_aperture_stats(E):
    from photutils.aperture import ApertureStats
    from astropy.stats import SigmaClip
    data, mask, error = E.data(), E.mask(), E.error()
    ap = E.reg('aperture', _apertures(E, E.v['ap']))
    kw = {}
    if E.v['lb'] == 'array':
        kw['local_bkg'] = E.like('local_bkg', np.full(len(ap), 2.0))
    sc = E.reg('sigma_clip', SigmaClip(3.0)) if E.v['clip'] == 'clip' else None
    st = E.call('init', lambda: ApertureStats(data, ap, error=error, mask=mask, sigma_clip=sc,
                                              sum_method=E.v['method'], **kw))
    if st is None:
        return
    names = list(st.properties) + ['data_cutout', 'data_sumcutout', 'error_sumcutout', 'moments', 'moments_central',
                                   'covariance', 'cxx', 'cxy', 'cyy', 'bbox', 'sum_aper_area', 'center_aper_area',
                                   'fwhm', 'gini', 'inertia_tensor', 'isscalar']
    names = [n for n in dict.fromkeys(names) if hasattr(type(st), n) and 'sky' not in n]
    E.rng.shuffle(names)
    E.props(st, names)
    E.call('to_table', lambda: st.to_table())
    E.call('getitem', lambda: st[0].to_table())
    E.call('get_ids', lambda: st.get_ids([1, 2]).sum)


# ---------------- profiles ----------------
@scenario('RadialProfile', method=METHODS)
def s_radial_profile(E):
    from photutils.profiles import RadialProfile
    data, mask, error = E.data(), E.mask(), E.error()
    radii = E.reg('radii', np.arange(0, 12.0, 1.0))
    xycen = E.reg('xycen', np.array(_xy(E)[0]))
    rp = E.call('init', lambda: RadialProfile(data, xycen, radii, error=error, mask=mask, method=E.v['method']))
    if rp is None:
        return
    names = ['radius', 'profile', 'profile_error', 'area', 'apertures', 'gaussian_fit', 'gaussian_profile',
             'gaussian_fwhm', 'data_radius', 'data_profile']
    E.rng.shuffle(names)
    E.props(rp, [n for n in names if hasattr(type(rp), n)])
    E.call('normalize', lambda: rp.normalize())
    E.call('unnormalize', lambda: rp.unnormalize())


@scenario('CurveOfGrowth', method=METHODS)
def s_cog(E):
    from photutils.profiles import CurveOfGrowth
    data, mask, error = E.data(), E.mask(), E.error()
    radii = E.reg('radii', np.arange(1, 12.0, 1.0))
    xycen = E.reg('xycen', np.array(_xy(E)[1]))
    cg = E.call('init', lambda: CurveOfGrowth(data, xycen, radii, error=error, mask=mask, method=E.v['method']))
    if cg is None:
        return
    names = ['radius', 'profile', 'profile_error', 'area', 'apertures']
    E.rng.shuffle(names)
    E.props(cg, names)
    E.call('normalize', lambda: cg.normalize())
    r = E.reg('query_radius', np.array([2.0, 4.0]))
    E.call('calc_ee_at_radius', lambda: cg.calc_ee_at_radius(r))
    ee = E.reg('query_ee', np.array([0.3, 0.6]))
    E.call('calc_radius_at_ee', lambda: cg.calc_radius_at_ee(ee))


# ---------------- psf ----------------
def _psf_model(E, kind):
    from photutils import psf as P
    if kind == 'gauss':
        return P.CircularGaussianPRF(fwhm=3.8)
    if kind == 'gausspsf':
        return P.GaussianPSF(x_fwhm=3.8, y_fwhm=3.8)
    if kind == 'moffat':
        return P.MoffatPSF(alpha=3.0)
    y, x = np.mgrid[-12:13, -12:13] / 2.0
    img = np.exp(-(x ** 2 + y ** 2) / (2 * 1.6 ** 2))
    img /= img.sum() / 4.0
    E.reg('psf_image', img)
    return P.ImagePSF(img, oversampling=2)


@scenario('PSFPhotometry', data=ARR + ['nddata'], model=['gauss', 'gausspsf', 'image'],
          init=['none', 'xy', 'xyflux', 'group', 'altnames'], grp=['none', 'grouper'], lb=['none', 'local'])
def s_psfphot(E):
    from astropy.table import Table, QTable
    from photutils.psf import PSFPhotometry, SourceGrouper
    from photutils.detection import DAOStarFinder
    from photutils.background import LocalBackground
    data = E.data(kinds=ARR)
    mask, error = E.mask(), E.error()
    model = E.reg('psf_model', _psf_model(E, E.v['model']))
    init = None
    if E.v['init'] != 'none':
        init = QTable() if E.unit is not None else Table()
        xn, yn = ('x', 'y') if E.v['init'] != 'altnames' else ('x_init', 'y_init')
        init[xn] = [s[0] + 0.2 for s in E.stars]
        init[yn] = [s[1] - 0.1 for s in E.stars]
        if E.v['init'] in ('xyflux', 'group', 'altnames'):
            fl = np.array([s[2] * 16 for s in E.stars])
            init['flux' if E.v['init'] != 'altnames' else 'flux_init'] = fl if E.unit is None else fl * E.unit
        if E.v['init'] == 'group':
            init['group_id'] = [1, 2, 2, 3]
        init.meta['note'] = 'caller table'
        E.reg('init_params', init)
    thr = 10.0 if E.unit is None else 10.0 * E.unit
    from astropy.modeling.fitting import TRFLSQFitter
    finder = E.reg('finder', DAOStarFinder(thr, 3.5))
    grouper = E.reg('grouper', SourceGrouper(8.0)) if E.v['grp'] == 'grouper' else None
    lbe = E.reg('localbkg_estimator', LocalBackground(6, 10)) if E.v['lb'] == 'local' else None
    fitter = E.reg('fitter', TRFLSQFitter())
    fit_shape = E.size('fit_shape', (7, 7))
    phot = E.call('init', lambda: PSFPhotometry(model, fit_shape, finder=finder, grouper=grouper, fitter=fitter,
                                                localbkg_estimator=lbe, aperture_radius=4.0))
    if phot is None:
        return
    res = E.call('call', lambda: phot(data, mask=mask, error=error, init_params=init))
    if res is not None:
        E.call('make_model_image', lambda: phot.make_model_image(E.shape, psf_shape=(9, 9)))
        E.call('make_residual_image', lambda: phot.make_residual_image(data, psf_shape=(9, 9)))
        E.call('results', lambda: (phot.fit_params, phot.fit_info if hasattr(phot, 'fit_info') else None))
    E.call('call_again', lambda: phot(data, mask=mask, error=error, init_params=init))


@scenario('IterativePSFPhotometry', data=PLAIN + ['quantity'], cond=['clean', 'neg', 'nonfinite'],
          init=['none', 'xy'], mode=['new', 'all'])
def s_iterpsf(E):
    from astropy.table import Table
    from photutils.psf import IterativePSFPhotometry, SourceGrouper, CircularGaussianPRF
    from photutils.detection import DAOStarFinder
    data, mask, error = E.data(), E.mask(), E.error()
    model = E.reg('psf_model', CircularGaussianPRF(fwhm=3.8))
    init = None
    if E.v['init'] == 'xy':
        init = Table()
        init['x'] = [s[0] for s in E.stars[:2]]
        init['y'] = [s[1] for s in E.stars[:2]]
        E.reg('init_params', init)
    thr = 10.0 if E.unit is None else 10.0 * E.unit
    finder = E.reg('finder', DAOStarFinder(thr, 3.5))
    grouper = E.reg('grouper', SourceGrouper(8.0))
    phot = IterativePSFPhotometry(model, E.size('fit_shape', (7, 7)), finder, grouper=grouper,
                                  aperture_radius=4.0, maxiters=2, mode=E.v['mode'])
    res = E.call('call', lambda: phot(data, mask=mask, error=error, init_params=init))
    if res is not None:
        E.call('make_model_image', lambda: phot.make_model_image(E.shape, psf_shape=(9, 9)))
        E.call('make_residual_image', lambda: phot.make_residual_image(data, psf_shape=(9, 9)))


@scenario('psf_fitting_helpers', data=PLAIN + ['quantity', 'masked'])
def s_psf_helpers(E):
    from photutils.psf import fit_2dgaussian, fit_fwhm
    data, mask, error = E.data(), E.mask(), E.error()
    xypos = E.reg('xypos', np.array(_xy(E)))
    fsh = E.size('fit_shape', 7)
    E.call('fit_fwhm', lambda: fit_fwhm(data, xypos=xypos, fit_shape=fsh, mask=mask, error=error))
    E.call('fit_2dgaussian', lambda: fit_2dgaussian(data, xypos=xypos, fit_shape=fsh, mask=mask, error=error).results)
    _cut = np.array(E.plain[5:20, 4:19])
    cut = E.reg('cutout', _cut)
    E.call('fit_fwhm_noxy', lambda: fit_fwhm(cut))


@scenario('extract_stars_epsf', data=['nddata'], cond=['clean', 'neg', 'nonfinite'], mask=['none', 'array'],
          error=['none', 'array'], build=['no', 'yes'])
def s_extract_stars(E):
    from astropy.nddata import NDData, StdDevUncertainty
    from astropy.table import Table
    from photutils.psf import extract_stars, EPSFBuilder
    plain = E.plain_image()
    m = E.mask()
    unc = None
    if E.v['error'] != 'none':
        unc = StdDevUncertainty(np.full(E.shape, 1.0))
    nd = E.reg('nddata', NDData(plain, mask=m, uncertainty=unc))
    tbl = Table()
    tbl['x'] = [s[0] for s in E.stars]
    tbl['y'] = [s[1] for s in E.stars]
    E.reg('catalog', tbl)
    sz = E.size('size', 11)
    stars = E.call('extract_stars', lambda: extract_stars(nd, tbl, size=sz))
    if stars is None:
        return
    E.props(stars, ['cutout_center_flat', 'center_flat', 'n_stars', 'n_all_stars', 'n_good_stars', 'all_stars',
                    'all_good_stars'])
    s0 = stars.all_stars[0]
    E.props(s0, ['estimate_flux', 'cutout_center', 'center', 'slices', 'bbox', 'shape'], prefix='star.')
    if E.v['build'] == 'yes':
        E.reg('stars', stars)
        from astropy.stats import SigmaClip
        from photutils.psf import EPSFFitter
        b = EPSFBuilder(oversampling=2, maxiters=2, progress_bar=False, recentering_maxiters=3,
                        sigma_clip=E.reg('sigma_clip', SigmaClip(sigma=3, maxiters=5)),
                        fitter=E.reg('epsf_fitter', EPSFFitter()), recentering_boxsize=E.size('recentering_boxsize', (5, 5)))
        E.call('EPSFBuilder', lambda: b(stars))


@scenario('psf_models', data=['ndarray', 'readonly', 'view', 'float32'], cond=['clean', 'nonfinite'], mask=None,
          error=None)
def s_psf_models(E):
    from astropy.nddata import NDData
    from photutils.psf import ImagePSF, GriddedPSFModel, make_psf_model_image, CircularGaussianPRF
    from photutils.psf.matching import create_matching_kernel, resize_psf, TopHatWindow
    y, x = np.mgrid[-12:13, -12:13] / 2.0
    img = np.exp(-(x ** 2 + y ** 2) / (2 * 1.6 ** 2))
    if 'nonfinite' in E.v['cond']:
        img[0, 0] = np.nan
    arr = E.wrap('psf_image', img, E.v['data'])
    m = E.call('ImagePSF', lambda: ImagePSF(arr, oversampling=2))
    if m is not None:
        E.reg('image_psf', m)
        xx = E.reg('xx', np.arange(5.0))
        E.call('ImagePSF.evaluate', lambda: m(xx, xx))
        E.call('ImagePSF.copy', lambda: m.copy())
        E.call('make_psf_model_image', lambda: make_psf_model_image((31, 31), m, 3, model_shape=(9, 9),
                                                                    flux=(50, 100)))
    grid = np.array([np.where(np.isfinite(img), img, 0) * f for f in (1.0, 1.1, 0.9, 1.05)])
    garr = E.wrap('grid_data', grid, 'readonly' if E.v['data'] == 'readonly' else 'ndarray')
    nd = E.reg('grid_nddata', NDData(garr, meta={'grid_xypos': [(0, 0), (40, 0), (0, 40), (40, 40)],
                                                 'oversampling': 2}))
    g = E.call('GriddedPSFModel', lambda: GriddedPSFModel(nd))
    if g is not None:
        E.reg('gridded_psf', g)
        yy, xx2 = np.mgrid[0:9, 0:9]
        E.call('GriddedPSFModel.evaluate', lambda: g.evaluate(xx2, yy, 10.0, 4.2, 4.1))
        E.call('GriddedPSFModel.copy', lambda: g.copy())
    from photutils.psf import grid_from_epsfs
    fin = np.where(np.isfinite(img), img, 0)
    epsfs = [ImagePSF(fin * f, x_0=a_, y_0=b_, oversampling=2)
             for f, (a_, b_) in zip((1.0, 1.1, 0.9, 1.05), ((0, 0), (40, 0), (0, 40), (40, 40)))]
    E.reg('epsfs', epsfs)
    meta = E.reg('meta', {'who': 'caller', 'oversampling': 99})
    E.call('grid_from_epsfs', lambda: grid_from_epsfs(epsfs, meta=meta))
    xyp = E.reg('grid_xypos', [(0, 0), (40, 0), (0, 40), (40, 40)])
    E.call('grid_from_epsfs_xypos', lambda: grid_from_epsfs(epsfs, grid_xypos=xyp, meta=meta))
    p1 = E.wrap('source_psf', np.where(np.isfinite(img), img, 0), E.v['data'])
    p2 = E.wrap('target_psf', np.exp(-(x ** 2 + y ** 2) / (2 * 2.2 ** 2)), E.v['data'])
    E.call('create_matching_kernel', lambda: create_matching_kernel(p1, p2, window=TopHatWindow(0.4)))
    E.call('create_matching_kernel_nowindow', lambda: create_matching_kernel(p1, p2))
    E.call('resize_psf', lambda: resize_psf(p1, 0.1, 0.05))


PSF_EVAL_MODELS = ['GriddedPSFModel', 'ImagePSF', 'CircularGaussianPRF', 'CircularGaussianSigmaPRF', 'GaussianPRF',
                   'CircularGaussianPSF', 'GaussianPSF', 'MoffatPSF', 'AiryDiskPSF', 'make_psf_model']
XY_KINDS = ['C', 'F', 'view', 'readonly', 'float32', 'int', 'scalar', 'one_d', 'list']


@scenario('psf_model_evaluation', data=None, cond=None, mask=None, error=None, model=PSF_EVAL_MODELS,
          xy=XY_KINDS, pos=['inside', 'edge', 'outside'])
def s_psf_model_evaluation(E):
    """Direct evaluation of every public PSF/PRF model on caller-owned coordinate arrays:
    model(x, y), model.evaluate(x, y, *params) (scalar and array parameters), evaluation of
    copy()/deepcopy(), render(); x, y, the parameter arrays and the model (data, grid, parameters,
    constraints) are snapshotted around every call."""
    import copy as _copy
    from astropy.modeling.models import Gaussian2D
    from astropy.nddata import NDData
    from photutils import psf as P
    name = E.v['model']
    yy, xx = np.mgrid[-12:13, -12:13] / 2.0
    img = np.exp(-(xx ** 2 + yy ** 2) / (2 * 1.6 ** 2))
    if name == 'GriddedPSFModel':
        grid = np.array([img * f for f in (1.0, 1.1, 0.9, 1.05)])
        E.reg('grid_data', grid)
        nd = E.reg('grid_nddata', NDData(grid, meta={'grid_xypos': [(0, 0), (40, 0), (0, 40), (40, 40)],
                                                     'oversampling': 2}))
        model = P.GriddedPSFModel(nd, flux=3.0, x_0=11.3, y_0=9.6)
    elif name == 'ImagePSF':
        E.reg('psf_image', img)
        model = P.ImagePSF(img, flux=3.0, x_0=11.3, y_0=9.6, oversampling=2)
    elif name == 'make_psf_model':
        model = P.make_psf_model(Gaussian2D(x_stddev=1.5, y_stddev=1.5), x_name='x_mean', y_name='y_mean',
                                 flux_name='amplitude')
    else:
        kw = {'CircularGaussianPRF': dict(fwhm=3.1), 'CircularGaussianSigmaPRF': dict(sigma=1.4),
              'GaussianPRF': dict(x_fwhm=3.1, y_fwhm=2.5, theta=30.0), 'CircularGaussianPSF': dict(fwhm=3.1),
              'GaussianPSF': dict(x_fwhm=3.1, y_fwhm=2.5, theta=30.0), 'MoffatPSF': dict(alpha=3.0, beta=2.5),
              'AiryDiskPSF': dict(radius=3.0)}[name]
        model = getattr(P, name)(flux=3.0, x_0=11.3, y_0=9.6, **kw)
    E.reg('model', model)
    off = {'inside': 0.0, 'edge': 9.0, 'outside': 60.0}[E.v['pos']]
    gy, gx = np.mgrid[0:9, 0:11].astype(float)
    gx = gx + 6.0 + off
    gy = gy + 5.0 + off
    k = E.v['xy']
    if k == 'scalar':
        x, y = 11.0 + off, 9.5 + off
    elif k == 'list':
        x, y = E.reg('x', [10.0 + off, 11.5 + off, 12.0 + off]), E.reg('y', [9.0 + off, 9.5 + off, 10.0 + off])
    elif k == 'one_d':
        x, y = E.reg('x', gx[0].copy()), E.reg('y', gy[:, 0][:11].repeat(2)[:11].copy())
    elif k == 'F':
        x, y = E.reg('x', np.asfortranarray(gx)), E.reg('y', np.asfortranarray(gy))
    elif k == 'int':
        x, y = E.reg('x', gx.astype(int)), E.reg('y', gy.astype(int))
    else:
        kind = {'C': 'ndarray'}.get(k, k)
        x, y = E.wrap('x', gx, kind), E.wrap('y', gy, kind)
    pvals = [float(v) for v in model.parameters]
    E.call('call', lambda: model(x, y))
    if name != 'make_psf_model':
        E.call('evaluate', lambda: model.evaluate(x, y, *pvals))
        parr = [E.reg(f'param_{i}', np.array([v])) for i, v in enumerate(pvals)]
        E.call('evaluate_array_params', lambda: model.evaluate(x, y, *parr))
    E.call('copy_call', lambda: model.copy()(x, y))
    E.call('deepcopy_call', lambda: _copy.deepcopy(model)(x, y))
    out = E.reg('render_out', np.zeros((21, 23)))
    E.unwatch('render_out')       # the output array of render() is meant to be written
    E.call('render', lambda: model.render(out=out) if name != 'make_psf_model' else model.render(out=out, coords=np.mgrid[0:21, 0:23][::-1]))
    coords = E.reg('render_coords', np.mgrid[0:21, 0:23][::-1].astype(float))
    E.call('render_coords', lambda: model.render(out=np.zeros((21, 23)), coords=coords))
    E.call('call_again', lambda: model(x, y))


ND_UNC = ['none', 'nounit', 'equal', 'convertible', 'copy_false_equal', 'copy_false_convertible', 'weights',
          'copy_false_weights']


def _weights_uncertainty():
    """An NDUncertainty whose uncertainty_type is 'weights' (extract_stars documents that such an
    uncertainty is taken as the pixel weights; astropy ships no class of that type)."""
    from astropy.nddata import StdDevUncertainty

    class WeightsUncertainty(StdDevUncertainty):
        @property
        def uncertainty_type(self):
            return 'weights'
    return WeightsUncertainty


# the full product (data unit) x (uncertainty unit / copy mode) x (uncertainty class) is enumerated: every
# combination is visited in turn, and each NDData goes through EVERY NDData-accepting entry point
ND_COMBOS = [f'{a}|{b}|{c}' for a in ('none', 'Jy') for b in ND_UNC for c in ('std', 'var', 'ivar')
             if not (b in ('none', 'weights', 'copy_false_weights') and c != 'std')
             and not (a == 'none' and 'convertible' in b) and not (a == 'Jy' and 'weights' in b)]
ND_ENTRIES = ['psf', 'iterpsf', 'aperture_photometry', 'ApertureStats', 'Background2D', 'extract_stars']


@scenario('nddata_entry_points', data=None, error=None, mask=['none', 'array', 'readonly'], combo=ND_COMBOS)
def s_nddata(E):
    E.v['unit'], E.v['unc'], E.v['unctype'] = E.v['combo'].split('|')
    for entry in ND_ENTRIES:
        E.objs.clear()
        E.nrng = np.random.default_rng(E.seed)
        _nddata_entry(E, entry)


def _nddata_entry(E, entry):
    """Every NDData-accepting entry point, with the uncertainty unit absent / equal to / different
    from but convertible to the data unit, and the uncertainty built with copy=False from a
    caller array: nddata.data / .mask / .uncertainty.array / .uncertainty.unit / .unit and the
    arrays they were built from are all watched."""
    import astropy.units as u
    from astropy.nddata import NDData, StdDevUncertainty, VarianceUncertainty, InverseVariance
    from astropy.table import Table, QTable
    plain = E.plain_image()
    E.plain = plain
    dunit = None if E.v['unit'] == 'none' else u.Jy
    arr = E.reg('data_array', plain.copy())
    m = E.mask('mask_array')
    unc = None
    k = E.v['unc']
    if k != 'none':
        sig = 0.5 + 0.01 * np.sqrt(np.abs(np.where(np.isfinite(plain), plain, 0.0)))
        cls = {'std': StdDevUncertainty, 'var': VarianceUncertainty, 'ivar': InverseVariance}[E.v['unctype']]
        vals = {'std': sig, 'var': sig ** 2, 'ivar': 1.0 / sig ** 2}[E.v['unctype']]
        uunit = None
        if dunit is not None and k != 'nounit':
            base = u.Jy if 'equal' in k else u.mJy
            if base is u.mJy:
                vals = vals * {'std': 1e3, 'var': 1e6, 'ivar': 1e-6}[E.v['unctype']]
            uunit = {'std': base, 'var': base ** 2, 'ivar': 1 / base ** 2}[E.v['unctype']]
        if 'weights' in k:
            cls, vals, uunit = _weights_uncertainty(), 1.0 / sig, None
        earr = E.reg('error_array', np.array(vals))
        unc = cls(earr, unit=uunit, copy=not k.startswith('copy_false'))
    nd = E.reg('nddata', NDData(arr, mask=m, uncertainty=unc, unit=dunit, meta={'who': 'caller'}))
    pre = entry + '.'
    _call = E.call
    E.call = lambda label, thunk: _call(pre + label, thunk)
    try:
        _nddata_run(E, entry, nd, dunit)
    finally:
        del E.call


def _nddata_run(E, entry, nd, dunit):
    import astropy.units as u
    from astropy.table import Table, QTable
    if entry in ('psf', 'iterpsf'):
        from photutils.psf import PSFPhotometry, IterativePSFPhotometry, CircularGaussianPRF
        from photutils.detection import DAOStarFinder
        model = E.reg('psf_model', CircularGaussianPRF(fwhm=3.8))
        init = QTable() if dunit is not None else Table()
        init['x'] = [s_[0] + 0.2 for s_ in E.stars]
        init['y'] = [s_[1] - 0.1 for s_ in E.stars]
        fl = np.array([s_[2] * 16 for s_ in E.stars])
        init['flux'] = fl if dunit is None else fl * dunit
        E.reg('init_params', init)
        thr = 10.0 if dunit is None else 10.0 * dunit
        if entry == 'psf':
            phot = PSFPhotometry(model, (7, 7), finder=DAOStarFinder(thr, 3.5), aperture_radius=4.0)
        else:
            phot = IterativePSFPhotometry(model, (7, 7), DAOStarFinder(thr, 3.5), aperture_radius=4.0, maxiters=2)
        E.call('call_init_params', lambda: phot(nd, init_params=init))
        E.call('call_finder', lambda: phot(nd))
        E.call('make_residual_image', lambda: phot.make_residual_image(nd, psf_shape=(9, 9)))
    elif entry == 'aperture_photometry':
        from photutils.aperture import aperture_photometry
        ap = E.reg('aperture', _apertures(E, 'circle'))
        E.call('call', lambda: aperture_photometry(nd, ap))
        E.call('call_center', lambda: aperture_photometry(nd, [ap, ap], method='center'))
    elif entry == 'ApertureStats':
        from photutils.aperture import ApertureStats
        ap = E.reg('aperture', _apertures(E, 'circle'))
        st = E.call('init', lambda: ApertureStats(nd, ap))
        if st is not None:
            E.props(st, ['sum', 'sum_err', 'mean', 'median', 'std', 'centroid', 'fwhm', 'covariance'])
            E.call('to_table', lambda: st.to_table())
    elif entry == 'Background2D':
        from photutils.background import Background2D
        b = E.call('init', lambda: Background2D(nd, (10, 10)))
        if b is not None:
            E.props(b, ['background', 'background_rms', 'background_median'])
    else:
        from photutils.psf import extract_stars
        t = Table()
        t['x'] = [s_[0] for s_ in E.stars]
        t['y'] = [s_[1] for s_ in E.stars]
        E.reg('catalog', t)
        stars = E.call('extract_stars', lambda: extract_stars(nd, t, size=11))
        if stars is not None:
            E.call('star_data', lambda: [(s_.data, s_.weights) for s_ in stars.all_stars])
            # cutouts handed out by extract_stars: writing into a star must not reach the NDData
            E.call('register_model_on_star', lambda: stars.all_stars[0].register_epsf)


# ---------------- datasets ----------------
@scenario('make_model_image', data=None, cond=None, mask=None, error=None, tbl=['Table', 'QTable', 'units'],
          model=['gauss', 'moffat', 'image'], opt=['shape', 'bbox'])
def s_make_model_image(E):
    import astropy.units as u
    from astropy.table import Table, QTable
    from photutils.datasets import make_model_image, make_model_params, params_table_to_models
    model = E.reg('model', _psf_model(E, E.v['model']))
    t = Table() if E.v['tbl'] == 'Table' else QTable()
    t['id'] = [1, 2, 3]
    t['x_0'] = [5.5, 20.0, -30.0]
    t['y_0'] = [7.0, 12.25, 3.0]
    fl = np.array([100.0, 50.0, 10.0])
    t['flux'] = fl * u.Jy if E.v['tbl'] == 'units' else fl
    t['local_bkg'] = np.array([1.0, 2.0, 3.0]) * (u.Jy if E.v['tbl'] == 'units' else 1)
    t.meta['k'] = 'v'
    E.reg('params_table', t)
    kw = dict(model_shape=(9, 9)) if E.v['opt'] == 'shape' or E.v['model'] == 'moffat' else dict(bbox_factor=3.0)
    if E.v['opt'] == 'bbox' and E.v['model'] == 'image':
        kw = dict(model_shape=(7, 7))
    E.call('call', lambda: make_model_image((25, 31), model, t, **kw))
    E.call('params_table_to_models', lambda: params_table_to_models(t, model))


@scenario('noise', data=['ndarray', 'view', 'readonly', 'float32', 'quantity'], cond=['clean', 'neg'], mask=None,
          error=None)
def s_noise(E):
    from photutils.datasets import apply_poisson_noise
    data = E.data()
    E.call('apply_poisson_noise', lambda: apply_poisson_noise(data, seed=1))


# ---------------- isophote ----------------
@scenario('isophote', data=['ndarray', 'masked', 'masked_nomask', 'view', 'readonly'], mask=None, error=None,
          cond=['clean', 'nonfinite'], fix=['none', 'center'])
def s_isophote(E):
    from photutils.isophote import Ellipse, EllipseGeometry, EllipseSample, build_ellipse_model
    E.shape = (51, 51)
    ny, nx = E.shape
    y, x = np.mgrid[0:ny, 0:nx]
    r = np.sqrt(((x - 25) * np.cos(0.5) + (y - 25) * np.sin(0.5)) ** 2
                + ((-(x - 25) * np.sin(0.5) + (y - 25) * np.cos(0.5)) / 0.7) ** 2)
    img = 100.0 * np.exp(-r / 6.0) + E.nrng.normal(0, 0.2, E.shape)
    if 'nonfinite' in E.v['cond']:
        img[20, 31] = np.nan
    E.plain = img
    data = E.wrap('data', img, E.v['data'])
    geom = EllipseGeometry(25.0, 25.0, 8.0, 0.3, 0.5)
    E.reg('geometry_params', [geom.x0, geom.y0, geom.sma, geom.eps, geom.pa])
    ell = E.call('init', lambda: Ellipse(data, geom))
    if ell is None:
        return
    iso = E.call('fit_image', lambda: ell.fit_image(sma0=8.0, minsma=4.0, maxsma=14.0, step=0.3,
                                                   fix_center=E.v['fix'] == 'center'))
    E.call('fit_isophote', lambda: ell.fit_isophote(9.0))
    smp = E.call('EllipseSample', lambda: EllipseSample(data, 8.0, geometry=EllipseGeometry(25.0, 25.0, 8.0, 0.3, 0.5)))
    if smp is not None:
        E.call('EllipseSample.update', lambda: smp.update())
    if iso is not None and len(iso) > 0:
        E.call('isolist.to_table', lambda: iso.to_table())
        E.call('build_ellipse_model', lambda: build_ellipse_model(E.shape, iso))


# ---------------- utils / morphology ----------------
@scenario('calc_total_error', data=['ndarray', 'view', 'readonly', 'float32', 'quantity', 'masked'], mask=None,
          error=None, gain=['scalar', 'array', 'zeros'])
def s_calc_total_error(E):
    import astropy.units as u
    from photutils.utils import calc_total_error
    data = E.data()
    bkg = E.like('bkg_error', np.full(E.shape, 1.5), 'readonly' if E.v['data'] == 'readonly' else 'ndarray')
    if E.v['gain'] == 'scalar':
        gain = 2.0 if E.unit is None else 2.0 * u.electron / E.unit
    else:
        g = np.full(E.shape, 2.0)
        if E.v['gain'] == 'zeros':
            g[3:5, 2:9] = 0.0
        gain = E.reg('effective_gain', g if E.unit is None else g * u.electron / E.unit)
    E.call('call', lambda: calc_total_error(data, bkg, gain))


@scenario('utils_misc', error=None, mode=['trim', 'partial', 'strict'], copy=['view', 'copy'])
def s_utils_misc(E):
    from photutils.utils import CutoutImage, ImageDepth, ShepardIDWInterpolator
    from photutils.morphology import data_properties, gini
    data, mask = E.data(), E.mask()
    pos = (3, 4) if E.v['mode'] != 'strict' else (15, 15)
    cshape = E.size('cutout_shape', (9, 9))
    cut = E.call('CutoutImage', lambda: CutoutImage(data, pos, cshape, mode=E.v['mode'], copy=E.v['copy'] == 'copy'))
    if cut is not None:
        E.props(cut, ['data', 'bbox_original', 'bbox_cutout', 'slices_original', 'slices_cutout', 'xyorigin'],
                prefix='CutoutImage.')
    E.call('data_properties', lambda: data_properties(data, mask=mask).to_table())
    bk = E.like('background', np.full(E.shape, 1.0))
    E.call('data_properties_bkg', lambda: data_properties(data, mask=mask, background=bk).to_table())
    E.call('gini', lambda: gini(data, mask=mask))
    m2 = mask if mask is not None else E.mask('mask2', force='allfalse')
    from astropy.stats import SigmaClip
    # (the ImageDepth object itself is not watched: its __call__ stores the results on the instance, as documented)
    dep = ImageDepth(2.0, napers=20, niters=2, seed=1, progress_bar=False, overlap=False,
                     sigma_clip=E.reg('sigma_clip', SigmaClip(sigma=3.0, maxiters=5)))
    E.call('ImageDepth', lambda: dep(data, m2))
    coords = E.reg('coords', E.nrng.random((30, 2)))
    vals = E.reg('values', E.nrng.random(30))
    w = E.reg('weights', np.ones(30))
    itp = E.call('ShepardIDW.init', lambda: ShepardIDWInterpolator(coords, vals, weights=w))
    if itp is not None:
        q = E.reg('query', E.nrng.random((5, 2)))
        E.call('ShepardIDW.call', lambda: itp(q, n_neighbors=4))


# ==========================================================================
# running scenarios
# ==========================================================================
def sample_variant(rng, name):
    _, axes = SCENARIOS[name]
    return {k: rng.choice(v) for k, v in sorted(axes.items())}


def run_scenario(name, variant, seed, report, stat=None, count=None):
    f, _ = SCENARIOS[name]
    E = Env(name, dict(variant), seed, report, stat, count)
    try:
        with warnings.catch_warnings():
            warnings.simplefilter('ignore')
            f(E)
    except Skip:
        pass
    return E


# relative cost: how many variants per scenario in the quick tier
WEIGHT = {'isophote': 6, 'PSFPhotometry': 30, 'IterativePSFPhotometry': 14, 'psf_fitting_helpers': 14,
          'extract_stars_epsf': 16, 'SourceCatalog': 24, 'ApertureStats': 30, 'centroid_2dg': 30,
          'centroid_com': 30, 'SegmentationImage': 42, 'psf_models': 16, 'Background2D': 40,
          'Background2D_blocks': 150, 'psf_model_evaluation': 90,
          'aperture_plotting': 48, 'plot_helpers': 10, 'nddata_entry_points': 52}
DEFAULT_WEIGHT = 36


ENUMERATE = {'nddata_entry_points': 'combo'}


def variants_for(rng, name, n):
    """n variants: random, but every value of every axis is visited in turn."""
    _, axes = SCENARIOS[name]
    keys = sorted(axes)
    out = []
    for i in range(n):
        v = {k: rng.choice(axes[k]) for k in keys}
        k = keys[i % len(keys)]
        v[k] = axes[k][(i // len(keys)) % len(axes[k])]
        if name in ENUMERATE:           # an axis whose values are ALL visited, in order, whatever n
            ax = ENUMERATE[name]
            v[ax] = axes[ax][i % len(axes[ax])]
        out.append(v)
    return out


def dynamic_sweep(ctx, scale=1.0, only=None):
    found = {}

    def report(sig, what, detail):
        if sig not in found:
            found[sig] = (what, detail)

    for name in SCENARIOS:
        if only and name not in only:
            continue
        n = max(2, int(WEIGHT.get(name, DEFAULT_WEIGHT) * scale))
        for v in variants_for(ctx.rng, name, n):
            seed = ctx.rng.randrange(10 ** 6)
            try:
                E = run_scenario(name, v, seed, report, count=ctx.count_case)
            except Exception as e:       # a scenario that cannot be built is a harness error: fail closed
                ctx.violation(f'harness-error:scenario:{name}', f'scenario {name} could not run: {e!r}'[:300],
                              {'scenario': name, 'variant': v, 'seed': seed}, found_input=False)
                continue
            ctx.stat('scenario_runs', name)
            ctx.stat('calls', name, E.ncalls)
            ctx.stat('calls_raised', name, E.nraise)
            for k, val in v.items():
                ctx.stat('axis:' + k, str(val))
            if E.ro_traps:
                ctx.stat('readonly_write_trapped', name, len(E.ro_traps))
    return found


# ==========================================================================
# T: per-run obligations  accepts (IR of f) = true   and   K: table / aliasing correspondence
# ==========================================================================
CALLABLE_ASSUMPTIONS = {
    'centroid_func': 'the user-supplied centroid function obeys the property itself (each photutils centroid '
                     'function is its own obligation)',
    'self.gaussian_fit': 'evaluating a fitted astropy model returns a new array and writes to nothing',
    'self.sigma_clip': {'text': 'astropy SigmaClip: with copy=False it clips IN PLACE (writes through its first argument '
                                'and returns it or a copy); with copy absent/True it writes to nothing and returns a new '
                                'array (dynamic scenarios Background2D*, background_estimators, ApertureStats)',
                        'by_kw': 'copy',
                        'cases': {False: {'text': '', 'mut': [0], 'ret': 'alias'},
                                  'absent': {'text': '', 'ret': 'fresh'}, True: {'text': '', 'ret': 'fresh'}}},
    'sigma_clip': {'text': 'an astropy SigmaClip passed as a parameter: same summary as self.sigma_clip', 'by_kw': 'copy',
                   'cases': {False: {'text': '', 'mut': [0], 'ret': 'alias'}, 'absent': {'text': '', 'ret': 'fresh'},
                             True: {'text': '', 'ret': 'fresh'}}},
    'window': {'text': 'the user-supplied window function builds a new array from a shape', 'ret': 'fresh'},
    'find_column_name': 'PSFPhotometry._find_column_name (a string helper passed as an argument) writes to nothing',
    'self.interpolator': {'text': 'evaluating a scipy RectBivariateSpline returns a new array and writes to nothing '
                                  '(table row scipy.interpolate.RectBivariateSpline.__call__ is probed)', 'ret': 'fresh'},
    'interp': {'text': 'GriddedPSFModel._calc_model_values: the cached objects are scipy RectBivariateSpline instances; '
                       'evaluating one returns a new array and writes to nothing (probed table row)', 'ret': 'fresh'},
    'self.bkg_estimator': {'text': 'background estimators reduce their argument to a new array and write to nothing '
                                   '(dynamic scenario background_estimators)', 'ret': 'fresh'},
    'self.bkgrms_estimator': {'text': 'background RMS estimators reduce their argument to a new array and write to '
                                      'nothing (dynamic scenario background_estimators)', 'ret': 'fresh'},
}
SAFE_CLASSES = (
    # constructors / methods summarised as "stores references to its arguments, writes to nothing":
    'photutils.aperture.circle.CircularAperture', 'photutils.aperture.circle.CircularAnnulus',
    'photutils.aperture.bounding_box.BoundingBox',
    'photutils.detection.starfinder._StarFinderCatalog',      # own life-cycle obligation below
    'photutils.utils.cutouts.CutoutImage',                    # own life-cycle obligation below
    'photutils.detection.daofinder._DAOStarFinderCatalog',    # own life-cycle obligation below
    'photutils.detection.irafstarfinder._IRAFStarFinderCatalog',   # own life-cycle obligation below
    'photutils.utils.interpolation.ShepardIDWInterpolator',   # own life-cycle obligation below
    'photutils.psf.epsf_stars.EPSFStar',                      # __init__ is an obligation below
    'photutils.psf.gridded_models.GriddedPSFModel',           # _validate_data / evaluate are obligations; __init__ uses map()
)
# kind, module, name, methods, related dynamic scenarios (violation search), signatures that explain a rejection
TARGETS = [
    ('function', 'photutils.centroids.core', 'centroid_com', None, ['centroid_com'], [r'^centroid_com:']),
    ('function', 'photutils.centroids.core', 'centroid_quadratic', None, ['centroid_quadratic'], [r'^centroid_quadratic:']),
    ('function', 'photutils.centroids.core', 'centroid_sources', None, ['centroid_sources'], [r'^centroid_sources:']),
    ('function', 'photutils.centroids.gaussian', 'centroid_1dg', None, ['centroid_1dg'], [r'^centroid_1dg:']),
    ('function', 'photutils.centroids.gaussian', 'centroid_2dg', None, ['centroid_2dg'], [r'^centroid_2dg:']),
    ('function', 'photutils.utils._convolution', '_filter_data', None,
     ['StarFinder', 'DAOStarFinder', 'IRAFStarFinder', 'PSFPhotometry'], [r'^_filter_data']),
    ('function', 'photutils.utils.errors', 'calc_total_error', None, ['calc_total_error'], [r'^calc_total_error:']),
    ('function', 'photutils.utils._quantity_helpers', 'process_quantities', None,
     ['RadialProfile', 'CurveOfGrowth', 'centroid_1dg', 'centroid_2dg', 'StarFinder'], []),
    ('function', 'photutils.segmentation.detect', 'detect_sources', None, ['detect_sources'], [r'^detect_sources:']),
    ('methods', 'photutils.psf.photometry', 'PSFPhotometry', ['_make_mask'], ['PSFPhotometry'], [r'^PSFPhotometry:call:mask']),
    ('methods', 'photutils.background.background_2d', 'Background2D', ['_calculate_stats'],
     ['Background2D', 'Background2D_blocks'], [r'^Background2D']),
    ('methods', 'photutils.psf.gridded_models', 'GriddedPSFModel', ['evaluate'],
     ['psf_model_evaluation', 'psf_models'], [r'^psf_model']),
    ('methods', 'photutils.psf.image_models', 'ImagePSF', ['evaluate'],
     ['psf_model_evaluation', 'psf_models'], [r'^psf_model']),
    # ---- round 5: helpers and input-handling code of the entry points of the dynamic sweep ----
    ('function', 'photutils.utils._parameters', 'as_pair', None, ['Background2D', 'centroid_sources'], []),
    ('function', 'photutils.utils.cutouts', '_overlap_slices', None, ['centroid_sources', 'utils_misc'], []),
    ('function', 'photutils.utils._round', 'py2intround', None, ['centroid_quadratic'], []),
    ('function', 'photutils.utils._moments', '_moments', None, ['StarFinder', 'SourceCatalog'], []),
    ('function', 'photutils.utils._moments', '_moments_central', None, ['StarFinder', 'SourceCatalog'], []),
    ('function', 'photutils.utils.footprints', 'circular_footprint', None, ['utils_misc'], []),
    ('function', 'photutils.utils._stats', '_move_tuple_axes_last', None, ['background_estimators'], []),
    ('function', 'photutils.psf.utils', '_interpolate_missing_data', None, ['extract_stars_epsf'], []),
    ('function', 'photutils.psf.utils', '_validate_psf_model', None, ['PSFPhotometry'], []),
    ('function', 'photutils.morphology.non_parametric', 'gini', None, ['utils_misc', 'SourceCatalog'], []),
    ('function', 'photutils.segmentation.utils', '_make_binary_structure', None, ['detect_sources'], []),
    ('function', 'photutils.segmentation.utils', 'make_2dgaussian_kernel', None, ['SourceCatalog'], []),
    ('function', 'photutils.segmentation.detect', '_detect_sources', None, ['detect_sources', 'deblend_sources'], []),
    ('function', 'photutils.segmentation.detect', 'detect_threshold', None, ['detect_threshold'], []),
    ('function', 'photutils.psf.matching.fourier', 'resize_psf', None, ['psf_models'], []),
    ('function', 'photutils.psf.matching.fourier', 'create_matching_kernel', None, ['psf_models'], []),
    ('function', 'photutils.psf.matching.windows', '_radial_distance', None, ['psf_models'], []),
    ('function', 'photutils.datasets.noise', 'apply_poisson_noise', None, ['noise'], []),
    ('function', 'photutils.datasets.noise', 'make_noise_image', None, ['noise'], []),
    ('class', 'photutils.psf.matching.windows', 'SplitCosineBellWindow', None, ['psf_models'], []),
    ('class', 'photutils.background.local_background', 'LocalBackground', None, ['LocalBackground', 'PSFPhotometry'], []),
    ('class', 'photutils.background.interpolators', 'BkgZoomInterpolator', None, ['Background2D'], []),
    ('class', 'photutils.utils.interpolation', 'ShepardIDWInterpolator', None, ['utils_misc', 'Background2D'], []),
    ('class', 'photutils.background.core', 'MeanBackground', None, ['background_estimators', 'Background2D'], []),
    ('class', 'photutils.background.core', 'MedianBackground', None, ['background_estimators', 'Background2D'], []),
    ('class', 'photutils.background.core', 'ModeEstimatorBackground', None, ['background_estimators', 'Background2D'], []),
    ('class', 'photutils.background.core', 'SExtractorBackground', None, ['background_estimators', 'Background2D'], []),
    ('class', 'photutils.background.core', 'BiweightLocationBackground', None, ['background_estimators', 'Background2D'], []),
    ('class', 'photutils.background.core', 'StdBackgroundRMS', None, ['background_estimators', 'Background2D'], []),
    ('class', 'photutils.background.core', 'MADStdBackgroundRMS', None, ['background_estimators', 'Background2D'], []),
    ('class', 'photutils.background.core', 'BiweightScaleBackgroundRMS', None, ['background_estimators', 'Background2D'], []),
    ('class', 'photutils.detection.core', '_StarFinderKernel', None, ['DAOStarFinder', 'IRAFStarFinder'], []),
    ('class', 'photutils.detection.daofinder', '_DAOStarFinderCatalog', None, ['DAOStarFinder'], []),
    ('class', 'photutils.detection.irafstarfinder', '_IRAFStarFinderCatalog', None, ['IRAFStarFinder'], []),
    ('methods', 'photutils.detection.core', 'StarFinderBase', ['_find_stars'], ['DAOStarFinder', 'IRAFStarFinder', 'StarFinder'], []),
    ('methods', 'photutils.detection.daofinder', 'DAOStarFinder', ['_get_raw_catalog'], ['DAOStarFinder'], []),
    ('methods', 'photutils.detection.irafstarfinder', 'IRAFStarFinder', ['_get_raw_catalog'], ['IRAFStarFinder'], []),
    ('methods', 'photutils.background.background_2d', 'Background2D', ['__init__'],
     ['Background2D', 'Background2D_blocks', 'nddata_entry_points'], [r'^Background2D']),
    ('methods', 'photutils.background.background_2d', 'Background2D',
     ['_validate_array', '_combine_input_masks', '_combine_all_masks'], ['Background2D', 'Background2D_blocks'], [r'^Background2D']),
    ('methods', 'photutils.aperture.stats', 'ApertureStats',
     ['_validate_array', '_validate_aperture', '_data_cutouts', '_make_aperture_cutouts'], ['ApertureStats'], []),
    ('methods', 'photutils.aperture.core', 'PixelAperture', ['do_photometry', 'area_overlap', '_define_patch_params'],
     ['aperture_photometry', 'aperture_plotting', 'RadialProfile'], []),
    ('methods', 'photutils.segmentation.catalog', 'SourceCatalog',
     ['_validate_array', '_validate_segment_img', '_data_cutouts', '_prepare_cutouts', '_moment_data_cutouts',
      '_calc_kron_radius'], ['SourceCatalog'], []),
    ('methods', 'photutils.segmentation.core', 'Segment', ['data', 'data_ma', 'make_cutout', '__array__'],
     ['SegmentationImage'], []),
    ('methods', 'photutils.psf.photometry', 'PSFPhotometry',
     ['_validate_array', '_validate_init_params', '_get_aper_fluxes', '_get_invalid_positions'],
     ['PSFPhotometry', 'IterativePSFPhotometry', 'nddata_entry_points'], []),
    ('methods', 'photutils.psf.image_models', 'ImagePSF', ['_validate_data', '__init__'], ['psf_models', 'psf_model_evaluation'], []),
    ('methods', 'photutils.psf.gridded_models', 'GriddedPSFModel', ['_validate_data'], ['psf_models'], []),
    ('methods', 'photutils.psf.epsf_stars', 'EPSFStar', ['__init__'], ['extract_stars_epsf'], []),
    ('function', 'photutils.psf.model_helpers', 'grid_from_epsfs', None, ['psf_models'], [r'^psf_models:grid_from_epsfs']),
    ('function', 'photutils.psf.epsf_stars', '_extract_stars', None, ['extract_stars_epsf', 'nddata_entry_points'],
     [r'extract_stars']),
    ('class', 'photutils.profiles.radial_profile', 'RadialProfile', None, ['RadialProfile'], [r'^ProfileBase', r'^RadialProfile:']),
    ('class', 'photutils.profiles.curve_of_growth', 'CurveOfGrowth', None, ['CurveOfGrowth'], [r'^ProfileBase', r'^CurveOfGrowth:']),
    ('class', 'photutils.detection.starfinder', '_StarFinderCatalog', None, ['StarFinder'], [r'^StarFinder.find_stars:data']),
    ('class', 'photutils.detection.starfinder', 'StarFinder', None, ['StarFinder'], [r'^StarFinder.find_stars:kernel']),
    ('class', 'photutils.utils.cutouts', 'CutoutImage', None, ['utils_misc'], [r'^utils_misc:CutoutImage']),
    ('class', 'photutils.aperture.mask', 'ApertureMask', None, ['ApertureMask'], [r'^ApertureMask:']),
]


# parameters that are not among the kinds of object the property protects (DESIGN section 6, note)
UNPROTECTED = {}      # (estimators, SigmaClip objects, interpolators ... are caller-supplied objects like any other)

# candidates examined and NOT expressible as a static obligation: they stay dynamic-only (recorded in the
# evidence with the construct that stops the translator or the abstraction that makes the analysis reject)
DYNAMIC_ONLY = {
    'photutils.detection.peakfinder.find_peaks': 'analysis rejects: `peak_values = data[y_peaks, x_peaks]` (fancy indexing = copy) is abstracted as a possible view, then `peak_values <<= unit`',
    'photutils.segmentation.utils._mask_to_mirrored_value': 'analysis rejects: `mirror_mask = replace_mask[ymirror, xmirror]` (fancy indexing = copy) abstracted as a possible view, then `mirror_mask |= ...`',
    'photutils.psf.utils.fit_2dgaussian / fit_fwhm': 'builds a PSF model and runs PSFPhotometry (constructor of an unanalysed class, fitter)',
    'photutils.psf.utils._get_psf_model_params': 'assignment expression (:=)',
    'photutils.datasets.images.make_model_image / ModelImageMixin.make_model_image': 'evaluates the user model (`model(...)`, dynamic dispatch into astropy), tqdm wrapper',
    'photutils.datasets.images._model_shape_from_bbox': 'astropy `model.bounding_box()` dispatch',
    'photutils.morphology.core.data_properties': 'constructs SegmentationImage + SourceCatalog (classes not analysed as a whole); hand summary used by centroid_2dg',
    'photutils.segmentation.deblend.deblend_sources': 'constructs _DeblendParams / _SingleSourceDeblender objects, multiprocessing, skimage watershed',
    'photutils.aperture.photometry.aperture_photometry': 'recursive call for NDData input, isinstance-driven dispatch on aperture lists / sky apertures with a WCS',
    'photutils.utils._stats._apply_bottleneck': 'higher-order: the bottleneck function is a parameter',
    'photutils.background.interpolators.BkgIDWInterpolator / Background2D._interpolate_grid / _filter_grid': 'calls an interpolator object stored in a local variable (`interp_func(...)`)',
    'photutils.utils.depths.ImageDepth': 'scipy KDTree.query_pairs on random aperture positions, nested retry loops with rng state',
    'Background2D._apply_units / _sigmaclip_boxes / _compute_box_statistics (alone)': 'in-place helpers by contract (they write their ARGUMENT, which their only caller _calculate_stats makes a copy first); covered inside the Background2D._calculate_stats and Background2D.__init__ obligations',
    'photutils.aperture.stats.ApertureStats.__init__': 'sky-aperture conversion constructs SkyAperture classes through a WCS',
    'photutils.segmentation.catalog.SourceCatalog.__init__': 'setattr(self, <computed name>, ...) forces attribute reads to fall back to "anything stored on self", which taints the catalog\'s own meta dict (false alarm)',
    'photutils.segmentation.core.Segment (whole life cycle)': '_repr_svg_ / shapely polygon dispatch; the data paths data / data_ma / make_cutout / __array__ ARE static obligations',
    'PSFPhotometry._prepare_init_params / _prepare_fit_inputs / __call__ / make_residual_image': 'calls the user finder / grouper / fitter objects (`self.finder(...)`), recursion for NDData input',
    'PSFPhotometry._check_init_units': 'writes a column of its ARGUMENT by contract (the caller passes init_params.copy())',
    'PSFPhotometry._define_fit_data': 'analysis rejects: per-source cutouts are views of the data and are multiplied in place only after a conditional copy the flow-insensitive container abstraction cannot see',
    'photutils.psf.epsf_stars.extract_stars': 'isinstance-driven normalisation of lists of NDData / catalogs and the EPSFStars / LinkedEPSFStar container classes (its worker _extract_stars and EPSFStar.__init__ ARE static obligations)',
    'photutils.isophote.*': 'EllipseGeometry / EllipseSample object graph with many in-place own-state updates (documented mutators of their own object)',
    'SourceCatalog lazy properties other than the listed input-preparation methods': 'decorator stack (@as_scalar / @use_detcat wrappers), per-source object lists',
}

# private cache containers of an object (not caller data) for single-method targets
OWN_CACHES = {'GriddedPSFModel': ('_interpolator',), 'LocalBackground': ('_aperture',)}


def translate_targets(repo):
    from . import c10_translate as T
    out = []
    for kind, mod, name, meths, scen, sigs in TARGETS:
        tr = T.Translator(repo, assumptions=CALLABLE_ASSUMPTIONS)
        tr.safe_classes = SAFE_CLASSES
        rec = {'kind': kind, 'module': mod, 'name': name if not meths else f'{name}.{"/".join(meths)}', 'scen': scen,
               'sigs': sigs, 'error': None}
        try:
            if kind == 'function':
                prot, names, prog = tr.function(mod, name)
            elif kind == 'class':
                prot, names, prog = tr.lifecycle(mod, name, own=OWN_CACHES.get(name))
            else:
                prot, names, prog = tr.methods(mod, name, meths, own=OWN_CACHES.get(name, ()),
                                               unprotected=UNPROTECTED.get(name, ()))
            rec.update(params=prot, names=names, prog=prog, vars=list(tr.vars), size=T.size(prog))
        except T.Untranslatable as e:
            rec['error'] = str(e)
        except (KeyError, RecursionError) as e:
            rec['error'] = f'{type(e).__name__}: {e}'
        rec.update(spans=tr.spans, assumed=sorted(tr.assumed), unprobed=sorted(tr.unprobed), used=sorted(tr.used_rows))
        out.append(rec)
    return out


# ---- K(ii): observed aliasing between the result and each argument ----
def _leaves(o, depth=0):
    import astropy.units as u
    if depth > 4 or o is None:
        return
    if isinstance(o, np.ma.MaskedArray):
        yield np.ma.getdata(o).view(np.ndarray)
        m = np.ma.getmask(o)
        if m is not np.ma.nomask:
            yield m
    elif isinstance(o, u.Quantity):
        yield o.view(np.ndarray)
    elif isinstance(o, np.ndarray):
        yield o
    elif isinstance(o, (list, tuple)):
        for x in o:
            yield from _leaves(x, depth + 1)
    elif isinstance(o, dict):
        for x in o.values():
            yield from _leaves(x, depth + 1)


def shares(res, arg):
    for a in _leaves(res):
        for b in _leaves(arg):
            if a.size and b.size and np.shares_memory(a, b):
                return True
    return False


def _split(o):
    """(data leaves, mask leaves) of a value."""
    data, mask = [], []

    def walk(x, depth=0):
        import astropy.units as u
        if depth > 4 or x is None:
            return
        if isinstance(x, np.ma.MaskedArray):
            data.append(np.ma.getdata(x).view(np.ndarray))
            m = np.ma.getmask(x)
            if m is not np.ma.nomask:
                mask.append(m)
        elif isinstance(x, u.Quantity):
            data.append(x.view(np.ndarray))
        elif isinstance(x, np.ndarray):
            data.append(x)
        elif isinstance(x, (list, tuple)):
            for y in x:
                walk(y, depth + 1)
    walk(o)
    return data, mask


def shares_beyond_ma_mask(res, arg):
    """Sharing other than `result.mask` with `operand.mask` (numpy.ma hands an operand's mask to
    the result of element-wise operations under its copy-on-write `_sharedmask` protocol)."""
    rd, rm = _split(res)
    ad, am = _split(arg)
    any_ = lambda xs, ys: any(a.size and b.size and np.shares_memory(a, b) for a in xs for b in ys)
    return any_(rd, ad) or any_(rd, am) or any_(rm, ad)


def observed_aliasing(name, rng):
    """Run the real function on a few argument representations; for each parameter name:
    did the result share memory with it in any run?  (None = no recipe for this target)"""
    import astropy.units as u
    from photutils.centroids import (centroid_com, centroid_quadratic, centroid_1dg, centroid_2dg,
                                     centroid_sources)
    from photutils.utils._convolution import _filter_data
    from photutils.utils._quantity_helpers import process_quantities
    from photutils.utils import calc_total_error
    from photutils.segmentation import detect_sources
    y, x = np.mgrid[0:15, 0:17]
    base = 50 * np.exp(-((x - 8.2) ** 2 + (y - 6.9) ** 2) / 6.0) + 1.0

    def reps():
        m = np.zeros(base.shape, bool)
        m[0, 0] = True
        e = np.ones(base.shape)
        yield dict(data=base.copy(), mask=m.copy(), error=e.copy())
        yield dict(data=np.ma.MaskedArray(base.copy(), mask=m.copy()), mask=None, error=None)
        yield dict(data=base.copy() * u.adu, mask=m.copy(), error=e.copy() * u.adu)
        big = np.zeros((19, 40))
        v = big[2:-2, 3:-3:2]
        v[...] = base
        yield dict(data=v, mask=None, error=e.copy())
    recipes = {
        'centroid_com': lambda a: (centroid_com(a['data'], mask=a['mask']), dict(data=a['data'], mask=a['mask'])),
        'centroid_quadratic': lambda a: (centroid_quadratic(a['data'], mask=a['mask']), dict(data=a['data'], mask=a['mask'])),
        'centroid_1dg': lambda a: (centroid_1dg(a['data'], error=a['error'], mask=a['mask']), a),
        'centroid_2dg': lambda a: (centroid_2dg(a['data'], error=a['error'], mask=a['mask']), a),
        'centroid_sources': lambda a: (centroid_sources(a['data'], [8.0], [7.0], box_size=7, mask=a['mask']),
                                       dict(data=a['data'], mask=a['mask'])),
        '_filter_data': lambda a: (_filter_data(a['data'], None if a['mask'] is None else np.ones((3, 3)) / 9.0),
                                   dict(data=a['data'])),
        'calc_total_error': lambda a: (calc_total_error(np.asarray(a['data']), np.ones(base.shape), 2.0),
                                       dict(data=a['data'])),
        'process_quantities': lambda a: (process_quantities((a['data'], a['error']), ('data', 'error')),
                                         dict(values=(a['data'], a['error']))),
        'detect_sources': lambda a: (getattr(detect_sources(np.asarray(a['data']), 5.0, 3, mask=a['mask']), 'data', None),
                                     dict(data=a['data'], mask=a['mask'])),
    }
    if name not in recipes:
        return None
    obs = {}
    for a in reps():
        try:
            with warnings.catch_warnings():
                warnings.simplefilter('ignore')
                res, args = recipes[name](a)
        except Exception:
            continue
        for k, v in args.items():
            obs[k] = obs.get(k, False) or (v is not None and shares(res, v))
    return obs


# ---- K(i): the operation table against the real libraries ----
def table_samples():
    import astropy.units as u
    rs = np.random.RandomState(3)
    a = rs.normal(size=(6, 7))
    big = np.zeros((10, 20))
    v = big[2:8, 3:17:2]
    v[...] = a
    ma = np.ma.MaskedArray(a.copy(), mask=a > 1)
    return {'c_contig': a.copy(), 'f_order': np.asfortranarray(a), 'strided_view': v, 'float32': a.astype(np.float32),
            'int': (a * 10).astype(int), 'bool': a > 0, 'one_d': a[0].copy(), 'masked': ma,
            'masked_nomask': np.ma.MaskedArray(a.copy()), 'quantity': a.copy() * u.adu, 'with_nan': np.where(a > 1.5, np.nan, a)}


def check_tables(ctx):
    """Every probed row is executed on real arrays: `fresh` results never share memory with the
    argument, `view` results always do, rows without `mut` leave the argument bitwise unchanged,
    rows with `mut` do write through a view of a larger array."""
    import astropy.units as u
    import scipy.ndimage as ndi
    from astropy.nddata import extract_array
    from scipy.interpolate import PchipInterpolator
    from photutils.utils import _stats as pstats
    from . import c10_translate as T
    from astropy.modeling.fitting import TRFLSQFitter
    from astropy.modeling.models import Gaussian1D, Gaussian2D
    from astropy.nddata import reshape_as_blocks, block_replicate
    from scipy.interpolate import RectBivariateSpline
    ns = dict(np=np, u=u, ndi=ndi, extract_array=extract_array, reshape_as_blocks=reshape_as_blocks,
              block_replicate=block_replicate, RectBivariateSpline=RectBivariateSpline, copy=__import__('copy'),
              Gaussian2DKernel=__import__('astropy.convolution', fromlist=['x']).Gaussian2DKernel,
              cKDTree=__import__('scipy.spatial', fromlist=['x']).cKDTree,
              KDTree=__import__('scipy.spatial', fromlist=['x']).KDTree,
              CloughTocher2DInterpolator=__import__('scipy.interpolate', fromlist=['x']).CloughTocher2DInterpolator,
              NearestNDInterpolator=__import__('scipy.interpolate', fromlist=['x']).NearestNDInterpolator,
              biweight_location=__import__('astropy.stats', fromlist=['x']).biweight_location,
              biweight_scale=__import__('astropy.stats', fromlist=['x']).biweight_scale,
              mad_std=__import__('astropy.stats', fromlist=['x']).mad_std,
              StdDevUncertainty=__import__('astropy.nddata', fromlist=['x']).StdDevUncertainty,
              NDData=__import__('astropy.nddata', fromlist=['x']).NDData,
              VarianceUncertainty=__import__('astropy.nddata', fromlist=['x']).VarianceUncertainty, PchipInterpolator=PchipInterpolator, pstats=pstats,
              TRFLSQFitter=TRFLSQFitter, Gaussian1D=Gaussian1D, Gaussian2D=Gaussian2D)
    rows = [(k, r) for k, r in T.EXT.items()] + [('method.' + k, r) for k, r in T.METHODS.items()]
    bad = []
    nprobed = nruns = 0
    for key, row in rows:
        if not row['probe']:
            continue
        f = eval(row['probe'], ns)
        nprobed += 1
        ok_runs = 0
        seen_share, seen_noshare = False, False
        for sname, arr in table_samples().items():
            before = snap(arr)
            base_before = snap(arr.base) if isinstance(arr, np.ndarray) and arr.base is not None and sname == 'strided_view' else None
            try:
                with warnings.catch_warnings():
                    warnings.simplefilter('ignore')
                    with np.errstate(all='ignore'):
                        res = f(arr)
            except Exception:
                continue
            ok_runs += 1
            nruns += 1
            changed = snap(arr) != before
            sh = shares(res, arr)
            seen_share |= sh
            seen_noshare |= not sh
            if row['mut']:
                continue
            if changed:
                bad.append((key, sname, 'argument modified by a row declared pure'))
            if row['ret'] in ('fresh', 'scalar') and sh:
                if shares_beyond_ma_mask(res, arr):
                    bad.append((key, sname, f'result shares memory with the argument but the row says {row["ret"]}'))
                else:
                    ctx.stat('table', 'fresh_rows_sharing_only_the_ma_mask_with_the_operand')
                    ctx.stat('ma_mask_shared_by', key)
            if row['ret'] == 'view' and not sh and getattr(res, 'size', 1):
                bad.append((key, sname, 'result does not share memory but the row says view'))
        if row['mut'] and ok_runs:
            # a mutating row must actually write through (checked on the plain sample)
            arr = table_samples()['c_contig']
            b0 = snap(arr)
            try:
                f(arr)
                if snap(arr) == b0:
                    bad.append((key, 'c_contig', 'row declared in-place did not modify its argument'))
            except Exception:
                pass
        if ok_runs == 0:
            bad.append((key, '-', 'probe could not run on any sample'))
        ctx.stat('table_rows', 'maybe_seen_both' if (row['ret'] == 'maybe' and seen_share and seen_noshare) else row['ret'])
    ctx.support('operation-table rows executed against numpy/astropy/scipy (shares_memory, write-through, argument unchanged)', nprobed)
    ctx.stat('table', 'probe_runs', nruns)
    ctx.stat('table', 'rows_total', len(rows))
    ctx.stat('table', 'rows_probed', nprobed)
    for key, sname, why in bad:
        ctx.violation(f'correspondence:table:{key}', f'operation table row {key} contradicts the library on sample {sname}: {why}',
                      {'row': key, 'sample': sname, 'why': why}, found_input=False)
    return bad


def static_obligations(ctx, found):
    """Translate, evaluate `check_case` in Coq, and decide every failed obligation."""
    from . import c10_translate as T
    from .core import REPO
    recs = translate_targets(str(REPO))
    terms, idx = [], []
    for i, r in enumerate(recs):
        ctx.obligations += 1
        ctx.stat('targets', r['kind'])
        if r['error']:
            continue
        obs = observed_aliasing(r['name'], ctx.rng) if r['kind'] == 'function' else None
        pairs = []
        if obs:
            for pname, sh in sorted(obs.items()):
                if pname in r['names']:
                    pairs.append((r['names'][pname], bool(sh)))
                    ctx.stat('observed_result_aliasing', f'{r["name"]}({pname})={"shares" if sh else "disjoint"}')
        r['observed'] = pairs
        plist = '[' + '; '.join(f'{x}%N' for x in r['params']) + ']'
        olist = '[' + '; '.join(f'({p}%N, {"true" if s else "false"})' for p, s in pairs) + ']'
        terms.append(f'({plist}, {T.to_coq(r["prog"])}, true, {olist})')
        idx.append(i)
        ctx.count_case(['ir', r['name'], hashlib.sha1(terms[-1].encode()).hexdigest()], True)
    bad = ctx.coq_eval_cases(['C10_Model'], 'check_case', terms, case_type='case', tag='ir') if terms else []
    badset = {idx[k] for k in bad}
    spans = {}
    for i, r in enumerate(recs):
        spans.update(r['spans'])
        ok = (not r['error']) and i not in badset
        if ok:
            ctx.discharged += 1
            continue
        # ---- a broken obligation: decide it ----
        detail = {'target': f'{r["module"]}.{r["name"]}', 'kind': r['kind']}
        if r['error']:
            detail['untranslatable'] = r['error']
            why = 'the translator cannot handle the current source (fail-closed)'
        else:
            names = dict(enumerate(r['vars']))
            d = T.diagnose(r['params'], r['prog'], names)
            detail['rejected_write'] = d
            inv = {v: n for n, v in r['names'].items()}
            # which parameters taken alone are rejected (diagnostic replica; the verdict is Coq's)
            detail['parameters_that_may_be_written'] = [inv.get(p_, p_) for p_ in r['params']
                                                        if T.diagnose([p_], r['prog'], names)]
            why = ('the analysis does not accept the IR of the current source'
                   + (f': {d}' if d else ' (observed result aliasing not predicted)'))
        import re
        def explains(sig):
            return any(re.search(p, _canon(sig)) for p in r['sigs']) or sig.split(':')[0] in r['scen']
        explained = [s for s in found if explains(s)]
        if not explained:
            # violation search: intensified dynamic sweep of the related scenarios
            more = dynamic_sweep(ctx, 4.0 if ctx.tier == 'quick' else 12.0, only=r['scen'])
            for s_, v_ in more.items():
                found.setdefault(s_, v_)
            explained = [s for s in more if explains(s)]
        detail['explained_by'] = sorted({_canon(s) for s in explained})
        ctx.stat('obligations', 'rejected_explained_by_concrete_input' if explained else 'rejected_no_input')
        if not explained:
            ctx.violation(f'obligation:analyze:{r["name"]}', f'{r["module"]}.{r["name"]}: {why}', detail,
                          found_input=False)
        else:
            ctx.notes.append({'broken_obligation': detail, 'why': why})
    ctx.cov['translated_spans'] = spans
    ctx.cov['ir_sizes'] = {r['name']: r.get('size') for r in recs}
    ctx.cov['static_targets'] = [f'{r["module"]}.{r["name"]}' for r in recs]
    ctx.cov['dynamic_only_candidates'] = DYNAMIC_ONLY
    assumed = sorted({a for r in recs for a in r['assumed']})
    unprobed = sorted({a for r in recs for a in r['unprobed']})
    ctx.assumptions += ['translator assumption: ' + a for a in assumed]
    if unprobed:
        ctx.assumptions.append('operation-table rows used as `fresh` without an executable probe: ' + ', '.join(unprobed))
    small = [r for r in recs if not r['error'] and r['name'] == '_filter_data']
    if small:
        ctx.sample({'ir_of': 'photutils.utils._convolution._filter_data',
                    'listing': T.pretty(small[0]['prog'], dict(enumerate(small[0]['vars']))).splitlines()})
    return recs


def run(ctx):
    ctx.build(FILES)
    ctx.cov['rule'] = ('dynamic: scenario x variant (argument representation: ndarray / MaskedArray with and without '
                       'mask / Quantity / strided view of a larger array / read-only / float32 / NDData; data '
                       'condition: clean / negative sky / NaN+inf / both; mask: none / array / all-false / read-only / '
                       'view; error: none / array / non-finite / read-only; scenario-specific options), every value of '
                       'every axis visited in turn, others random; one evaluation = one public call or property read '
                       'with all caller-supplied objects deep-snapshotted before and compared bitwise after return or '
                       'raise; distinct = distinct (scenario, call, variant, seed).  static: one IR per scoped '
                       'function / class life cycle regenerated from the current source, `check_case` in Coq')
    ctx.cov['partial_clauses'] = [
        'the theorem covers the scoped functions listed under translated_spans (proof = analysis_sound + per-run '
        '`accepts` certificate); all other public entry points are covered by the dynamic sweep only (exploration)',
        'IR semantics vs Python: trusted translator + operation table (K-checked row by row; result aliasing of the '
        'scoped functions observed => predicted)',
        'external callees summarised by the table and the hand summaries listed under assumptions',
        'numpy.ma: element-wise operations hand the operand mask buffer to the result under the copy-on-write '
        '`_sharedmask` protocol (observed by the table check and counted under ma_mask_shared_by); the IR treats such '
        'results as fresh, i.e. it relies on that protocol for item assignment and does not model a direct write to '
        '`.mask` of a DERIVED masked array (a direct write to `.mask` of the argument itself is modelled and is what '
        'rejects centroid_1dg/2dg on the unrepaired tree)',
    ]
    ctx.trusted += ['harness/c10_translate.py (Python ast -> array-effects IR) and its operation table; the rows with '
                    'probes are executed against the installed numpy/astropy/scipy on every run',
                    'value abstraction: a Python value = the set of buffers reachable from it; "unchanged" = no write '
                    'through any alias (version counters)']
    scale = 1.0 if ctx.tier == 'quick' else 12.0
    found = dynamic_sweep(ctx, scale)
    check_tables(ctx)
    static_obligations(ctx, found)
    for sig, (what, detail) in sorted(found.items()):
        ctx.violation(_canon(sig), what, detail)
    if found:
        ctx.sample({'first_violation': sorted(found.items())[0][1][1]})


# one signature per defect site (the same write is seen through several labels / objects)
CANON = [
    (r'^(RadialProfile|CurveOfGrowth):init:mask', 'ProfileBase.__init__:mask'),
    (r'^StarFinder:find_stars(_again)?:data', 'StarFinder.find_stars:data'),
    (r'^StarFinder:find_stars(_again)?:kernel', 'StarFinder.find_stars:kernel'),
    (r'^centroid_1dg:call:data', 'centroid_1dg:data'),
    (r'^centroid_2dg:call:data', 'centroid_2dg:data'),
    (r'^centroid_sources:call:data', 'centroid_sources:data'),
]


def _canon(sig):
    import re
    for pat, name in CANON:
        if re.search(pat, sig):
            return name
    return re.sub(r'\.base$', '', sig)


def replay(obj):
    r = obj['replay']
    if 'scenario' not in r:
        print(json.dumps(r, indent=1)[:3000])
        return 1
    hits = []
    run_scenario(r['scenario'], r['variant'], r['seed'], lambda s, w, d: hits.append((s, w)))
    for s, w in hits:
        print('MODIFIED:', s, '|', w)
    print('property FAILS on this input' if hits else 'property holds on this input')
    return 1 if hits else 0
