"""C12 -- PSF photometry recovers rendered scenes and keeps its bookkeeping straight.

Correspondence (K): PSFPhotometry is run through its public API with a *recording
fitter* (the `fitter=` argument accepts any callable): it logs what each call was
given (sub-model names, initial values, bounds, pixel index lists, cutout values,
weights) and returns either scripted parameters ("script" mode: arbitrary dyadic
values, so every flag and every permutation is exercised exactly) or the result of
astropy's TRFLSQFitter rounded to a dyadic grid ("real" mode: rendered scenes).
The Coq model (C12_Model.check_case, vm_compute) is given the same inputs plus the
fitter's outputs per call and must reproduce the call log and the result table exactly.

Violation search (V): `oracle` restates the property in plain Python on the
implementation's output (union-find clusters, window counting, documented flag bits,
fitted values looked up by the sub-model *name* = source id), independently of the model.

Support (partial clauses, tested only): exact recovery on rendered scenes, residual
image ~ 0, flux scaling, fixed parameters, IterativePSFPhotometry(maxiters=1).
"""
import math
import random
import warnings

import numpy as np

from .core import coq, Some, Raw

PID = 'C12'
FILES = ['lib/Cases.v', 'lib/Conn.v', 'C12_Model.v', 'C12_Proofs.v', 'C12_ProofsB.v', 'C12_Properties.v']

MSG_NOOVERLAP = 'no overlap with the'
MSG_MASKED = 'is completely masked'
MSG_WEIGHTS = 'Fit weights contain a non-finite'
MSG_NONFINITE_WARN = 'unmasked non-finite values'


# ---------------------------------------------------------------------------
# the recording fitter
# ---------------------------------------------------------------------------
class RecFitter:
    """A fitter callable.  mode 'script': returns dyadic parameter values drawn from
    its own PRNG (seeded by the case); mode 'real': runs TRFLSQFitter and rounds the
    free x/y/flux values, the residual vector and sqrt(diag(param_cov)) to dyadic grids."""

    def __init__(self, mode, fseed, shape, infokind, grid=2.0 ** -20, egrid=2.0 ** -10):
        self.mode = mode
        self.rng = random.Random(fseed)
        self.shape = shape
        self.infokind = infokind      # dict: keys present in fit_info
        self.grid = grid
        self.egrid = egrid
        self.fit_info = {}
        self.calls = []
        self.outs = []
        self.slot = 0
        self.xslot = 0
        if mode == 'real':
            from astropy.modeling.fitting import TRFLSQFitter
            self.real = TRFLSQFitter()

    @staticmethod
    def _pname(base, j, n):
        return base if n == 1 else f'{base}_{j}'

    def __call__(self, model, x, y, z, weights=None, maxiter=None):
        n = model.n_submodels
        names = [model.name] if n == 1 else list(model.submodel_names)
        rec = {'ids': [int(v) for v in names], 'init': [], 'bx': [], 'by': [], 'fixed': [],
               'xi': [int(v) for v in x], 'yi': [int(v) for v in y],
               'cut': [float(v) for v in z],
               'weights': None if weights is None else [float(v) for v in weights],
               'maxiter': maxiter}
        for j in range(n):
            px = getattr(model, self._pname('x_0', j, n))
            py = getattr(model, self._pname('y_0', j, n))
            pf = getattr(model, self._pname('flux', j, n))
            rec['init'].append((float(px.value), float(py.value), float(pf.value)))
            rec['bx'].append(tuple(px.bounds))
            rec['by'].append(tuple(py.bounds))
            rec['fixed'].append((bool(pf.fixed), bool(px.fixed), bool(py.fixed)))
        self.calls.append(rec)
        extra_names = [nm for nm in (model.param_names if n == 1 else model[0].param_names)
                       if nm not in ('flux', 'x_0', 'y_0')]
        if self.mode == 'script':
            out = model.copy()
            vals = self._script(rec, n)
            info = self._script_info(rec, n, len(z), model)
            # further free parameters (fwhm, ...): a distinct dyadic value per source and parameter
            for j in range(n):
                for q, base in enumerate(extra_names):
                    p = getattr(out, self._pname(base, j, n))
                    if not p.fixed:
                        self.xslot += 1
                        setattr(out, self._pname(base, j, n), 1.0 + (self.xslot % 61) / 8)
        else:
            out = self.real(model, x, y, z, weights=weights, maxiter=maxiter)
            vals = []
            for j in range(n):
                v = []
                for base in ('x_0', 'y_0', 'flux'):
                    p = getattr(out, self._pname(base, j, n))
                    v.append(float(p.value) if p.fixed else round(float(p.value) / self.grid) * self.grid)
                vals.append(tuple(v))
            info = self._real_info(out)
            for j in range(n):
                for base in extra_names:
                    p = getattr(out, self._pname(base, j, n))
                    if not p.fixed:
                        setattr(out, self._pname(base, j, n), round(float(p.value) / self.grid) * self.grid)
        for j in range(n):
            for base, v in zip(('x_0', 'y_0', 'flux'), vals[j]):
                p = getattr(out, self._pname(base, j, n))
                if not p.fixed:
                    setattr(out, self._pname(base, j, n), v)
        final = [tuple(float(getattr(out, self._pname(b, j, n)).value) for b in ('x_0', 'y_0', 'flux'))
                 for j in range(n)]
        extra = [[float(getattr(out, self._pname(base, j, n)).value) for base in extra_names
                  if not getattr(out, self._pname(base, j, n)).fixed] for j in range(n)]
        self.fit_info = info
        self.outs.append({'par': final, 'info': info, 'ids': rec['ids'], 'extra': extra,
                          'extra_names': [b for b in extra_names if not getattr(out, self._pname(b, 0, n)).fixed]})
        return out

    # ---- scripted outputs ----
    def _coord(self, init, bounds, npx):
        r = self.rng
        c = r.random()
        lo_, hi_ = bounds
        if lo_ is not None and c < 0.25:
            return lo_ if r.random() < 0.5 else hi_
        if c < 0.33:
            return -r.randint(1, 24) / 8
        if c < 0.41:
            return npx + r.randint(1, 24) / 8
        if c < 0.46:
            return float(npx)
        if c < 0.51:
            return 0.0
        return init + r.randint(-12, 12) / 8

    def _script(self, rec, n):
        r = self.rng
        vals = []
        for j in range(n):
            xi, yi, fi = rec['init'][j]
            xv = self._coord(xi, rec['bx'][j], self.shape[1])
            yv = self._coord(yi, rec['by'][j], self.shape[0])
            k = (self.slot % 15) - 3
            self.slot += 1
            c = r.random()
            fv = 0.0 if c < 0.08 else (-(2.0 ** k) if c < 0.25 else 2.0 ** k)
            vals.append((xv, yv, fv))
        return vals

    def _script_info(self, rec, n, npix, model):
        r = self.rng
        info = {}
        kind = self.infokind
        if kind['ierr']:
            info['ierr'] = r.choice([1, 1, 2, 3, 4, 5, 0, -1])
        if kind['status']:
            info['status'] = r.choice([1, 1, 2, 3, 0, -1])
        if kind['message']:
            info['message'] = 'scripted'
        nfree = sum(1 for nm in model.param_names if not model.fixed[nm])
        if kind['cov'] and r.random() < 0.75:
            e = np.array([r.randint(0, 40) / 8 for _ in range(nfree)])
            cov = np.diag(e ** 2)
            if nfree > 1 and r.random() < 0.5:
                cov[0, 1] = cov[1, 0] = 0.125
            info['param_cov'] = cov
        elif kind['cov'] and r.random() < 0.5:
            info['param_cov'] = None
        if kind['fvec']:
            info['fvec'] = np.array([float(r.randint(-9, 9)) for _ in range(npix)])
        if kind['fun']:
            info['fun'] = np.array([float(r.randint(-9, 9)) for _ in range(npix)])
        return info

    def _real_info(self, out):
        src = self.real.fit_info
        info = {}
        for key in ('ierr', 'status', 'message'):
            v = src.get(key, None) if hasattr(src, 'get') else None
            if v is not None:
                info[key] = v
        for key in ('fvec', 'fun'):
            v = src.get(key, None)
            if v is not None:
                info[key] = np.round(np.asarray(v, float) / self.grid) * self.grid
        cov = src.get('param_cov', None)
        if cov is not None:
            d = np.diag(np.asarray(cov, float))
            if np.all(np.isfinite(d)) and np.all(d >= 0) and np.all(d < 2.0 ** 20):
                e = np.round(np.sqrt(d) / self.egrid) * self.egrid
                info['param_cov'] = np.diag(e ** 2)
        return info


# ---------------------------------------------------------------------------
# PSF models
# ---------------------------------------------------------------------------
def make_psf(spec):
    from photutils.psf import CircularGaussianPRF, GaussianPRF, ImagePSF, GriddedPSFModel
    kind = spec['kind']
    if kind == 'cgprf':
        m = CircularGaussianPRF(fwhm=spec['fwhm'])
    elif kind == 'gprf':
        m = GaussianPRF(x_fwhm=spec['fwhm'], y_fwhm=spec.get('y_fwhm', spec['fwhm'] * 1.25), theta=0.0)
    elif kind == 'moffat':
        from photutils.psf import MoffatPSF
        m = MoffatPSF(alpha=spec['alpha'], beta=spec.get('beta', 2.5))
    elif kind in ('image', 'gridded'):
        from astropy.nddata import NDData
        os_ = spec.get('oversampling', 1)
        half = 6 * os_
        yy, xx = np.mgrid[-half:half + 1, -half:half + 1]
        sig = spec['fwhm'] / 2.3548200450309493 * os_
        stamp = np.exp(-(xx ** 2 + yy ** 2) / (2 * sig ** 2))
        stamp /= stamp.sum() / os_ ** 2
        if kind == 'image':
            m = ImagePSF(stamp, oversampling=os_)
        else:
            stamps = np.array([stamp, stamp, stamp, stamp])
            meta = {'grid_xypos': [(0, 0), (spec['gx'], 0), (0, spec['gy']), (spec['gx'], spec['gy'])],
                    'oversampling': os_}
            m = GriddedPSFModel(NDData(stamps, meta=meta))
    else:
        raise ValueError(kind)
    for nm in spec.get('fix', []):
        getattr(m, nm).fixed = True
    for nm in spec.get('free', []):
        getattr(m, nm).fixed = False
    return m


def psf_fixed_nextra(m):
    fx = (bool(m.fixed['flux']), bool(m.fixed['x_0']), bool(m.fixed['y_0']))
    nextra = sum(1 for nm in m.param_names if nm not in ('flux', 'x_0', 'y_0') and not m.fixed[nm])
    return fx, nextra


# ---------------------------------------------------------------------------
# running the implementation
# ---------------------------------------------------------------------------
def arr(a, dtype=float):
    if a is None:
        return None
    return np.array([[np.nan if v is None else (np.inf if v == 'inf' else (-np.inf if v == '-inf' else v))
                      for v in row] for row in a], dtype)


def jarr(a):
    if a is None:
        return None
    return [[None if (isinstance(v, float) and math.isnan(v)) else
             ('inf' if v == math.inf else ('-inf' if v == -math.inf else v)) for v in row]
            for row in np.asarray(a).tolist()]


def make_localbkg(spec):
    """None | [inner, outer] (default clipped median) | {'inner', 'outer', 'est': median-clip|median|mean}"""
    if not spec:
        return None
    from photutils.background import LocalBackground, MeanBackground, MedianBackground
    if isinstance(spec, (list, tuple)):
        return LocalBackground(*spec)
    est = {'median-clip': lambda: MedianBackground(), 'median': lambda: MedianBackground(sigma_clip=None),
           'mean': lambda: MeanBackground(sigma_clip=None)}[spec.get('est', 'median-clip')]()
    return LocalBackground(spec['inner'], spec['outer'], est)


def build_phot(case, fitter):
    from photutils.psf import PSFPhotometry, SourceGrouper
    psf = make_psf(case['psf'])
    grouper = None
    if case['grouping'].get('t') is not None:     # kind 'sep', or kind 'user' with a grouper ALSO configured
        grouper = SourceGrouper(case['grouping']['t'])
    lb = make_localbkg(case.get('localbkg'))
    xyb = case['xy_bounds']
    if isinstance(xyb, list):
        xyb = tuple(xyb)
    return PSFPhotometry(psf, tuple(case['fit_shape']), fitter=fitter, grouper=grouper, xy_bounds=xyb,
                         localbkg_estimator=lb, aperture_radius=case.get('aperture_radius'))


def init_table(case):
    from astropy.table import Table
    t = Table()
    if case['ids'] is not None:
        t['id'] = case['ids']
    t[case.get('xcol', 'x')] = [float(v) for v in case['x']]
    t[case.get('ycol', 'y')] = [float(v) for v in case['y']]
    if case['flux'] is not None:
        t[case.get('fcol', 'flux')] = [float(v) for v in case['flux']]
    if case['local_bkg'] is not None:
        t['local_bkg'] = [float(v) for v in case['local_bkg']]
    if case['grouping']['kind'] == 'user':
        t['group_id'] = case['grouping']['gids']
    for nm, vals in (case.get('extra_init') or {}).items():
        t[nm] = [float(v) for v in vals]
    return t


def run_impl(case):
    """Returns dict(code, warn_nf, warn_conv, table, calls, outs, errind, exc)."""
    # import before entering catch_warnings: astropy installs its warnings->logger hook at import
    # time, which would otherwise swallow the warnings of the first case
    import astropy.table  # noqa: F401
    import astropy.modeling.fitting  # noqa: F401
    import photutils.psf  # noqa: F401
    import photutils.background  # noqa: F401
    data = arr(case['data'])
    mask = arr(case['mask'], bool)
    error = arr(case['error'])
    fitter = RecFitter(case['mode'], case['fseed'], data.shape, case['infokind'])
    res = {'code': 0, 'table': None, 'exc': None, 'errind': [], 'phot': None, 'mask_after': None}
    with warnings.catch_warnings(record=True) as w:
        warnings.simplefilter('always')
        try:
            phot = build_phot(case, fitter)
            mask_arg = None if mask is None else mask.copy()      # the caller's bad-pixel mask object
            try:
                tbl = phot(data.copy(), mask=mask_arg,
                           error=None if error is None else error.copy(), init_params=init_table(case))
            finally:
                if mask_arg is not None and not np.array_equal(mask_arg, mask):
                    res['mask_after'] = mask_arg
            res['table'] = tbl
            res['errind'] = [int(v) for v in phot.fit_info['fit_error_indices']]
            res['phot'] = phot
        except Exception as e:  # classified below
            msg = str(e)
            res['exc'] = f'{type(e).__name__}: {msg[:200]}'
            if isinstance(e, ValueError) and MSG_NOOVERLAP in msg:
                res['code'] = 1
            elif isinstance(e, ValueError) and MSG_MASKED in msg:
                res['code'] = 2
            elif isinstance(e, ValueError) and MSG_WEIGHTS in msg:
                res['code'] = 3
            else:
                res['code'] = 99
    res['warn_nf'] = any(MSG_NONFINITE_WARN in str(x.message) for x in w)
    res['warn_conv'] = any('may not have converged' in str(x.message) for x in w)
    res['calls'] = fitter.calls
    res['outs'] = fitter.outs
    return res


# ---------------------------------------------------------------------------
# Coq terms
# ---------------------------------------------------------------------------
class NotExact(Exception):
    pass


def zs(v, sc):
    """exact scaled integer of a float"""
    f = float(v) * sc
    if not math.isfinite(f) or f != math.floor(f):
        raise NotExact(f'{v!r} * {sc} is not an integer')
    return int(f)


def ozs(v, sc):
    if v is None:
        return None
    v = float(v)
    if not math.isfinite(v):
        return None
    return Some(zs(v, sc))


def qv(v):
    """float -> None (non-finite) | Some (m, k) with v = m / 2^k"""
    v = float(np.ravel(v)[0])
    if not math.isfinite(v):
        return None
    num, den = v.as_integer_ratio()
    k = den.bit_length() - 1
    while num and num % 2 == 0 and num.bit_length() > 60:
        num //= 2
        k -= 1
    return Some((num, k))


def colvals(tbl, name):
    c = tbl[name]
    return [float(getattr(v, 'value', v)) for v in c]


def enc_bound(b, sc):
    lo_, hi_ = b
    if lo_ is None and hi_ is None:
        return [None, None]
    return [ozs(lo_, sc), ozs(hi_, sc)]


def to_coq(case, res):
    sc = case['sc']
    data = arr(case['data'])
    ny, nx = data.shape
    fy, fx = case['fit_shape']
    mask = arr(case['mask'], bool)
    fin = np.isfinite(data)
    if mask is None and fin.all():
        fin_l, mask_t = [], None
    else:
        fin_l = [bool(v) for v in fin.ravel()]
        mask_t = None if mask is None else Some([bool(v) for v in mask.ravel()])
    if case['cmpcut']:
        data_l = [ozs(v, sc) for v in data.ravel()]
    else:
        data_l = []
    err = arr(case['error'])
    if err is None:
        errbad = None
    else:
        with np.errstate(all='ignore'):
            errbad = Some([bool(v) for v in (~np.isfinite(1.0 / err)).ravel()])
    xyb = case['xy_bounds']
    if xyb is None:
        xyb_t = None
    else:
        b = list(xyb) if isinstance(xyb, (list, tuple)) else [xyb, xyb]
        xyb_t = Some((ozs(b[0], sc), ozs(b[1], sc)))
    psf = make_psf(case['psf'])
    fixd, nextra = psf_fixed_nextra(psf)
    g = case['grouping']
    if g['kind'] == 'id':
        grp = Raw('GId')
    elif g['kind'] == 'user':
        grp = Raw('(GUser ' + coq([int(v) for v in g['gids']]) + ')')
    else:
        grp = Raw(f"(GSep {zs(g['t'], sc)})")
    n = len(case['x'])
    tbl = res['table']
    # flux_init / local_bkg handed to the model: the given columns, else what the
    # implementation measured (aperture photometry / LocalBackground are library numerics)
    if case['flux'] is not None:
        flux = case['flux']
    elif tbl is not None:
        # rows of the table are in id order; ids are 1..n in input order unless given
        order = list(range(n)) if case['ids'] is None else list(np.argsort(case['ids']))
        fl = colvals(tbl, 'flux_init')
        flux = [0.0] * n
        for pos, irow in enumerate(order):
            flux[irow] = fl[pos]
    else:
        flux = [0.0] * n
    if case['local_bkg'] is not None:
        bkg = case['local_bkg']
    elif case.get('localbkg'):
        # the estimator applied by the harness itself to the unmasked, finite annulus pixels (also needed when
        # the call raised after some groups were fitted: the cutouts in the call log are data - local_bkg)
        eff = ~fin if mask is None else (~fin | mask)
        with warnings.catch_warnings():
            warnings.simplefilter('ignore')
            bkg = [float(v) for v in np.atleast_1d(make_localbkg(case['localbkg'])(
                data, np.array(case['x'], float), np.array(case['y'], float), mask=eff))]
    else:
        bkg = [0.0] * n
    ins = [(zs(case['x'][i], sc), zs(case['y'][i], sc), zs(flux[i], sc), zs(bkg[i], sc)) for i in range(n)]
    ids_t = None if case['ids'] is None else Some([int(v) for v in case['ids']])
    fits = []
    for o in res['outs']:
        info = o['info']
        cov = info.get('param_cov', None)
        cov_t = None
        if cov is not None:
            cov_t = Some([zs(math.sqrt(v), sc) for v in np.diag(cov)])
        fv = info.get('fvec', None)
        fn = info.get('fun', None)
        fits.append(([(zs(a, sc), zs(b, sc), zs(c, sc)) for a, b, c in o['par']],
                     None if info.get('ierr') is None else Some(int(info['ierr'])),
                     None if info.get('status') is None else Some(int(info['status'])),
                     cov_t,
                     None if fv is None else Some([zs(v, sc) for v in fv]),
                     None if fn is None else Some([zs(v, sc) for v in fn]),
                     [[zs(v, sc) for v in ex] for ex in o.get('extra', [[] for _ in o['par']])]))
    calls = []
    for c in res['calls']:
        init = []
        for a, b, f in c['init']:
            init += [Some(zs(a, sc)), Some(zs(b, sc)), Some(zs(f, sc))]
        bx, by = [], []
        for b in c['bx']:
            bx += enc_bound(b, sc)
        for b in c['by']:
            by += enc_bound(b, sc)
        cut = [ozs(v, sc) for v in c['cut']] if case['cmpcut'] else []
        calls.append([[Some(v) for v in c['ids']], init, bx, by,
                      [Some(v) for v in c['yi']], [Some(v) for v in c['xi']], cut])
    rows, metrics = [], []
    xnames = res['outs'][0].get('extra_names', []) if res['outs'] else []
    if tbl is not None:
        cols = {k: colvals(tbl, k) for k in ('local_bkg', 'x_init', 'y_init', 'flux_init', 'x_fit', 'y_fit',
                                             'flux_fit', 'x_err', 'y_err', 'flux_err')}
        for i in range(len(tbl)):
            rows.append([Some(int(tbl['id'][i])), Some(int(tbl['group_id'][i])), Some(int(tbl['group_size'][i])),
                         ozs(cols['local_bkg'][i], sc), ozs(cols['x_init'][i], sc), ozs(cols['y_init'][i], sc),
                         ozs(cols['flux_init'][i], sc), ozs(cols['x_fit'][i], sc), ozs(cols['y_fit'][i], sc),
                         ozs(cols['flux_fit'][i], sc), ozs(cols['x_err'][i], sc), ozs(cols['y_err'][i], sc),
                         ozs(cols['flux_err'][i], sc), Some(int(tbl['npixfit'][i])), Some(int(tbl['flags'][i]))] +
                        [ozs(float(getattr(tbl[nm + '_fit'][i], 'value', tbl[nm + '_fit'][i])), sc) for nm in xnames])
            metrics.append((qv(tbl['qfit'][i]), qv(tbl['cfit'][i])))
    expected = (res['code'], res['warn_nf'], calls, rows, metrics, res['errind'])
    term = ((ny, nx, fy, fx, sc), (fin_l, mask_t), data_l, errbad, xyb_t, (fixd, nextra),
            (ids_t, grp, ins), fits, bool(case['cmpcut']), expected)
    return coq(term)


# ---------------------------------------------------------------------------
# the property restated in plain Python (oracle for the violation search)
# ---------------------------------------------------------------------------
def clusters_single_linkage(x, y, t):
    """First-appearance ids of the connected components of the graph d <= t."""
    from fractions import Fraction as F
    n = len(x)
    parent = list(range(n))

    def find(a):
        while parent[a] != a:
            parent[a] = parent[parent[a]]
            a = parent[a]
        return a
    for i in range(n):
        for j in range(i + 1, n):
            d2 = (F(x[i]) - F(x[j])) ** 2 + (F(y[i]) - F(y[j])) ** 2
            if d2 <= F(t) ** 2:
                parent[find(i)] = find(j)
    ids, seen = [], {}
    for i in range(n):
        r = find(i)
        if r not in seen:
            seen[r] = len(seen) + 1
        ids.append(seen[r])
    return ids


def second_call_same_mask(case, mask_after, mask_orig):
    """The call wrote into the caller's mask array.  Consequence inside this property: a later call that is
    handed the SAME mask object with an image that is finite everywhere loses pixels that are neither masked
    by the user nor non-finite: npixfit / flag 1 no longer reflect the mask."""
    c2 = dict(case)
    d = arr(case['data'])
    c2['data'] = jarr(np.where(np.isfinite(d), d, 0.0))
    c2['mask'] = mask_after.astype(int).tolist()
    r_same = run_impl(c2)
    c2['mask'] = mask_orig.astype(int).tolist()
    r_fresh = run_impl(c2)
    n_extra = int(np.count_nonzero(mask_after & ~mask_orig))
    detail = ''
    if r_same['table'] is not None and r_fresh['table'] is not None:
        detail = (f"; second call on a finite image with the same mask object: npixfit {[int(v) for v in r_same['table']['npixfit']]}"
                  f" flags {[int(v) for v in r_same['table']['flags']]} instead of {[int(v) for v in r_fresh['table']['npixfit']]}"
                  f" {[int(v) for v in r_fresh['table']['flags']]}")
    elif r_same['code'] != r_fresh['code']:
        detail = f"; second call with the same mask object ends with outcome {r_same['code']} instead of {r_fresh['code']}"
    return ('_make_mask:caller-mask-modified',
            f'the call set {n_extra} pixel(s) of the caller\'s mask array (the non-finite pixels of this image)' + detail)


def oracle(case, res):
    """List of (signature, message) for every clause of the property that the
    implementation's output contradicts on this input."""
    out = []
    data = arr(case['data'])
    ny, nx = data.shape
    fy, fx = case['fit_shape']
    mask = arr(case['mask'], bool)
    bad = ~np.isfinite(data)                      # 'NaN or inf are automatically masked'
    eff = bad if mask is None else (bad | mask)
    n = len(case['x'])
    x, y = [float(v) for v in case['x']], [float(v) for v in case['y']]
    ids = list(range(1, n + 1)) if case['ids'] is None else [int(v) for v in case['ids']]
    g = case['grouping']
    if g['kind'] == 'id':
        gids = list(ids)
    elif g['kind'] == 'user':
        gids = [int(v) for v in g['gids']]
    else:
        gids = clusters_single_linkage(x, y, g['t'])
    # windows
    wins, npix, overlap, wins_all = [], [], [], []
    for i in range(n):
        y0 = math.ceil(y[i] - fy / 2)
        x0 = math.ceil(x[i] - fx / 2)
        pix = [(yy, xx) for yy in range(max(0, y0), min(ny, y0 + fy))
               for xx in range(max(0, x0), min(nx, x0 + fx))]
        overlap.append(len(pix) > 0)
        wins_all.append(pix)
        pix = [p for p in pix if not eff[p]]
        wins.append(pix)
        npix.append(len(pix))
    err = arr(case['error'])
    expect_code = 0
    if not all(overlap):
        expect_code = 1
    else:
        # groups are fitted in increasing group id; within a group in input order
        order = sorted(range(n), key=lambda i: (gids[i], i))
        seen_groups = []
        for i in order:
            if gids[i] not in seen_groups:
                seen_groups.append(gids[i])
        for gid in seen_groups:
            members = [i for i in order if gids[i] == gid]
            if any(npix[i] == 0 for i in members):
                expect_code = 2
                break
            if err is not None:
                with np.errstate(all='ignore'):
                    wts = [1.0 / err[p] for i in members for p in wins[i]]
                if not np.all(np.isfinite(wts)):
                    expect_code = 3
                    break
    if res['code'] != expect_code:
        # HEAD's _make_mask leaves NaNs unmasked when mask= is given: the fitter (NonFiniteValueError) or the
        # aperture-photometry flux guess (NaN -> 'Initial guess is outside of provided bounds') then fails
        sig = '_make_mask:mask-and-nonfinite' if (mask is not None and (bad & ~mask).any()
                                                  and res['code'] == 99) else 'PSFPhotometry:outcome'
        out.append((sig, f"outcome code {res['code']} ({res['exc']}) but the property expects {expect_code}"))
        return out
    if res.get('mask_after') is not None:
        out.append(second_call_same_mask(case, res['mask_after'], mask))
    if (bad & ~(mask if mask is not None else np.zeros_like(bad))).any() != res['warn_nf']:
        out.append(('_make_mask:warning', 'non-finite-values warning does not match the data/mask'))
    if expect_code != 0:
        return out
    tbl = res['table']
    if len(tbl) != n:
        out.append(('PSFPhotometry:rows', f'{len(tbl)} rows for {n} sources'))
        return out
    # rows in id order (= input order when ids are 1..N)
    rowsrc = sorted(range(n), key=lambda i: ids[i])
    byid, xbyid = {}, {}
    for o in res['outs']:
        for k_sub, (sid, par) in enumerate(zip(o['ids'], o['par'])):
            byid[sid] = (par, o['info'])
            xbyid[sid] = dict(zip(o.get('extra_names', []), o.get('extra', [[]] * len(o['ids']))[k_sub]))
    psf = make_psf(case['psf'])
    fixd, nextra_ = psf_fixed_nextra(psf)
    xyb = case['xy_bounds']
    if xyb is not None and not isinstance(xyb, (list, tuple)):
        xyb = [xyb, xyb]
    sizes = {gid: gids.count(gid) for gid in set(gids)}
    want_bkg = None
    if case.get('localbkg') and case['local_bkg'] is None:
        # masked (and non-finite) pixels are excluded from ALL calculations, the background annulus included:
        # the harness applies the same estimator itself, with the effective mask
        with warnings.catch_warnings():
            warnings.simplefilter('ignore')
            want_bkg = np.atleast_1d(make_localbkg(case['localbkg'])(data, np.array(x), np.array(y), mask=eff))
    elif case['local_bkg'] is not None:
        want_bkg = [float(v) for v in case['local_bkg']]
    for r, i in enumerate(rowsrc):
        if want_bkg is not None:
            gb = tbl['local_bkg'][r]
            gb = float(getattr(gb, 'value', gb))
            wb = float(want_bkg[i])
            if not (gb == wb or (math.isnan(gb) and math.isnan(wb))):
                out.append(('_prepare_init_params:local_bkg',
                            f'row {r} (input row {i}, id {ids[i]}): local_bkg {gb} != {wb} = the estimator applied '
                            'to the unmasked pixels of the annulus (or the supplied column)'))
        def bad_(sig, msg):
            out.append((sig, f'row {r} (input row {i}, id {ids[i]}): {msg}'))
        if int(tbl['id'][r]) != ids[i]:
            bad_('PSFPhotometry:ids', f"id {int(tbl['id'][r])}")
        if float(tbl['x_init'][r]) != x[i] or float(tbl['y_init'][r]) != y[i]:
            bad_('PSFPhotometry:row-order', 'x_init/y_init are not those of the input row')
        if int(tbl['group_id'][r]) != gids[i]:
            sig = 'SourceGrouper:single-linkage' if g['kind'] == 'sep' else 'PSFPhotometry:group_id'
            bad_(sig, f"group_id {int(tbl['group_id'][r])} != {gids[i]}")
        if int(tbl['group_size'][r]) != sizes[gids[i]]:
            bad_('PSFPhotometry:group_size', f"group_size {int(tbl['group_size'][r])} != {sizes[gids[i]]}")
        if int(tbl['npixfit'][r]) != npix[i]:
            # the value the HEAD text of _make_mask produces: only the caller's mask is applied
            head = (sum(1 for p in wins_all[i] if not mask[p]) if mask is not None else None)
            sig = ('_make_mask:mask-and-nonfinite' if (head is not None and head != npix[i]
                                                       and int(tbl['npixfit'][r]) == head)
                   else '_define_fit_data:npixfit')
            bad_(sig, f"npixfit {int(tbl['npixfit'][r])} != {npix[i]} unmasked finite pixels of the window")
        if ids[i] not in byid:
            bad_('PSFPhotometry:fit-call', 'no fitter call carried this source')
            continue
        (xf, yf, ff), info = byid[ids[i]]
        # further free parameters (fwhm, alpha, ...): the *_fit column carries the value fitted for THIS source
        for nm, xv in xbyid.get(ids[i], {}).items():
            gv = tbl[nm + '_fit'][r]
            gv = float(getattr(gv, 'value', gv))
            if gv != xv:
                bad_('_order_by_id:extra-params', f'{nm}_fit {gv} is not the value the fitter returned for this source ({xv})')
        got = (float(tbl['x_fit'][r]), float(tbl['y_fit'][r]), float(getattr(tbl['flux_fit'][r], 'value', tbl['flux_fit'][r])))
        if got != (xf, yf, ff):
            bad_('_order_by_id:fit-params', f'fit values {got} are not those the fitter returned for this source {(xf, yf, ff)}')
        fl = 0
        if npix[i] < fy * fx:
            fl += 1
        if xf < 0 or yf < 0 or xf > nx or yf > ny:
            fl += 2
        if ff <= 0:
            fl += 4
        ierr, status = info.get('ierr'), info.get('status')
        if ierr is not None:
            if ierr not in (1, 2, 3, 4):
                fl += 8
        elif status is not None and status in (-1, 0):
            fl += 8
        if info.get('param_cov', None) is None:
            fl += 16
        if xyb is not None:
            hit = False
            if xyb[0] is not None and (xf == x[i] - xyb[0] or xf == x[i] + xyb[0]):
                hit = True
            if xyb[1] is not None and (yf == y[i] - xyb[1] or yf == y[i] + xyb[1]):
                hit = True
            if hit:
                fl += 32
        if int(tbl['flags'][r]) != fl:
            d = int(tbl['flags'][r]) ^ fl
            sig = '_define_flags:param_cov-none' if d == 16 else f'_define_flags:bits-{d}'
            bad_(sig, f"flags {int(tbl['flags'][r])} != documented {fl}")
        # x_err / y_err / flux_err = this source's slice of sqrt(diag(param_cov)) of its own call
        cov = info.get('param_cov', None)
        ids_call = next(o['ids'] for o in res['outs'] if ids[i] in o['ids'])
        slot = ids_call.index(ids[i])
        nfree_ = sum(1 for v in fixd if not v) + nextra_
        want_err = {}
        pos_ = 0
        for nm, fxd in zip(('flux', 'x', 'y'), fixd):
            if fxd or cov is None:
                want_err[nm] = math.nan
            else:
                want_err[nm] = math.sqrt(np.diag(cov)[slot * nfree_ + pos_])
            if not fxd:
                pos_ += 1
        for nm in ('x', 'y', 'flux'):
            gv = tbl[nm + '_err'][r]
            gv = float(getattr(gv, 'value', gv))
            wv = want_err[nm]
            if not (gv == wv or (math.isnan(gv) and math.isnan(wv))):
                bad_('_split_param_errs:err-columns', f'{nm}_err {gv} is not the error of this source ({wv})')
        for k_, (nm, fxd) in enumerate(zip(('flux', 'x', 'y'), fixd)):
            if fxd:
                init_v = {'flux': float(getattr(tbl['flux_init'][r], 'value', tbl['flux_init'][r])), 'x': x[i], 'y': y[i]}[nm]
                fit_v = {'flux': ff, 'x': xf, 'y': yf}[nm]
                if init_v != fit_v:
                    bad_('PSFPhotometry:fixed-param', f'fixed {nm} changed from {init_v} to {fit_v}')
    return out


# ---------------------------------------------------------------------------
# generators
# ---------------------------------------------------------------------------
def q8(rng, a, b):
    return rng.randint(int(a * 8), int(b * 8)) / 8


def gen_positions(rng, n, ny, nx, fy, fx, kind):
    xs, ys = [], []
    while len(xs) < n:
        c = rng.random()
        if kind == 'cluster' and xs and c < 0.6:
            k = rng.randrange(len(xs))
            step = rng.choice([(1, 0), (0, 1), (1.5, 0), (0, 2), (1.5, 2), (3, 4), (0.75, 1), (2, 0), (1, 1), (0, 2.5)])
            sx, sy = rng.choice([-1, 1]), rng.choice([-1, 1])
            x, y = xs[k] + sx * step[0], ys[k] + sy * step[1]
        elif c < 0.15:      # near / across an edge, still overlapping
            x = rng.choice([q8(rng, -fx / 2 + 0.125, 1), q8(rng, nx - 2, nx - 1 + fx / 2 - 0.125)])
            y = q8(rng, 0, ny - 1)
        elif c < 0.3:
            y = rng.choice([q8(rng, -fy / 2 + 0.125, 1), q8(rng, ny - 2, ny - 1 + fy / 2 - 0.125)])
            x = q8(rng, 0, nx - 1)
        elif c < 0.4:       # half-integer (ties of ceil)
            x = rng.randint(0, nx - 1) + 0.5
            y = rng.randint(0, ny - 1) + rng.choice([0.0, 0.5])
        elif c < 0.5:       # integer
            x, y = float(rng.randint(0, nx - 1)), float(rng.randint(0, ny - 1))
        else:
            x, y = q8(rng, 0, nx - 1), q8(rng, 0, ny - 1)
        if (x, y) in zip(xs, ys):
            continue
        xs.append(x)
        ys.append(y)
    return xs, ys


def supplied_vs_linkage(rng, xs, ys, t, allow_split=True):
    """A group_id column that DIFFERS from what SourceGrouper(t) returns: the single-linkage partition with a close
    pair split / two distant clusters merged / the same partition under permuted labels / an unrelated partition.
    Returns (gids, how)."""
    base = clusters_single_linkage(xs, ys, t)
    n = len(base)
    k = max(base)
    how = rng.choice(['split', 'merge', 'permute', 'random'] if allow_split else ['merge', 'permute', 'permute'])
    g = list(base)
    if how == 'split':
        big = [c for c in set(base) if base.count(c) >= 2]
        if big:
            c = rng.choice(big)
            members = [i for i in range(n) if base[i] == c]
            for i in rng.sample(members, rng.randint(1, len(members) - 1)):
                g[i] = k + 1
        else:
            how = 'merge'
    if how == 'merge':
        if k >= 2:
            a, b = rng.sample(range(1, k + 1), 2)
            g = [a if v == b else v for v in g]
        else:
            how = 'permute'
    if how == 'random':
        labels = rng.sample(range(1, 40), rng.randint(1, n))
        g = [rng.choice(labels) for _ in range(n)]
    # labels: a fresh injective relabelling that is never the grouper's own first-appearance numbering
    for _ in range(20):
        labs = rng.sample(range(1, 60), max(g) if how != 'random' else 0) if how != 'random' else None
        out = g if labs is None else [labs[v - 1] for v in g]
        if out != base:
            return out, how
    return [v + 100 for v in base], 'permute'


def gen_script_case(rng):
    ny, nx = rng.randint(4, 13), rng.randint(4, 13)
    fy, fx = rng.choice([1, 3, 3, 5, 5, 7]), rng.choice([1, 3, 3, 5, 5, 7])
    n = rng.choice([1, 1, 2, 2, 3, 3, 4, 5, 6, 7, 8])
    gk = rng.choice(['id', 'user', 'user', 'sep', 'sep', 'sep', 'user+grouper', 'user+grouper'])
    xs, ys = gen_positions(rng, n, ny, nx, fy, fx, 'cluster' if gk in ('sep', 'user+grouper') else 'any')
    klass = ['interior']
    # occasionally one source fully off the image (error case) or exactly at the limit
    if rng.random() < 0.06:
        i = rng.randrange(n)
        xs[i] = rng.choice([-fx / 2 - rng.choice([0, 0.125, 1]), nx - 1 + fx / 2 + rng.choice([0, 0.125, 1.5]),
                            -fx / 2 + 0.125, nx - 1 + fx / 2])
        klass.append('off-image')
    if gk == 'id':
        grouping = {'kind': 'id'}
    elif gk == 'user':
        ng = rng.randint(1, max(1, n))
        labels = rng.sample(range(1, 40), ng)
        gids = [rng.choice(labels) for _ in range(n)]
        grouping = {'kind': 'user', 'gids': gids}
    elif gk == 'user+grouper':
        # the object is built WITH a grouper and init_params carries a group_id column that disagrees with it:
        # the column wins (the grouper is ignored for that call)
        t = rng.choice([1.0, 1.5, 2.0, 2.5, 3.0, 5.0, 0.5])
        gids, how = supplied_vs_linkage(rng, xs, ys, t)
        grouping = {'kind': 'user', 'gids': gids, 't': t, 'how': how}
    else:
        grouping = {'kind': 'sep', 't': rng.choice([1.0, 1.5, 2.0, 2.5, 3.0, 5.0, 0.5])}
    ids = None
    if rng.random() < 0.15:
        ids = list(range(1, n + 1))
        rng.shuffle(ids)
    data = np.array([[float(rng.randint(-8, 40)) / rng.choice([1, 1, 2, 4]) for _ in range(nx)] for _ in range(ny)])
    nonfinite = rng.random() < 0.3
    if nonfinite:
        for _ in range(rng.randint(1, 4)):
            data[rng.randrange(ny), rng.randrange(nx)] = rng.choice([np.nan, np.nan, np.inf, -np.inf])
    mask = None
    mk = rng.random()
    if mk < 0.2:
        mask = np.array([[rng.random() < 0.2 for _ in range(nx)] for _ in range(ny)])
    elif mk < 0.3:
        mask = np.zeros((ny, nx), bool)
    elif mk < 0.42:      # central pixels masked
        mask = np.zeros((ny, nx), bool)
        for i in range(n):
            if rng.random() < 0.6:
                cy, cx = math.ceil(ys[i] - 0.5), math.ceil(xs[i] - 0.5)
                if 0 <= cy < ny and 0 <= cx < nx:
                    mask[cy, cx] = True
    elif mk < 0.48:      # one source completely masked
        mask = np.zeros((ny, nx), bool)
        i = rng.randrange(n)
        y0, x0 = math.ceil(ys[i] - fy / 2), math.ceil(xs[i] - fx / 2)
        mask[max(0, y0):max(0, y0 + fy), max(0, x0):max(0, x0 + fx)] = True
        if rng.random() < 0.4 and mask.any():   # ... except one pixel
            yy, xx = np.nonzero(mask)
            k = rng.randrange(len(yy))
            mask[yy[k], xx[k]] = False
    elif mk < 0.53:      # rows/columns
        mask = np.zeros((ny, nx), bool)
        mask[rng.randrange(ny), :] = True
        mask[:, rng.randrange(nx)] = True
    error = None
    ek = rng.random()
    if ek < 0.15:
        error = np.array([[rng.choice([0.25, 0.5, 1.0, 2.0, 4.0]) for _ in range(nx)] for _ in range(ny)])
    elif ek < 0.3:
        error = np.ones((ny, nx))
        for _ in range(rng.randint(1, 3)):
            error[rng.randrange(ny), rng.randrange(nx)] = rng.choice([0.0, np.nan, np.inf, 0.0])
        if mask is not None and rng.random() < 0.5:   # bad errors only under the mask
            error = np.where(mask, error, 1.0)
            error[mask] = 0.0
    local_bkg = None
    if rng.random() < 0.35:
        local_bkg = [q8(rng, -2, 6) for _ in range(n)]
    localbkg = None
    if local_bkg is None and rng.random() < 0.2:
        r1 = rng.choice([1.5, 2.0, 2.5, 3.0])
        localbkg = {'inner': r1, 'outer': r1 + rng.choice([1.5, 2.0, 3.0]),
                    'est': rng.choice(['median-clip', 'median-clip', 'median', 'median', 'mean'])}
    xyb = rng.choice([None, None, 1.0, 0.5, [1.5, None], [None, 0.75], [2.0, 1.0], [None, None]])
    psf = rng.choice([{'kind': 'cgprf', 'fwhm': 2.0},
                      {'kind': 'cgprf', 'fwhm': 2.0},
                      {'kind': 'cgprf', 'fwhm': 2.5, 'free': ['fwhm']},
                      {'kind': 'cgprf', 'fwhm': 2.0, 'fix': ['x_0']},
                      {'kind': 'cgprf', 'fwhm': 2.0, 'fix': ['flux']},
                      {'kind': 'cgprf', 'fwhm': 2.0, 'fix': ['y_0'], 'free': ['fwhm']},
                      {'kind': 'cgprf', 'fwhm': 2.0, 'fix': ['x_0', 'y_0']},
                      {'kind': 'gprf', 'fwhm': 2.0, 'free': ['x_fwhm', 'y_fwhm']},
                      {'kind': 'image', 'fwhm': 2.0, 'oversampling': 1}])
    infokind = rng.choice([
        {'ierr': True, 'status': False, 'message': True, 'cov': True, 'fvec': True, 'fun': False},
        {'ierr': False, 'status': True, 'message': True, 'cov': True, 'fvec': False, 'fun': True},
        {'ierr': True, 'status': True, 'message': False, 'cov': True, 'fvec': True, 'fun': True},
        {'ierr': False, 'status': False, 'message': False, 'cov': False, 'fvec': False, 'fun': False},
        {'ierr': False, 'status': True, 'message': False, 'cov': False, 'fvec': True, 'fun': False}])
    cols = rng.choice([('x', 'y', 'flux'), ('x_init', 'y_init', 'flux_init'), ('xcentroid', 'ycentroid', 'flux_0'),
                       ('x_0', 'y_0', 'flux'), ('x_fit', 'y_fit', 'flux_fit')])
    flux = [float(rng.randint(1, 400)) / 4 for _ in range(n)]
    return {'mode': 'script', 'sc': 8, 'cmpcut': True, 'fit_shape': [fy, fx], 'data': jarr(data),
            'mask': None if mask is None else mask.astype(int).tolist(), 'error': jarr(error),
            'x': xs, 'y': ys, 'flux': flux, 'ids': ids, 'local_bkg': local_bkg, 'grouping': grouping,
            'xy_bounds': xyb, 'psf': psf, 'infokind': infokind, 'fseed': rng.randrange(1 << 30),
            'xcol': cols[0], 'ycol': cols[1], 'fcol': cols[2], 'klass': klass, 'localbkg': localbkg}


def gen_real_case(rng, big=False, plain=False):
    """Noise-free scene rendered from the PSF model; groups far apart, members of a
    group overlapping; initial guesses within a pixel of the truth."""
    from photutils.datasets import make_model_image
    from astropy.table import Table
    pk = rng.choice(['cgprf', 'cgprf', 'gprf', 'image', 'image2', 'gridded'])
    fwhm = rng.choice([2.0, 2.5, 3.0])
    spec = {'cgprf': {'kind': 'cgprf', 'fwhm': fwhm}, 'gprf': {'kind': 'gprf', 'fwhm': fwhm},
            'image': {'kind': 'image', 'fwhm': fwhm, 'oversampling': 1},
            'image2': {'kind': 'image', 'fwhm': fwhm, 'oversampling': 2},
            'gridded': {'kind': 'gridded', 'fwhm': fwhm, 'oversampling': 1, 'gx': 40, 'gy': 40}}[pk]
    if pk == 'cgprf' and rng.random() < 0.3:
        spec['fix'] = [rng.choice(['x_0', 'y_0', 'flux'])]
    psf = make_psf(spec)
    half = 6                       # rendered stamp half-size
    f = rng.choice([5, 7, 9])
    cell = 2 * half + 1 + f + 8    # spacing of group centres: no cross-talk between groups
    gy_, gx_ = rng.choice([(1, 1), (1, 2), (2, 2), (2, 1)])
    # background mode: none | local_bkg column | LocalBackground estimator on a pedestal
    bk = rng.random()
    est = rng.choice(['median-clip', 'median-clip', 'median', 'mean', 'mean'])
    if 0.2 <= bk < 0.6 and est == 'mean':
        gy_, gx_ = 1, 1            # a plain mean has no robustness: the annulus must not contain other groups
    ny, nx = gy_ * cell, gx_ * cell
    xs, ys, fl, grp_truth = [], [], [], []
    for a in range(gy_):
        for b in range(gx_):
            cy, cx = a * cell + cell / 2, b * cell + cell / 2
            m = rng.choice([1, 1, 2, 2, 3])
            pts = []
            for _ in range(m):
                for _try in range(50):
                    px, py = cx + q8(rng, -3, 3), cy + q8(rng, -3, 3)
                    if all((px - u) ** 2 + (py - v) ** 2 >= (1.2 * fwhm) ** 2 for u, v in pts):
                        pts.append((px, py))
                        break
            for (px, py) in pts:
                xs.append(px + rng.uniform(-0.05, 0.05))
                ys.append(py + rng.uniform(-0.05, 0.05))
                fl.append(rng.uniform(50, 500))
                grp_truth.append(a * gx_ + b + 1)
    n = len(xs)
    perm = list(range(n))
    rng.shuffle(perm)              # interleave group membership in the input order
    xs, ys, fl, grp_truth = ([v[i] for i in perm] for v in (xs, ys, fl, grp_truth))
    truth = Table({'x_0': xs, 'y_0': ys, 'flux': fl})
    data = make_model_image((ny, nx), psf, truth, model_shape=(2 * half + 1, 2 * half + 1))
    bkg_level = 0.0
    localbkg = None
    local_bkg_col = None
    if bk < 0.2:
        bkg_level = float(rng.randint(1, 8))
        local_bkg_col = [bkg_level] * n
    elif bk < 0.6:
        bkg_level = float(rng.randint(1, 8))
        localbkg = {'inner': 14.0, 'outer': 20.0, 'est': est}
    data = data + bkg_level
    xi = [round((v + rng.uniform(-0.45, 0.45)) * 8) / 8 for v in xs]
    yi = [round((v + rng.uniform(-0.45, 0.45)) * 8) / 8 for v in ys]
    # a dead part of the detector holding FINITE junk, flagged in the mask: it covers a large part of the
    # background annulus of source `it` (and of others) but no fit window and no flux-guess aperture
    junk_mask = None
    if localbkg is not None and not plain and rng.random() < 0.7:
        it = rng.randrange(n)
        d = max(f // 2 + 1, 5)
        yy_, xx_ = np.mgrid[:ny, :nx]
        sx, sy = rng.choice([-1, 1]), rng.choice([-1, 1])
        jm = (sx * (xx_ - xi[it]) >= d) | (sy * (yy_ - yi[it]) >= d)
        for u, v in zip(xi, yi):
            jm &= ~((np.abs(xx_ - u) < d + 1) & (np.abs(yy_ - v) < d + 1))
        # every source keeps enough unmasked annulus pixels
        enough = all(np.count_nonzero((np.hypot(xx_ - u, yy_ - v) >= 14.5) & (np.hypot(xx_ - u, yy_ - v) <= 19.5) & ~jm) >= 25
                     for u, v in zip(xi, yi))
        if enough and jm.any():
            junk_mask = jm
            clean = data
            data = np.where(jm, rng.choice([50.0, -50.0, 1000.0, -300.0]), data)
    if localbkg is not None:
        # validity of the scene (not an oracle): the pedestal must be recoverable by the chosen estimator from
        # the unmasked annulus pixels; otherwise (annulus left with mostly neighbouring sources) drop the junk,
        # then fall back to the clipped median
        def pedestal_ok(d_, m_, spec_):
            with warnings.catch_warnings():
                warnings.simplefilter('ignore')
                b_ = np.atleast_1d(make_localbkg(spec_)(d_, np.array(xi), np.array(yi), mask=m_))
            return bool(np.all(np.abs(b_ - bkg_level) <= 2e-4))
        if junk_mask is not None and not pedestal_ok(data, junk_mask, localbkg):
            data, junk_mask = clean, None
        if junk_mask is None and not pedestal_ok(data, None, localbkg):
            localbkg = {'inner': 14.0, 'outer': 20.0, 'est': 'median-clip'}
    if 'fix' in spec:              # a fixed parameter must start at the truth (dyadic) to be recoverable
        pass
    gk = rng.choice(['user', 'sep', 'sep', 'user+grouper'])
    if gk == 'user':
        labels = rng.sample(range(1, 30), gy_ * gx_)
        grouping = {'kind': 'user', 'gids': [labels[g - 1] for g in grp_truth]}
    elif gk == 'user+grouper':
        # grouper configured AND a group_id column that differs from its result (permuted labels, or two
        # distant clusters merged into one compound fit; never a split, which would spoil the recovery oracle)
        gids, how = supplied_vs_linkage(rng, xi, yi, 11.0, allow_split=False)
        grouping = {'kind': 'user', 'gids': gids, 't': 11.0, 'how': how}
    else:
        grouping = {'kind': 'sep', 't': 11.0}   # members <= 8.5 apart (chain), groups >= cell - 6 apart
    mask = None
    if junk_mask is not None:
        mask = junk_mask.copy()
    if rng.random() < 0.3:
        mask = np.zeros((ny, nx), bool) if mask is None else mask
        for _ in range(rng.randint(1, 6)):
            mask[rng.randrange(ny), rng.randrange(nx)] = True
        i = rng.randrange(n)
        mask[int(round(ys[i])) + rng.choice([-1, 0, 1]), int(round(xs[i])) + rng.choice([-1, 1])] = True
    if rng.random() < 0.25:
        data = data.copy()
        for _ in range(rng.randint(1, 3)):
            i = rng.randrange(n)
            data[int(round(ys[i])) + rng.choice([-2, -1, 1, 2]), int(round(xs[i])) + rng.choice([-2, 2])] = np.nan
    error = None
    if rng.random() < 0.25:
        error = np.full((ny, nx), rng.choice([0.5, 1.0, 2.0]))
    flux0 = None if rng.random() < 0.3 else [round(v * rng.uniform(0.7, 1.3) * 8) / 8 for v in fl]
    xyb = rng.choice([None, None, 2.0, [2.0, None]])
    case = {'mode': 'real', 'sc': 2 ** 20, 'cmpcut': False, 'fit_shape': [f, f], 'data': jarr(data),
            'mask': None if mask is None else mask.astype(int).tolist(), 'error': jarr(error),
            'x': xi, 'y': yi, 'flux': flux0, 'ids': None, 'local_bkg': local_bkg_col, 'grouping': grouping,
            'xy_bounds': xyb, 'psf': spec, 'infokind': {}, 'fseed': 0, 'aperture_radius': 4.0,
            'localbkg': localbkg, 'truth': {'x': xs, 'y': ys, 'flux': fl, 'bkg': bkg_level, 'half': half},
            'klass': ['real'], 'junk': junk_mask is not None}
    if 'fix' in spec:
        nm = spec['fix'][0]
        if nm == 'x_0':
            case['x'] = [round(v * 2 ** 20) / 2 ** 20 for v in xs]
        elif nm == 'y_0':
            case['y'] = [round(v * 2 ** 20) / 2 ** 20 for v in ys]
        else:
            case['flux'] = [round(v * 2 ** 20) / 2 ** 20 for v in fl]
    return case


def gen_real_free_case(rng):
    """Noise-free scene rendered (every source over its OWN bounding box) from a PSF model with further FREE
    shape parameters whose true values differ from source to source, some wider than the template default;
    init_params with or without the extra columns."""
    from photutils.datasets import make_model_image
    from astropy.table import Table
    kind = rng.choice(['cgprf', 'cgprf', 'gprf', 'moffat'])
    if kind == 'cgprf':
        spec = {'kind': 'cgprf', 'fwhm': 2.0, 'free': ['fwhm']}
        widths = {'fwhm': [2.0, 2.5, 3.0, 4.0, 5.0]}
    elif kind == 'gprf':
        spec = {'kind': 'gprf', 'fwhm': 2.0, 'y_fwhm': 2.5, 'free': ['x_fwhm', 'y_fwhm']}
        widths = {'x_fwhm': [2.0, 3.0, 4.0], 'y_fwhm': [2.5, 3.0, 4.5]}
    else:
        spec = {'kind': 'moffat', 'fwhm': 3.0, 'alpha': 2.0, 'beta': 2.5, 'free': ['alpha']}
        widths = {'alpha': [1.5, 2.0, 2.5, 3.0]}
    psf = make_psf(spec)
    cell = 48
    gy_, gx_ = rng.choice([(1, 2), (1, 2), (2, 2), (1, 3)])
    ny, nx = gy_ * cell, gx_ * cell
    xs, ys, fl, grp = [], [], [], []
    extra = {k: [] for k in widths}
    for a in range(gy_):
        for b in range(gx_):
            cy, cx = a * cell + cell / 2 + q8(rng, -2, 2), b * cell + cell / 2 + q8(rng, -2, 2)
            pts = [(cx, cy)]
            if rng.random() < 0.3:     # an overlapping pair, fitted as one group
                sep = rng.choice([7.0, 8.0, 9.0])
                th = rng.uniform(0, 2 * math.pi)
                pts.append((cx + sep * math.cos(th), cy + sep * math.sin(th)))
            for (px, py) in pts:
                xs.append(px + rng.uniform(-0.05, 0.05))
                ys.append(py + rng.uniform(-0.05, 0.05))
                fl.append(rng.uniform(200, 2000))
                grp.append(a * gx_ + b + 1)
                for k, v in widths.items():
                    extra[k].append(rng.choice(v))
    n = len(xs)
    if all(extra[k][i] == getattr(psf, k).value for k in extra for i in range(n)):
        k0 = next(iter(extra))
        extra[k0][rng.randrange(n)] = widths[k0][-1]       # at least one source differs from the template
    perm = list(range(n))
    rng.shuffle(perm)
    xs, ys, fl, grp = ([v[i] for i in perm] for v in (xs, ys, fl, grp))
    extra = {k: [v[i] for i in perm] for k, v in extra.items()}
    truth = Table({'x_0': xs, 'y_0': ys, 'flux': fl, **extra})
    data = make_model_image((ny, nx), psf, truth)          # model_shape=None: each source over its own bbox
    f = rng.choice([11, 13, 15])
    xi = [round((v + rng.uniform(-0.4, 0.4)) * 8) / 8 for v in xs]
    yi = [round((v + rng.uniform(-0.4, 0.4)) * 8) / 8 for v in ys]
    flux0 = [round(v * rng.uniform(0.8, 1.2) * 8) / 8 for v in fl]
    extra_init = None
    if rng.random() < 0.5:
        extra_init = {k: [round(v * rng.uniform(0.85, 1.15) * 64) / 64 for v in vals] for k, vals in extra.items()}
    if rng.random() < 0.5:
        labels = rng.sample(range(1, 30), gy_ * gx_)
        grouping = {'kind': 'user', 'gids': [labels[g - 1] for g in grp]}
    else:
        grouping = {'kind': 'sep', 't': 14.0}
    mask = None
    if rng.random() < 0.25:
        mask = np.zeros((ny, nx), bool)
        for _ in range(rng.randint(1, 4)):
            mask[rng.randrange(ny), rng.randrange(nx)] = True
    return {'mode': 'real', 'sc': 2 ** 20, 'cmpcut': False, 'fit_shape': [f, f], 'data': jarr(data),
            'mask': None if mask is None else mask.astype(int).tolist(), 'error': None,
            'x': xi, 'y': yi, 'flux': flux0, 'ids': None, 'local_bkg': None, 'grouping': grouping,
            'xy_bounds': rng.choice([None, None, 2.0]), 'psf': spec, 'infokind': {}, 'fseed': 0,
            'aperture_radius': 4.0, 'localbkg': None, 'extra_init': extra_init, 'free_shape': True,
            'truth': {'x': xs, 'y': ys, 'flux': fl, 'bkg': 0.0, 'half': None, 'extra': extra},
            'klass': ['real', 'free-shape']}


# ---------------------------------------------------------------------------
# support tests (partial clauses: depend on the optimiser)
# ---------------------------------------------------------------------------
def recovery_check(case, res, tol=2e-3):
    """Exact recovery on a rendered scene: returns (ok, worst deviation, message)."""
    t = case['truth']
    tbl = res['table']
    worst = 0.0
    msgs = []
    for i in range(len(tbl)):
        dx = abs(float(tbl['x_fit'][i]) - t['x'][i])
        dy = abs(float(tbl['y_fit'][i]) - t['y'][i])
        df = abs(float(tbl['flux_fit'][i]) - t['flux'][i]) / t['flux'][i]
        worst = max(worst, dx, dy, df)
        if max(dx, dy, df) > tol:
            msgs.append(f'row {i}: dx={dx:.2e} dy={dy:.2e} dflux/flux={df:.2e} flags={int(tbl["flags"][i])}')
        for nm, vals in (t.get('extra') or {}).items():
            de = abs(float(tbl[nm + '_fit'][i]) - vals[i]) / vals[i]
            worst = max(worst, de)
            if de > tol:
                msgs.append(f'row {i}: {nm}_fit={float(tbl[nm + "_fit"][i]):.5f} but the source was rendered with '
                            f'{nm}={vals[i]} (flags={int(tbl["flags"][i])})')
    return not msgs, worst, '; '.join(msgs[:4])


def describe(case):
    return {k: v for k, v in case.items()}


def check_one(ctx, case, res):
    """Clauses that need no model, checked directly on every case."""
    viol = oracle(case, res)
    return viol


def run(ctx):
    from . import c12l
    # C12L: the flux part of the PSF fit as exact linear least squares (re-uses C20H's generic theory): recovery of
    # rendered scenes, scaling by k, singly-vs-grouped, row i carries source i's solution component
    ctx.build_with_translator(FILES, extra_files=c12l.COQ_FILES, extra_obligation_files=c12l.OBLIGATION_FILES)
    quick = ctx.tier == 'quick'
    ctx.cov['rule'] = (
        'script mode: random small images (4..13 px), fit shapes 1..7, 1..8 sources at interior / edge-straddling / '
        'half-integer / integer / off-image positions, grouping none | user group_id (interleaved, gaps) | '
        'SourceGrouper (clustered positions incl. exact ties d == min_separation) | grouper configured AND a group_id '
        'column that disagrees with it (close pair split, distant clusters merged, permuted labels, unrelated partition: '
        'the column must win), optional permuted id column, '
        'NaN/inf pixels, masks (random, empty, central pixel, whole window, rows/cols), error maps (dyadic, zeros/NaN/inf), '
        'local_bkg column, xy_bounds variants, fixed/free parameter sets, 5 fit_info layouts; the fitter returns scripted '
        'dyadic values (at bounds, outside the image, flux <= 0, non-converged codes, missing covariance). '
        'real mode (free shape): CircularGaussianPRF with fwhm free / GaussianPRF with x_fwhm,y_fwhm free / MoffatPSF with alpha free, '
        'true widths differing per source (some wider than the template default), rendered over each source own bounding box, '
        'init_params with or without the extra columns. '
        'real mode: noise-free scenes rendered with make_model_image from CircularGaussianPRF/GaussianPRF/ImagePSF'
        '(oversampling 1,2)/GriddedPSFModel, groups of 1-3 overlapping sources, shuffled rows, fitted with TRFLSQFitter '
        '(results rounded to 2^-20). non-trivial = successful run with >= 2 sources; distinct = distinct case description')
    ctx.assumptions += [
        'the fitter is not modelled: it is a section variable (call number, inputs) -> outputs; in the correspondence '
        'its outputs are those recorded from the actual call',
        'scipy.cluster.hierarchy.fclusterdata(criterion="distance") = connected components of the graph d <= t '
        '(checked on every SourceGrouper case through the end-to-end comparison)',
        'astropy Table.group_by = stable sort on the key; join(init, fit) pairs rows with equal id in id order; '
        'overlap_slices(mode="trim") hand-modelled (all checked end-to-end on every case)',
        'flux_init from aperture photometry and local_bkg from LocalBackground are library numerics: the model takes '
        'the values found in the result table',
        'user-supplied id column: only permutations of 1..N are generated (other id sets make join() drop rows and '
        'the call raises ValueError: outside the property text, reported as an observation); the un-grouping theorems '
        'carry the same hypothesis (ids are a permutation of 1..N; the group ids are arbitrary)',
        'theorems about the fit window assume fit_shape > 0 and image sides >= 0; single linkage is stated on squared '
        'distances (dist^2 <= min_separation^2), i.e. for min_separation >= 0',
        'the model mirrors the REPAIRED code (fixes/C12-1 _make_mask, C12-2 flag 16, C12-3 supplied group_id); the HEAD '
        'texts are kept as make_mask_head / flag16_head / group_ids_head with *_refuted witnesses',
    ]
    ctx.cov['partial_clauses'] = [
        'exact recovery of x, y, flux on rendered scenes; residual image ~ 0; flux scaling by k; fixed parameters keep '
        'their initial value; IterativePSFPhotometry(maxiters=1) == PSFPhotometry: depend on the optimiser '
        '(astropy TRFLSQFitter) and on model rendering; tested on generated scenes (support_tests), and proved only '
        'in the pass-through form "*_partial" (hypotheses: the fitter returns the truth / leaves fixed parameters alone)',
    ]
    n_script = 700 if quick else 5000
    n_real = 45 if quick else 300
    cases = [gen_script_case(ctx.rng) for _ in range(n_script)]
    cases += [gen_real_case(ctx.rng) for _ in range(n_real)]
    cases += [gen_real_free_case(ctx.rng) for _ in range(12 if quick else 80)]
    terms, kept, results = [], [], []
    for case in cases:
        res = run_impl(case)
        mode = case['mode']
        ctx.stat('mode', mode)
        ctx.stat('outcome', {0: 'table', 1: 'no-overlap error', 2: 'completely-masked error',
                             3: 'non-finite-weights error'}.get(res['code'], 'other exception'))
        gkind = case['grouping']['kind']
        if gkind == 'user' and case['grouping'].get('t') is not None:
            gkind = 'user group_id column + grouper configured (' + case['grouping'].get('how', '?') + ')'
        ctx.stat('grouping', gkind)
        ctx.stat('nsources', str(len(case['x'])))
        if res['table'] is not None:
            gs = [int(v) for v in res['table']['group_size']]
            ctx.stat('max_group_size', str(max(gs)))
            gid = [int(v) for v in res['table']['group_id']]
            # interleaved: group membership not contiguous in id order
            inter = any(gid[i] != gid[i + 1] and gid[i] in gid[i + 2:] for i in range(len(gid) - 2))
            ctx.stat('interleaved_groups', 'yes' if inter else 'no')
            for fl in res['table']['flags']:
                for b in (1, 2, 4, 8, 16, 32):
                    if int(fl) & b:
                        ctx.stat('flag_bits_seen', str(b))
            if any(int(v) < case['fit_shape'][0] * case['fit_shape'][1] for v in res['table']['npixfit']):
                ctx.stat('features', 'trimmed-or-masked window')
        if case['mask'] is not None:
            ctx.stat('features', 'mask')
        if any(v is None or isinstance(v, str) for row in case['data'] for v in row):
            ctx.stat('features', 'non-finite data')
            if case['mask'] is not None:
                ctx.stat('features', 'non-finite data + mask')
        if case['error'] is not None:
            ctx.stat('features', 'error map')
        if case['ids'] is not None:
            ctx.stat('features', 'permuted id column')
        if case['xy_bounds'] is not None:
            ctx.stat('features', 'xy_bounds')
        if case['local_bkg'] is not None or case.get('localbkg'):
            ctx.stat('features', 'local background')
        if case.get('localbkg'):
            lbs = case['localbkg']
            ctx.stat('localbkg_estimator', mode + ':' + (lbs.get('est') if isinstance(lbs, dict) else 'median-clip') +
                     ('+mask' if case['mask'] is not None else '') + ('+finite junk under the mask' if case.get('junk') else ''))
        ctx.stat('psf', case['psf']['kind'] + ('+fix' if case['psf'].get('fix') else '') +
                 ('+free' if case['psf'].get('free') else ''))
        key = {k: v for k, v in case.items() if k not in ('truth', 'klass')}
        ctx.count_case(key, nontrivial=(res['code'] == 0 and len(case['x']) >= 2))
        # V, model-free: the property restated in Python
        for sig, msg in oracle(case, res)[:3]:
            ctx.violation(sig, msg, {'case': case, 'impl_exception': res['exc'],
                                     'cmd': 'bin/check C12 --replay <this file>'})
        # weights handed to the fitter are 1/error at the fitted pixels
        if case['error'] is not None:
            err = arr(case['error'])
            for c in res['calls']:
                with np.errstate(all='ignore'):
                    want = [float(1.0 / err[y_, x_]) for y_, x_ in zip(c['yi'], c['xi'])]
                if c['weights'] != want:
                    ctx.violation('_fit_sources:weights', 'weights != 1/error[yi, xi]', {'case': case})
        try:
            terms.append(to_coq(case, res))
            kept.append(case)
            results.append(res)
        except NotExact as e:
            ctx.stat('coq', 'excluded_not_dyadic')
            ctx.notes.append(f'case excluded from the Coq comparison: {e}') if len(ctx.notes) < 5 else None
        if mode == 'real' and res['code'] == 0:
            support_real(ctx, case, res)
    for case, res in list(zip(kept, results))[:2] + [(c, r) for c, r in zip(kept, results) if c['mode'] == 'real'][:1]:
        ctx.sample({'case': {k: (v if k not in ('data', 'mask', 'error') else '<array>') for k, v in case.items()},
                    'impl': {'code': res['code'],
                             'table': None if res['table'] is None else
                             {c: [float(getattr(v, 'value', v)) for v in np.ravel(res['table'][c])]
                              for c in ('id', 'group_id', 'group_size', 'x_fit', 'y_fit', 'flux_fit', 'npixfit', 'flags')}}})
    bad = ctx.coq_eval_cases(['C12_Model'], 'check_case', terms, case_type='case')
    ctx.stat('coq', 'disagreements', len(bad))
    for i in bad[:12]:
        case, res = kept[i], results[i]
        viol = oracle(case, res)
        detail = {'case': case, 'impl_exception': res['exc'],
                  'impl_table': None if res['table'] is None else
                  {c: [float(getattr(v, 'value', v)) for v in np.ravel(res['table'][c])]
                   for c in res['table'].colnames if c not in ('qfit', 'cfit')},
                  'model': ctx.coq_eval_term(['C12_Model'], f'model_out {terms[i]}')[:4000] if len(bad) < 40 else None,
                  'cmd': 'bin/check C12 --replay <this file>'}
        if viol:
            for sig, msg in viol[:2]:
                ctx.violation(sig, msg, detail)
        else:
            v2 = oracle_metrics(case, res)
            if v2:
                ctx.violation(v2[0], v2[1], detail)
            else:
                ctx.violation('correspondence:C12_Model.check_case',
                              'model and implementation disagree (call log / error columns / metrics)', detail,
                              found_input=False)
    iterative_support(ctx, quick)
    grouper_direct(ctx, quick)
    # real PSFPhotometry with fixed positions against the exact least-squares model (own PRNG)
    c12l.run_flux_correspondence(ctx, 60 if ctx.tier == 'quick' else 600)


def oracle_metrics(case, res):
    """qfit / cfit / error columns looked up by source id (independent of the model)."""
    tbl = res['table']
    if tbl is None:
        return None
    n = len(tbl)
    ids = [int(v) for v in tbl['id']]
    mask = arr(case['mask'], bool)
    for o, c in zip(res['outs'], res['calls']):
        info = o['info']
        key = 'fun' if 'fun' in res['outs'][0]['info'] else ('fvec' if 'fvec' in res['outs'][0]['info'] else None)
        if key is None:
            continue
        resid = np.asarray(info[key], float)
        # pixels of each source in this call: consecutive runs, lengths = npixfit of the sources
        pos = 0
        for sid, par in zip(o['ids'], o['par']):
            r = ids.index(sid)
            k = int(tbl['npixfit'][r])
            chunk = resid[pos:pos + k]
            pos += k
            ff = par[2]
            with np.errstate(all='ignore'):
                want = np.sum(np.abs(chunk)) / ff
            got = float(np.ravel(tbl['qfit'][r])[0])
            if not (want == got or (not math.isfinite(want) and not math.isfinite(got))):
                return ('_calc_fit_metrics:qfit', f'row {r}: qfit {got} != sum|residual of this source|/flux_fit {want}')
    return None


def support_real(ctx, case, res):
    """Partial clauses on one rendered scene (tested, not proved)."""
    tbl = res['table']
    t = case['truth']
    blemished = case['mask'] is not None or any(v is None for row in case['data'] for v in row)
    ok, worst, msg = recovery_check(case, res)
    ctx.support('exact recovery of x,y,flux on a rendered scene (|dx|,|dy|,|dflux|/flux <= 2e-3)')
    ctx.cov['correspondence'].setdefault('recovery', {})
    d = ctx.cov['correspondence']['recovery']
    d['worst_deviation'] = max(d.get('worst_deviation', 0.0), worst)
    if not ok:
        ctx.violation('PSFPhotometry:recovery', 'rendered scene not recovered: ' + msg,
                      {'case': case, 'cmd': 'bin/check C12 --replay <this file>'})
        return
    phot = res['phot']
    data = arr(case['data'])
    if case.get('free_shape'):
        for sig, msg in free_shape_images(case, res):
            ctx.violation(sig, msg, {'case': case, 'cmd': 'bin/check C12 --replay <this file>'})
        ctx.support('free shape parameters differing between sources: recovery of the extra parameters, residual image ~ 0 '
                    '(psf_shape None and explicit), model image == superposition computed from the *_fit columns')
        return
    resid = phot.make_residual_image(data, psf_shape=(2 * t['half'] + 1, 2 * t['half'] + 1)) - t['bkg']
    good = np.isfinite(resid)
    if case.get('junk'):
        good &= ~arr(case['mask'], bool)
    worst_r = float(np.max(np.abs(resid[good]))) if good.any() else 0.0
    ctx.support('residual image ~ 0 (max |residual| <= 1e-3 * max flux)')
    if worst_r > 1e-3 * max(t['flux']):
        ctx.violation('make_residual_image:nonzero', f'max |residual| = {worst_r}',
                      {'case': case, 'cmd': 'bin/check C12 --replay <this file>'})
    d['worst_residual'] = max(d.get('worst_residual', 0.0), worst_r)


def free_shape_images(case, res):
    """Model / residual images of a fit whose sources have different fitted shape parameters."""
    from photutils.datasets import make_model_image
    from astropy.table import Table
    out = []
    phot, tbl, t = res['phot'], res['table'], case['truth']
    data = arr(case['data'])
    good = np.isfinite(data)
    peak = float(np.max(data[good]))
    psf = make_psf(case['psf'])
    fitted = Table({'x_0': np.asarray(tbl['x_fit'], float), 'y_0': np.asarray(tbl['y_fit'], float),
                    'flux': np.asarray(tbl['flux_fit'], float),
                    **{nm: np.asarray(tbl[nm + '_fit'], float) for nm in t['extra']}})
    with warnings.catch_warnings():
        warnings.simplefilter('ignore')
        # (a) residual image ~ 0, every fitted model rendered over its own bounding box (psf_shape=None)
        r0 = phot.make_residual_image(data)
        w0 = float(np.max(np.abs(r0[good])))
        if w0 > 1e-4 * peak:
            iy, ix = np.unravel_index(np.argmax(np.abs(np.where(good, r0, 0))), r0.shape)
            out.append(('make_residual_image:nonzero', f'psf_shape=None: max |residual| = {w0:.4g} at (x, y) = ({ix}, {iy}), '
                        f'image peak {peak:.4g}, although the table recovers the rendered parameters'))
        # (b) model image == superposition of the PSF model evaluated with EVERY *_fit column of the table
        for shp in (None, (25, 25), (41, 41)):
            mi = phot.make_model_image(data.shape, psf_shape=shp)
            want = make_model_image(data.shape, psf, fitted, model_shape=shp)
            d = float(np.max(np.abs(mi - want)))
            if d > 1e-9 * max(peak, 1.0):
                out.append(('make_model_image:superposition', f'psf_shape={shp}: model image differs from the superposition of '
                            f'the fitted models (x, y, flux and {list(t["extra"])} from the table) by {d:.4g} (peak {peak:.4g})'))
            # (c) explicit shape: residual == data - that superposition
            if shp is not None:
                rr = phot.make_residual_image(data, psf_shape=shp)
                d2 = float(np.max(np.abs((rr - (data - want))[good])))
                if d2 > 1e-9 * max(peak, 1.0):
                    out.append(('make_residual_image:superposition', f'psf_shape={shp}: residual != data - superposition ({d2:.4g})'))
    return out


def scaled_case(case, k):
    c = dict(case)
    data = arr(case['data']) * k
    c['data'] = jarr(data)
    if case['flux'] is not None:
        c['flux'] = [v * k for v in case['flux']]
    if case['local_bkg'] is not None:
        c['local_bkg'] = [v * k for v in case['local_bkg']]
    c['truth'] = dict(case['truth'])
    c['truth']['flux'] = [v * k for v in case['truth']['flux']]
    c['truth']['bkg'] = case['truth']['bkg'] * k
    return c


def iterative_support(ctx, quick):
    """flux scaling and IterativePSFPhotometry(maxiters=1) on rendered scenes (support)."""
    n = 6 if quick else 40
    for _ in range(n):
        case = gen_real_case(ctx.rng)
        res = run_impl(case)
        if res['code'] != 0:
            continue
        k = ctx.rng.choice([0.5, 2.0, 4.0, 3.0])
        res2 = run_impl(scaled_case(case, k))
        ctx.support('flux scaling: image*k -> flux_fit*k (rel 1e-4), same x_fit,y_fit (2e-3), same ids/groups/npixfit/flags')
        if res2['code'] != 0:
            ctx.violation('PSFPhotometry:scaling', 'scaled image fails', {'case': case, 'k': k})
            continue
        t1, t2 = res['table'], res2['table']
        same = all(np.array_equal(np.asarray(t1[c]), np.asarray(t2[c]))
                   for c in ('id', 'group_id', 'group_size', 'npixfit'))
        okf = np.allclose(np.asarray(t2['flux_fit'], float), k * np.asarray(t1['flux_fit'], float), rtol=1e-4, atol=0)
        okp = (np.allclose(np.asarray(t2['x_fit'], float), np.asarray(t1['x_fit'], float), atol=2e-3, rtol=0) and
               np.allclose(np.asarray(t2['y_fit'], float), np.asarray(t1['y_fit'], float), atol=2e-3, rtol=0))
        if not (same and okf and okp):
            ctx.violation('PSFPhotometry:scaling', f'scaling by {k} not equivariant', {'case': case, 'k': k})
    iterative_product(ctx, quick)
    iterative_script_calls(ctx, quick)


def _iter_kwargs(cfg):
    from photutils.psf import SourceGrouper
    xyb = cfg['xy_bounds']
    return dict(grouper=None if cfg['grouper_t'] is None else SourceGrouper(cfg['grouper_t']),
                aperture_radius=cfg['aperture_radius'], xy_bounds=tuple(xyb) if isinstance(xyb, list) else xyb,
                localbkg_estimator=make_localbkg(cfg['localbkg']), fitter_maxiters=cfg['fitter_maxiters'])


def run_iter_pair(cfg):
    """IterativePSFPhotometry(maxiters=1, **kw) against PSFPhotometry(**kw) on one rendered scene, every
    constructor argument forwarded identically.  Returns (messages, info)."""
    from photutils.psf import IterativePSFPhotometry, PSFPhotometry
    from photutils.detection import DAOStarFinder
    case = cfg['case']
    data = arr(case['data'])
    data = np.where(np.isfinite(data), data, case['truth']['bkg'])
    psf = make_psf(case['psf'])
    finder = DAOStarFinder(threshold=case['truth']['bkg'] + 1.0, fwhm=case['psf']['fwhm'])
    fs = tuple(cfg['fit_shape'])
    it = IterativePSFPhotometry(psf, fs, finder, maxiters=1, **_iter_kwargs(cfg))
    ph = PSFPhotometry(psf, fs, finder=finder, **_iter_kwargs(cfg))
    c2 = dict(case)
    c2['grouping'] = {'kind': 'id'}
    c2['x'], c2['y'] = cfg['x'], cfg['y']
    init = init_table(c2) if cfg['use_init'] else None
    out = []
    with warnings.catch_warnings():
        warnings.simplefilter('ignore')
        try:
            b = ph(data, init_params=init)
        except Exception as e:
            return [], {'skipped': f'PSFPhotometry raised {type(e).__name__}'}
        try:
            a = it(data, init_params=init)
        except Exception as e:
            return [f'IterativePSFPhotometry raised {type(e).__name__}: {str(e)[:120]} where PSFPhotometry returned a table'], {}
    if (a is None) != (b is None):
        return ['one of the two returned None'], {}
    if a is None:
        return [], {'skipped': 'no sources'}
    if list(a.colnames) != _with_iter(b.colnames):
        out.append(f'columns differ: {list(a.colnames)} vs {list(b.colnames)}')
    for c in b.colnames:
        if c in a.colnames and not np.array_equal(np.asarray(a[c]), np.asarray(b[c]), equal_nan=True):
            out.append(f'column {c}: iterative {np.asarray(a[c]).tolist()} != single {np.asarray(b[c]).tolist()}')
    if 'iter_detected' in a.colnames and not bool(np.all(np.asarray(a['iter_detected']) == 1)):
        out.append('iter_detected != 1')
    info = {'flag32': int(np.count_nonzero(np.asarray(b['flags']) & 32)), 'rows': len(b)}
    return out, info


def iterative_product(ctx, quick):
    """'IterativePSFPhotometry with one iteration equals PSFPhotometry' over the product of the constructor
    arguments, with initial offsets large enough that xy_bounds bind (support; full tables compared exactly)."""
    rng = ctx.rng
    for _ in range(14 if quick else 90):
        case = gen_real_case(rng, plain=True)
        t = case['truth']
        n = len(t['x'])
        # start up to 0.9 px off the truth so that small bounds bind
        x0 = [round((t['x'][i] + rng.choice([-1, 1]) * rng.choice([0.1, 0.3, 0.6, 0.8, 0.9])) * 8) / 8 for i in range(n)]
        y0 = [round((t['y'][i] + rng.choice([-1, 1]) * rng.choice([0.1, 0.3, 0.6, 0.8, 0.9])) * 8) / 8 for i in range(n)]
        if case['psf'].get('fix'):
            x0, y0 = case['x'], case['y']
        cfg = {'case': case, 'x': x0, 'y': y0,
               'xy_bounds': rng.choice([None, 0.4, 0.25, 2.0, [0.4, None], [None, 0.3], [2.0, 2.0], [0.5, 0.25]]),
               'fit_shape': rng.choice([case['fit_shape'], [5, 5], [7, 5], [9, 9]]),
               'aperture_radius': rng.choice([3.0, 4.0, 5.0]),
               'localbkg': rng.choice([None, None, {'inner': 14.0, 'outer': 20.0, 'est': 'median-clip'},
                                       {'inner': 12.0, 'outer': 18.0, 'est': 'median'}]),
               'grouper_t': rng.choice([None, 11.0, 11.0]),
               'fitter_maxiters': rng.choice([100, 100, 30, 300]),
               'use_init': rng.random() < 0.75}
        if case['flux'] is not None and rng.random() < 0.5:
            case['flux'] = None
        msgs, info = run_iter_pair(cfg)
        ctx.support('IterativePSFPhotometry(maxiters=1, **kw) table == PSFPhotometry(**kw) table over xy_bounds x fit_shape '
                    'x aperture_radius x localbkg_estimator x grouper x fitter_maxiters x (finder | init_params)')
        key = ('xy_bounds=' + json_key(cfg['xy_bounds']))
        ctx.stat('iterative_vs_single', key)
        ctx.stat('iterative_vs_single', 'init_params' if cfg['use_init'] else 'finder only')
        if info.get('flag32'):
            ctx.stat('iterative_vs_single', 'cases with a fit at the bounds (flag 32)')
        b_ = cfg['xy_bounds']
        b_ = [b_, b_] if not isinstance(b_, list) else b_
        if cfg['use_init'] and ((b_[0] is not None and any(abs(a - c) > b_[0] for a, c in zip(x0, t['x']))) or
                                (b_[1] is not None and any(abs(a - c) > b_[1] for a, c in zip(y0, t['y'])))):
            ctx.stat('iterative_vs_single', 'cases where the bounds bind (start farther from the truth than the bound)')
        if info.get('skipped'):
            ctx.stat('iterative_vs_single', 'skipped: ' + info['skipped'])
        if msgs:
            ctx.violation('IterativePSFPhotometry:one-iteration',
                          'IterativePSFPhotometry(maxiters=1) differs from PSFPhotometry built with the same arguments: '
                          + msgs[0][:300], {'iter_pair': cfg, 'cmd': 'bin/check C12 --replay <this file>'})


def json_key(v):
    return 'None' if v is None else str(v)


def run_script_calls(case):
    """Recording fitter under PSFPhotometry and under IterativePSFPhotometry(maxiters=1): what every fitter call
    received (sub-model ids, initial values, x/y bounds, pixel lists, cutout, weights, maxiter) must be identical,
    and the bounds must be the requested ones (initial value -/+ xy_bounds)."""
    from photutils.psf import IterativePSFPhotometry, SourceGrouper
    from photutils.detection import DAOStarFinder
    res = run_impl(case)
    if res['code'] != 0:
        return [], 'skipped'
    out = []
    xyb = case['xy_bounds']
    if xyb is not None and not isinstance(xyb, (list, tuple)):
        xyb = [xyb, xyb]

    def want(b, v):
        return (None, None) if (xyb is None or b is None) else (v - b, v + b)
    for who, calls in (('PSFPhotometry', res['calls']),):
        for c in calls:
            for (xv, yv, _), bx, by in zip(c['init'], c['bx'], c['by']):
                if tuple(bx) != want(None if xyb is None else xyb[0], xv) or tuple(by) != want(None if xyb is None else xyb[1], yv):
                    out.append(f'{who}: fitter received bounds x{tuple(bx)} y{tuple(by)} for initial ({xv}, {yv}), requested xy_bounds={xyb}')
    data = arr(case['data'])
    mask = arr(case['mask'], bool)
    error = arr(case['error'])
    fitter = RecFitter(case['mode'], case['fseed'], data.shape, case['infokind'])
    grouper = None if case['grouping'].get('t') is None else SourceGrouper(case['grouping']['t'])
    xyb_arg = tuple(case['xy_bounds']) if isinstance(case['xy_bounds'], list) else case['xy_bounds']
    with warnings.catch_warnings():
        warnings.simplefilter('ignore')
        try:
            it = IterativePSFPhotometry(make_psf(case['psf']), tuple(case['fit_shape']), DAOStarFinder(1e30, 2.0),
                                        fitter=fitter, grouper=grouper, xy_bounds=xyb_arg, maxiters=1,
                                        localbkg_estimator=make_localbkg(case.get('localbkg')),
                                        aperture_radius=case.get('aperture_radius') or 3.0)
            it(data.copy(), mask=None if mask is None else mask.copy(), error=None if error is None else error.copy(),
               init_params=init_table(case))
        except Exception as e:
            if not fitter.calls:
                return out + [f'IterativePSFPhotometry raised {type(e).__name__}: {str(e)[:100]} before fitting'], 'ran'
    a, b = fitter.calls[:len(res['calls'])], res['calls']
    if len(fitter.calls) < len(b):
        out.append(f'IterativePSFPhotometry made {len(fitter.calls)} fitter calls, PSFPhotometry {len(b)}')
    for k, (ca, cb) in enumerate(zip(a, b)):
        for fld in ('ids', 'init', 'bx', 'by', 'fixed', 'xi', 'yi', 'weights', 'maxiter'):
            if ca[fld] != cb[fld]:
                out.append(f'fitter call {k}: {fld} differs: iterative {str(ca[fld])[:80]} vs single {str(cb[fld])[:80]}')
        if not np.array_equal(np.array(ca['cut']), np.array(cb['cut']), equal_nan=True):
            out.append(f'fitter call {k}: cutout values differ')
    return out, 'ran'


def iterative_script_calls(ctx, quick):
    done = 0
    for _ in range(60 if quick else 500):
        case = gen_script_case(ctx.rng)
        if case['xy_bounds'] is None and ctx.rng.random() < 0.6:
            case['xy_bounds'] = ctx.rng.choice([0.5, 1.0, [1.5, None], [None, 0.75], [2.0, 1.0]])
        msgs, st = run_script_calls(case)
        if st != 'ran':
            continue
        done += 1
        ctx.support('script mode: the fitter calls of IterativePSFPhotometry(maxiters=1) == those of PSFPhotometry '
                    '(ids, initial values, bounds, pixels, cutout, weights, maxiter) and bounds == initial -/+ xy_bounds')
        if msgs:
            sig = 'IterativePSFPhotometry:fitter-inputs' if 'iterative' in msgs[0].lower() else '_make_psf_model:bounds'
            ctx.violation(sig, msgs[0][:300], {'script_calls': case, 'cmd': 'bin/check C12 --replay <this file>'})
    ctx.stat('iterative_vs_single', 'script-mode call-log comparisons', done)


def _with_iter(cols):
    out = []
    for c in cols:
        out.append(c)
        if c == 'group_size':
            out.append('iter_detected')
    return out


def grouper_direct(ctx, quick):
    """SourceGrouper()(x, y) alone against single linkage (first-appearance ids), through Coq."""
    terms, cases = [], []
    for _ in range(150 if quick else 1500):
        n = ctx.rng.randint(1, 12)
        xs, ys = gen_positions(ctx.rng, n, 16, 16, 3, 3, 'cluster')
        t = ctx.rng.choice([0.5, 1.0, 1.5, 2.0, 2.5, 3.0, 5.0])
        from photutils.psf import SourceGrouper
        got = [int(v) for v in SourceGrouper(t)(np.array(xs), np.array(ys))]
        want = clusters_single_linkage(xs, ys, t)
        ctx.count_case(['grouper', xs, ys, t], nontrivial=n >= 2)
        ctx.stat('grouper_direct', 'ngroups=' + str(min(len(set(got)), 6)) + ('+' if len(set(got)) > 6 else ''))
        ties = sum(1 for i in range(n) for j in range(i) if (xs[i] - xs[j]) ** 2 + (ys[i] - ys[j]) ** 2 == t * t)
        if ties:
            ctx.stat('grouper_direct', 'exact ties d == min_separation', ties)
        if got != want:
            ctx.violation('SourceGrouper:single-linkage', f'group ids {got} != single-linkage clusters {want}',
                          {'grouper': {'x': xs, 'y': ys, 't': t}, 'cmd': 'bin/check C12 --replay <this file>'})
        terms.append(coq(([(int(x * 8), int(y * 8)) for x, y in zip(xs, ys)], int(t * 8), got)))
        cases.append((xs, ys, t, got))
    bad = ctx.coq_eval_cases(['C12_Model'], 'check_grouper', terms, case_type='gcase', tag='grouper')
    ctx.stat('coq', 'grouper_disagreements', len(bad))
    for i in bad[:5]:
        xs, ys, t, got = cases[i]
        ctx.violation('correspondence:C12_Model.check_grouper', 'model and SourceGrouper disagree',
                      {'grouper': {'x': xs, 'y': ys, 't': t}, 'impl': got}, found_input=False)


def replay(obj):
    r = obj['replay']
    if isinstance(r, dict) and r.get('mode') in ('flux', 'free'):
        from . import c12l
        return c12l.replay(obj)
    if 'grouper' in r:
        from photutils.psf import SourceGrouper
        g = r['grouper']
        got = [int(v) for v in SourceGrouper(g['t'])(np.array(g['x']), np.array(g['y']))]
        want = clusters_single_linkage(g['x'], g['y'], g['t'])
        print('impl:', got, 'single linkage:', want)
        ok = got == want
        print('property holds on this input' if ok else 'property FAILS on this input')
        return 0 if ok else 1
    if 'iter_pair' in r:
        msgs, info = run_iter_pair(r['iter_pair'])
        for m in msgs:
            print('[IterativePSFPhotometry:one-iteration]', m[:400])
        print('property holds on this input' if not msgs else 'property FAILS on this input')
        return 0 if not msgs else 1
    if 'script_calls' in r:
        msgs, _ = run_script_calls(r['script_calls'])
        for m in msgs:
            print(m[:400])
        print('property holds on this input' if not msgs else 'property FAILS on this input')
        return 0 if not msgs else 1
    case = r['case']
    res = run_impl(case)
    print('outcome code:', res['code'], res['exc'] or '')
    if res['table'] is not None:
        print(res['table']['id', 'group_id', 'group_size', 'x_fit', 'y_fit', 'flux_fit', 'npixfit', 'flags'])
    viol = oracle(case, res)
    if not viol:
        v2 = oracle_metrics(case, res)
        if v2:
            viol = [v2]
    if not viol and case['mode'] == 'real' and res['code'] == 0:
        ok, worst, msg = recovery_check(case, res)
        if not ok:
            viol = [('PSFPhotometry:recovery', msg)]
        elif case.get('free_shape'):
            viol = free_shape_images(case, res)
    for sig, msg in viol:
        print(f'[{sig}] {msg}')
    print('property holds on this input' if not viol else 'property FAILS on this input')
    return 0 if not viol else 1
