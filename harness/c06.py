"""C06 — deblending only refines segments and is independent of worker scheduling.

Correspondence: the real ``deblend_sources`` is run (serial, and through the nproc>1
code path with an in-process executor that completes the futures in a chosen order,
and a few real ``spawn`` pools) while a recorder captures what the un-modelled
library stage (``_SingleSourceDeblender.apply_watershed``) returned for each parent.
The Coq model (C06_Model.deblend_sources) gets the same segmentation, arguments,
recorded watershed outputs and completion order and must reproduce every public
observable exactly.  The property itself is re-stated in plain Python (``oracle``)
and evaluated on every implementation output.
"""
import functools
import itertools
import pickle
import warnings
from fractions import Fraction

import numpy as np

from .core import coq, Some, Raw, img_coq

PID = 'C06'
FILES = ['lib/Cases.v', 'C06_Model.v', 'C06_Proofs.v', 'C06_Properties.v']

DTYPES = ['int8', 'uint8', 'int16', 'uint16', 'int32', 'uint32', 'int64', 'uint64']
ERR_CODES = {'ValueError': 1, 'IndexError': 2}


# --------------------------------------------------------------------------
# recorder around the un-modelled per-source stage
# --------------------------------------------------------------------------
class Recorder:
    """Wraps photutils.segmentation.deblend._deblend_source and
    _SingleSourceDeblender.apply_watershed (in-process only)."""

    def __init__(self):
        from photutils.segmentation import deblend as D
        self.D = D
        self.orig_ds = D._deblend_source
        self.orig_ws = D._SingleSourceDeblender.apply_watershed
        self.records = []
        self._ws = None

    def __enter__(self):
        rec = self

        def ws(this, markers):
            outp = rec.orig_ws(this, markers)
            rec._ws = np.array(outp).copy()
            return outp

        def ds(data, segment_data, label, deblend_params):
            rec._ws = None
            entry = {'label': int(label), 'raw': None, 'warns': (False, False), 'failed': None}
            try:
                res, warns = rec.orig_ds(data, segment_data, label, deblend_params)
            except Exception as e:
                entry['raw'] = rec._ws
                entry['failed'] = type(e).__name__
                rec.records.append(entry)
                raise
            entry['raw'] = rec._ws
            entry['warns'] = ('nonposmin' in warns, 'nmarkers' in warns)
            entry['returned'] = None if res is None else np.array(res).copy()
            rec.records.append(entry)
            return res, warns

        self.D._SingleSourceDeblender.apply_watershed = ws
        self.D._deblend_source = ds
        return self

    def __exit__(self, *a):
        self.D._SingleSourceDeblender.apply_watershed = self.orig_ws
        self.D._deblend_source = self.orig_ds


def _ship(obj):
    """What crossing a process boundary does to an object: a pickle round trip (a private copy)."""
    return pickle.loads(pickle.dumps(obj, protocol=pickle.HIGHEST_PROTOCOL))


class _FakeFuture:
    """One task of the stand-in pool.  As with a real ProcessPoolExecutor the callable's bound
    arguments (functools.partial args/keywords), the call arguments and the returned value are
    pickled, so every task works on PRIVATE copies: state that the serial loop shares between
    sources (e.g. one parameter object mutated by a source) is not shared here, exactly as
    between real worker processes.  (The function object itself is kept: the recorder's wrapper
    is a closure.)"""

    def __init__(self, fn, args):
        if isinstance(fn, functools.partial):
            pargs, pkw = _ship((fn.args, fn.keywords))
            fn = functools.partial(fn.func, *pargs, **pkw)
        self.fn, self.args = fn, _ship(args)

    def result(self):
        return _ship(self.fn(*self.args))


class FakePool:
    """Stand-in for ProcessPoolExecutor/as_completed inside deblend.py: tasks run in
    this process and are delivered in the completion order chosen by `order_fn`."""

    def __init__(self, order_fn):
        self.order_fn = order_fn
        self.used_order = None
        self.max_workers = None
        self.nsubmitted = 0

    def executor(self, *cargs, **ckw):
        pool = self
        # the constructor arguments go through the REAL ProcessPoolExecutor constructor (it validates
        # max_workers / mp_context / initializer and raises what a real pool would raise; no worker
        # process is started before the first submit), then that pool is closed again
        real = pool.saved[0](*cargs, **ckw)
        pool.max_workers = getattr(real, '_max_workers', None)
        real.shutdown(wait=True, cancel_futures=True)

        class Ex:
            def __enter__(s):
                return s

            def __exit__(s, *a):
                return False

            def submit(s, fn, *args):
                pool.nsubmitted += 1
                return _FakeFuture(fn, args)
        return Ex()

    def as_completed(self, fs):
        fs = list(fs)
        order = list(self.order_fn(len(fs)))
        self.used_order = order
        for i in order:
            yield fs[i]

    def __enter__(self):
        from photutils.segmentation import deblend as D
        self.D = D
        self.saved = (D.ProcessPoolExecutor, D.as_completed)
        D.ProcessPoolExecutor = self.executor
        D.as_completed = self.as_completed
        return self

    def __exit__(self, *a):
        self.D.ProcessPoolExecutor, self.D.as_completed = self.saved


# --------------------------------------------------------------------------
# generators
# --------------------------------------------------------------------------
def _gauss(ny, nx, srcs):
    y, x = np.mgrid[:ny, :nx]
    d = np.zeros((ny, nx))
    for (a, yc, xc, s) in srcs:
        d += a * np.exp(-((y - yc) ** 2 + (x - xc) ** 2) / (2 * s * s))
    return d


def gen_scene(rng, small):
    ny = rng.randint(5, 8 if small else 12)
    nx = rng.randint(6, 10 if small else 16)
    kind = rng.choice(['gauss', 'gauss', 'multi', 'multi', 'multi', 'faint', 'faint', 'interlock', 'interlock',
                       'touch', 'touch', 'bump', 'bump', 'bump',
                       'clusters', 'plateau', 'ridge', 'hand', 'noise'])
    if kind == 'bump':
        return kind, bump_scene(rng)
    if kind == 'touch':
        # a compact group of 2-4 sources; the detected segment(s) are afterwards CUT into touching
        # pieces (gen_case), so parents have bright neighbours inside their bounding boxes
        ny, nx = rng.randint(7, 11), rng.randint(9, 15)
        cyc, cxc = (ny - 1) / 2, (nx - 1) / 2
        srcs = [(rng.choice([20, 40, 80, 150]), cyc + rng.uniform(-2.5, 2.5), cxc + rng.uniform(-4, 4),
                 rng.choice([0.8, 1.0, 1.5, 2.0])) for _ in range(rng.randint(2, 4))]
        data = _gauss(ny, nx, srcs)
        data = np.round(data) if rng.random() < 0.6 else np.round(data * 4) / 4
        if rng.random() < 0.3:      # a few one-pixel bumps
            for _ in range(rng.randint(1, 3)):
                data[rng.randrange(ny), rng.randrange(nx)] += rng.choice([2, 5, 10])
        return kind, data
    if kind == 'interlock':
        # 2-3 two-source blends on parallel diagonals: separate segments whose bounding boxes
        # contain pixels of each other (a whole-cutout write would damage the neighbour)
        ng = rng.randint(2, 3)
        dd, shift = 3, rng.choice([8, 9])
        ny, nx = 2 * dd + 6, 2 * dd + 6 + (ng - 1) * shift
        srcs = []
        for g in range(ng):
            for k in range(3):
                srcs.append((rng.choice([80, 100, 120]), 2.5 + k * dd + rng.uniform(-0.2, 0.2),
                             2.5 + k * dd + g * shift + rng.uniform(-0.2, 0.2), 1.0))
        data = np.round(_gauss(ny, nx, srcs))
        if rng.random() < 0.5:
            data = data[::-1].copy()
        if rng.random() < 0.3:
            data = data.T.copy()
        return kind, data
    if kind == 'faint':
        # tiles: ordinary two-source blends and bright stars with a ~1% companion that is
        # separated by exponentially / sinh spaced levels only (linear levels step over it)
        th = rng.randint(9, 11)
        tiles = [rng.choice(['blend', 'star']) for _ in range(rng.randint(2, 3))]
        if 'star' not in tiles:
            tiles[rng.randrange(len(tiles))] = 'star'
        srcs, x0 = [], 0
        for t in tiles:
            yc = (th - 1) / 2 + rng.uniform(-0.5, 0.5)
            if t == 'star':
                tw = 19
                flip = rng.random() < 0.5
                xs, xcmp = (6, 6 + rng.choice([7, 7.5, 8])) if not flip else (12, 12 - rng.choice([7, 7.5, 8]))
                srcs.append((rng.choice([800, 1000, 2000]), yc, x0 + xs, 1.5))
                srcs.append((rng.choice([8, 10, 14]), yc + rng.uniform(-1, 1), x0 + xcmp, 1.2))
            else:
                tw = 12
                sep = rng.choice([3.5, 4.0, 5.0])
                for k in range(2):
                    srcs.append((rng.choice([60, 100, 150]), yc + rng.uniform(-1, 1),
                                 x0 + 5.5 + (k - 0.5) * sep, rng.choice([0.8, 1.0, 1.2])))
            x0 += tw
        ny, nx = th, x0
        data = _gauss(ny, nx, srcs)
        data = np.round(data * 4) / 4
        return kind, data
    if kind == 'multi':
        # 2-4 well separated blends (each two or three overlapping sources): several parents are
        # deblended in one call, so the running max_label and the completion order matter
        ngroups = rng.randint(2, 4)
        th, tw = rng.randint(6, 8), rng.randint(10, 12)
        ny, nx = th, tw * ngroups
        srcs = []
        for g in range(ngroups):
            yc, xc = (th - 1) / 2 + rng.uniform(-1, 1), g * tw + (tw - 1) / 2
            sep = rng.choice([3.5, 4.0, 5.0])
            for k in range(rng.choice([2, 2, 3])):
                srcs.append((rng.choice([60, 100, 150, 200]), yc + rng.uniform(-1, 1),
                             xc + (k - 0.5) * sep + rng.uniform(-0.3, 0.3), rng.choice([0.8, 1.0, 1.2]))
                            if k < 2 else (rng.choice([60, 100]), yc + rng.choice([-2.5, 2.5]), xc, 0.8))
        data = np.round(_gauss(ny, nx, srcs))
    elif kind in ('gauss', 'clusters'):
        srcs = []
        ngroups = 1 if kind == 'gauss' else rng.randint(2, 3)
        for _ in range(ngroups):
            cyc, cxc = rng.uniform(1, ny - 2), rng.uniform(1, nx - 2)
            for _ in range(rng.randint(2, 5) if kind == 'gauss' else rng.randint(1, 3)):
                srcs.append((rng.choice([20, 40, 80, 100, 200]),
                             cyc + rng.uniform(-3, 3), cxc + rng.uniform(-4, 4),
                             rng.choice([0.8, 1.0, 1.5, 2.0])))
        data = np.round(_gauss(ny, nx, srcs))
    elif kind == 'plateau':
        data = np.zeros((ny, nx))
        for _ in range(rng.randint(1, 4)):
            y, x = rng.randrange(ny), rng.randrange(nx)
            h, w = rng.randint(1, 4), rng.randint(1, 5)
            data[y:y + h, x:x + w] += rng.choice([4, 4, 8, 16])
    elif kind == 'ridge':
        data = np.zeros((ny, nx))
        y = rng.randrange(1, ny - 1)
        saddle = rng.choice([1, 5, 20, 40, 49, 50])
        for x in range(nx):
            data[y, x] = saddle
        x1, x2 = rng.randrange(0, nx // 2), rng.randrange(nx // 2, nx)
        for (xx, a) in ((x1, 50), (x2, rng.choice([50, 30, 10, 6]))):
            for dy in (-1, 0, 1):
                for dx in (-1, 0, 1):
                    yy, xc = y + dy, xx + dx
                    if 0 <= yy < ny and 0 <= xc < nx:
                        data[yy, xc] = max(data[yy, xc], a - 3 * (abs(dy) + abs(dx)))
    elif kind == 'noise':
        data = np.array([[float(rng.randint(0, 9)) for _ in range(nx)] for _ in range(ny)])
    else:
        data = np.array([[float(rng.randint(-3, 30)) for _ in range(nx)] for _ in range(ny)])
    if rng.random() < 0.2:
        data = data + np.array([[rng.randint(0, 2) for _ in range(nx)] for _ in range(ny)])
    if rng.random() < 0.15:
        data = data - rng.choice([1, 3, 10])       # non-positive minimum inside a parent
    if rng.random() < 0.1:
        data = data / 4.0
    return kind, data


READS = ['slices', 'areas', 'bbox', 'labels', 'nlabels', 'max_label', 'is_consecutive', 'missing_labels',
         'background_area']


def _consec(arr, start=1):
    vals = [int(v) for v in np.unique(arr) if v]
    lut = {v: i + start for i, v in enumerate(vals)}
    out = np.zeros_like(arr)
    for v, n in lut.items():
        out[arr == v] = n
    return out


def gen_history(rng, seg):
    """A short random history of public SegmentationImage operations applied to the input image before
    it is deblended, with a plain-numpy simulation of the resulting label array (used only to choose
    valid later operations and labels= arguments; the oracles read the real array)."""
    top = int(np.iinfo(seg.dtype).max)
    arr = seg.astype(np.int64) if seg.dtype != np.uint64 else seg.astype(object).astype(np.int64)
    ops = []
    for _ in range(rng.randint(1, 4)):
        labs = [int(v) for v in np.unique(arr) if v]
        if not labs:
            break
        kind = rng.choice(['read', 'reassign', 'reassign', 'reassign', 'reassign', 'remove', 'keep', 'consec', 'copy'])
        if kind not in ('read', 'copy') and rng.random() < 0.7:
            # the general recipe for stale caches: fill a cache, then mutate, then use
            ops.append(['read', rng.choice(READS)])
        if kind == 'read':
            ops.append(['read', rng.choice(READS)])
        elif kind == 'copy':
            ops.append(['copy'])
        elif kind == 'reassign':
            olds = rng.sample(labs, 1 if rng.random() < 0.75 or len(labs) < 2 else 2)
            unused = [v for v in list(range(1, max(labs) + 1)) + [max(labs) + k for k in (1, 2, 5)]
                      if v not in labs and v <= top]
            pool = (unused * 3 + labs) if unused else labs
            new = rng.choice(pool)
            relabel = rng.random() < 0.25
            ops.append(['reassign', olds, new, relabel])
            arr = np.where(np.isin(arr, olds), new, arr)
            if relabel:
                arr = _consec(arr)
        elif kind in ('remove', 'keep'):
            if len(labs) < 2:
                continue
            sel = rng.sample(labs, rng.randint(1, len(labs) - 1))
            relabel = rng.random() < 0.3
            ops.append([kind, sel, relabel])
            gone = sel if kind == 'remove' else [v for v in labs if v not in sel]
            arr = np.where(np.isin(arr, gone), 0, arr)
            if relabel:
                arr = _consec(arr)
        else:
            start = rng.choice([1, 1, 2, 5])
            if start + len(labs) - 1 > top:
                continue
            ops.append(['consec', start])
            arr = _consec(arr, start)
    return ops, arr


def apply_history(segm, ops):
    """Replay the operations on the real object (public API only)."""
    for op in ops or []:
        try:
            with warnings.catch_warnings():
                warnings.simplefilter('ignore')
                if op[0] == 'read':
                    getattr(segm, op[1])
                elif op[0] == 'copy':
                    segm = segm.copy()
                elif op[0] == 'reassign':
                    segm.reassign_labels(op[1], op[2], relabel=op[3]) if len(op[1]) > 1 else \
                        segm.reassign_label(op[1][0], op[2], relabel=op[3])
                elif op[0] == 'remove':
                    segm.remove_labels(op[1], relabel=op[2])
                elif op[0] == 'keep':
                    segm.keep_labels(op[1], relabel=op[2])
                elif op[0] == 'consec':
                    segm.relabel_consecutive(start_label=op[1])
        except Exception:
            break
    return segm


def bump_scene(rng):
    """A faint parent with one real peak next to a bright TOUCHING neighbour that lies (partly) inside the
    parent's bounding box, as in hand-edited / merged maps: the data are discontinuous across the common
    border.  b parent pixels adjacent to the neighbour form a local bump (brighter than the parent
    pixels around them, fainter than the parent's peak); b is smaller than, equal to or larger than the
    npixels used for deblending.  Returns data, label map, npixels."""
    ny, nx = rng.randint(6, 10), rng.randint(10, 16)
    y, x = np.mgrid[:ny, :nx]
    amp = rng.choice([8, 10, 20, 40])
    yc, xc = rng.uniform(2, ny - 3), rng.uniform(3, nx / 2)
    sy, sx = rng.choice([0.8, 1.2, 2.0]), rng.choice([2.0, 3.0, 4.0])
    faint = amp * np.exp(-((y - yc) ** 2 / (2 * sy * sy) + (x - xc) ** 2 / (2 * sx * sx)))
    faint = np.round(faint * 4) / 4
    parent = faint >= rng.choice([0.25, 0.5, 1.0])
    if rng.random() < 0.5:      # a tail, so that the bounding box is larger than the blob
        parent[int(round(yc)), :] |= x[0] >= int(xc)
        faint = np.maximum(faint, np.where(parent, 0.25, 0))
    pts = np.argwhere(parent)
    # the neighbour: a compact blob around a point on the far (faint) side of the parent
    far = pts[np.argsort(-(np.abs(pts[:, 1] - xc) + 0.1 * np.abs(pts[:, 0] - yc)))][:max(1, len(pts) // 6)]
    qy, qx = far[rng.randrange(len(far))]
    qy += rng.choice([-1, 0, 1])
    rad = rng.choice([1.0, 1.5, 2.0])
    neigh = (np.hypot(y - qy, x - qx) <= rad) & (np.hypot(y - yc, x - xc) > 1.5)
    if not neigh.any():
        neigh[min(max(qy, 0), ny - 1), qx] = True
    parent &= ~neigh
    if rng.random() < 0.3:      # neighbour entirely outside the parent's bounding box: shift it away
        pass
    bright = rng.choice([3, 5, 10, 30]) * amp
    data = np.where(neigh, np.round(bright * np.exp(-((y - qy) ** 2 + (x - qx) ** 2) / 8.0)), faint)
    data = np.where(parent | neigh, data, 0.0)
    seg = np.zeros((ny, nx), int)
    a, b = (1, 2) if rng.random() < 0.5 else (2, 1)
    seg[parent], seg[neigh] = a, b
    npix = rng.choice([2, 3, 3, 4, 5])
    # the bump: parent pixels touching the neighbour (8- or 4-adjacent)
    four = rng.random() < 0.5
    adj = []
    for (py, px) in np.argwhere(parent):
        for dy in (-1, 0, 1):
            for dx in (-1, 0, 1):
                if (dy or dx) and (not four or abs(dy) + abs(dx) == 1):
                    qy2, qx2 = py + dy, px + dx
                    if 0 <= qy2 < ny and 0 <= qx2 < nx and neigh[qy2, qx2]:
                        adj.append((py, px))
    adj = sorted(set(adj))
    nb = rng.choice([0, 1, 1, npix - 1, npix - 1, npix, npix + 1])
    if adj and nb:
        start = adj[rng.randrange(len(adj))]
        adj.sort(key=lambda q: abs(q[0] - start[0]) + abs(q[1] - start[1]))
        for (py, px) in adj[:nb]:
            data[py, px] = max(data[py, px] + 0.5, np.round(amp * rng.choice([0.4, 0.6, 0.8]) * 4) / 4)
    return data, seg, npix


def cut_segments(seg, rng):
    ny, nx = seg.shape
    y, x = np.mgrid[:ny, :nx]
    how = rng.choice(['l2', 'l1', 'linf', 'stripes'])
    k = rng.randint(2, 4)
    if how == 'stripes':
        a, b = rng.choice([(1, 0), (0, 1), (1, 1), (1, -1), (2, 1), (1, 2)])
        w = rng.choice([2, 3, 4, 5])
        cell = ((a * y + b * x + rng.randint(0, 4)) // w) % k
    else:
        pts = [(rng.uniform(0, ny - 1), rng.uniform(0, nx - 1)) for _ in range(k)]
        dist = []
        for (py, px) in pts:
            dy, dx = np.abs(y - py), np.abs(x - px)
            dist.append(np.hypot(dy, dx) if how == 'l2' else dy + dx if how == 'l1' else np.maximum(dy, dx))
        cell = np.argmin(np.array(dist), axis=0)
    new = np.where(seg > 0, (seg.astype(np.int64) - 1) * k + cell + 1, 0)
    vals, inv = np.unique(new, return_inverse=True)
    out = inv.reshape(seg.shape)
    if vals[0] != 0:
        out = out + 1
    return out.astype(int)


def gen_case(rng, small=False):
    from photutils.segmentation import detect_sources
    kind, data = gen_scene(rng, small)
    preset = None
    if kind == 'bump':
        data, preset, npix_bump = data
    ny, nx = data.shape
    conn_det = rng.choice([4, 8])
    npix_det = rng.choice([1, 2, 3, 5])
    thr = rng.choice([0, 0, 1, 2, 5])
    if kind == 'multi':
        thr = rng.choice([2, 3, 5])
    if kind == 'faint':
        thr, npix_det = rng.choice([0.5, 1, 1]), rng.choice([2, 3, 5])
    if kind == 'interlock':
        thr, npix_det = 10, rng.choice([1, 2, 3])
    if kind == 'touch':
        thr, npix_det = rng.choice([0.5, 1, 2]), rng.choice([1, 2, 3])
    seg = preset
    if kind not in ('hand', 'bump'):
        with warnings.catch_warnings():
            warnings.simplefilter('ignore')
            s = detect_sources(data, thr, npix_det, connectivity=conn_det)
        if s is not None:
            seg = np.array(s.data)
    if seg is None:
        kind = 'hand'
        seg = np.zeros((ny, nx), int)
        for lab in range(1, rng.randint(2, 5)):
            y, x = rng.randrange(ny), rng.randrange(nx)
            h, w = rng.randint(1, 5), rng.randint(1, 6)
            seg[y:y + h, x:x + w] = lab
        if rng.random() < 0.5:     # sprinkle: disconnected parents
            for _ in range(rng.randint(1, 4)):
                seg[rng.randrange(ny), rng.randrange(nx)] = rng.randint(1, 3)
        if not seg.any():
            seg[0, 0] = 1
    flavour = []
    # touching segments: cut the detected segments into pieces (Voronoi cells of random points in the
    # L2 / L1 / L-infinity metric, or stripes), not aligned with the saddles: 4- and 8-adjacent
    # neighbours, pieces inside each other's bounding boxes, slivers of a neighbour's wing
    if kind == 'touch' or (kind in ('gauss', 'clusters', 'multi', 'plateau', 'ridge') and rng.random() < 0.12):
        seg = cut_segments(seg, rng)
        flavour.append('cut-into-touching-pieces')
    # second pass: the OUTPUT of an earlier deblend_sources call (children touch each other) is the
    # input label map (as a fresh SegmentationImage; `redeblend` below passes the object itself)
    if kind in ('gauss', 'clusters', 'multi', 'touch', 'faint', 'ridge') and rng.random() < 0.15:
        from photutils.segmentation import SegmentationImage, deblend_sources
        try:
            with warnings.catch_warnings():
                warnings.simplefilter('ignore')
                first = deblend_sources(data, SegmentationImage(seg.copy()), rng.choice([1, 1, 2]),
                                        nlevels=rng.choice([4, 8, 32]), contrast=rng.choice([0, 0.001]),
                                        mode=rng.choice(['linear', 'exponential', 'sinh']),
                                        connectivity=conn_det, relabel=rng.random() < 0.5, progress_bar=False)
            seg = np.array(first.data)
            flavour.append('second-pass')
        except ValueError:
            pass
    # tiny extra segments in the background
    if rng.random() < 0.3:
        free = [(y, x) for y in range(ny) for x in range(nx) if seg[y, x] == 0]
        if free:
            y, x = rng.choice(free)
            seg[y, x] = seg.max() + 1
            flavour.append('tiny')
    # merge two labels into one (possibly disconnected parent -> guard)
    labs = [int(v) for v in np.unique(seg) if v]
    if len(labs) >= 2 and rng.random() < 0.12:
        a, b = rng.sample(labs, 2)
        seg[seg == b] = a
        flavour.append('merged')
    # label gaps / non-raster label order
    labs = [int(v) for v in np.unique(seg) if v]
    r = rng.random()
    if r < 0.35:
        new = sorted(rng.sample(range(1, 41), len(labs)))
        if rng.random() < 0.5:
            rng.shuffle(new)
        lut = np.zeros(max(labs) + 1, int)
        lut[labs] = new
        seg = lut[seg]
        flavour.append('gaps')
    dtype = rng.choice(['int32'] * 6 + DTYPES)
    r = rng.random()
    if r < 0.08 and dtype in ('int8', 'uint8'):
        # labels next to the dtype maximum
        labs = [int(v) for v in np.unique(seg) if v]
        top = int(np.iinfo(dtype).max)
        tgt = rng.choice(labs)
        seg = np.where(seg == tgt, top - rng.choice([0, 1, 2, 3]), seg)
        flavour.append('dtype-top')
    seg = seg.astype(dtype)
    # the image the user deblends may have gone through label operations before
    seg_input, history = seg, []
    if rng.random() < (0.4 if kind in ('touch', 'bump', 'interlock') or 'cut-into-touching-pieces' in flavour
                       or 'second-pass' in flavour else 0.15):
        history, after = gen_history(rng, seg)
        if any(v for v in np.unique(after)):
            seg = after.astype(dtype)          # what the label array should be when deblend_sources is called
            flavour.append('history')
        else:
            history = []
    labs = [int(v) for v in np.unique(seg) if v]
    # deblend arguments
    npix = rng.choice([1, 2, 2, 3, 3, 5, 8])
    nlevels = rng.choice([1, 2, 4, 8, 32])
    contrast = rng.choice([0, 0.0, 0.001, 0.001, 0.01, 0.1, 0.3, 0.5, 1.0])
    mode = rng.choice(['exponential', 'linear', 'sinh'])
    if kind == 'faint' and rng.random() < 0.85:
        npix = rng.choice([1, 2, 3])
        nlevels = rng.choice([16, 32, 32])
        contrast = rng.choice([0, 0.001, 0.001])
        mode = rng.choice(['exponential', 'exponential', 'sinh'])
    if kind in ('faint', 'multi', 'gauss', 'clusters') and rng.random() < (0.7 if kind == 'faint' else 0.15):
        # ONE segment gets a zero / negative pixel (over-subtracted background): only that source
        # may fall back to linear levels
        tgt = rng.choice(labs)
        pts = np.argwhere(seg == tgt)
        iy, ix = pts[rng.randrange(len(pts))] if rng.random() < 0.5 else pts[0]
        data = data.copy()
        data[iy, ix] = rng.choice([0.0, -0.5, -2.0])
        flavour.append('nonpos-pixel-in-one-segment')
    if rng.random() < (0.35 if kind in ('touch', 'bump', 'interlock') else 0.15):
        # non-finite pixels inside segments (allowed), preferably inside ANOTHER segment's bounding box
        data = np.array(data, float)
        boxes = {}
        for l in labs:
            ys, xs = np.nonzero(seg == l)
            boxes[l] = (ys.min(), ys.max(), xs.min(), xs.max())
        inside = [(int(py), int(px)) for (py, px) in np.argwhere(seg > 0)
                  if any(l != seg[py, px] and b[0] <= py <= b[1] and b[2] <= px <= b[3] for l, b in boxes.items())]
        allp = [(int(py), int(px)) for (py, px) in np.argwhere(seg > 0)]
        for _ in range(rng.randint(1, 3)):
            py, px = rng.choice(inside) if inside and rng.random() < 0.75 else rng.choice(allp)
            val = rng.choice([np.nan, np.nan, np.nan, np.inf, -np.inf])
            block = [(py, px)] if rng.random() < 0.6 else [(py, px), (py, px + 1), (py + 1, px), (py + 1, px + 1)]
            for (qy, qx) in block:
                if qy < ny and qx < nx and seg[qy, qx] == seg[py, px]:
                    data[qy, qx] = val
        flavour.append('nonfinite-pixels-in-segments')
    if kind == 'bump' and rng.random() < 0.9:
        npix = npix_bump
        nlevels = rng.choice([8, 16, 32, 32])
        contrast = rng.choice([0, 0, 0.001])
    if kind == 'touch' or 'second-pass' in flavour or 'cut-into-touching-pieces' in flavour:
        if rng.random() < 0.8:
            npix = rng.choice([2, 3, 3, 4, 5])
            nlevels = rng.choice([4, 8, 32, 32])
            contrast = rng.choice([0, 0.001, 0.01])
    if kind in ('multi', 'interlock') and rng.random() < 0.8:
        npix = rng.choice([1, 2, 3])
        nlevels = rng.choice([4, 8, 32])
        contrast = rng.choice([0, 0.001, 0.01, 0.1])
    conn = conn_det if rng.random() < 0.85 else 12 - conn_det
    relabel = rng.random() < 0.5
    r = rng.random()
    if r < 0.03:
        nlevels = rng.choice([0, -1])
    elif r < 0.06:
        contrast = rng.choice([-0.5, 1.5, 2])
    elif r < 0.08:
        mode = 'bad'
    labels = None
    r = rng.random()
    if kind in ('faint', 'interlock', 'bump') and r < 0.45 and rng.random() < 0.7:
        r = 0.9
    if r < 0.45:
        k = rng.randint(1, len(labs))
        labels = rng.sample(labs, k)
        if rng.random() < 0.15:
            labels.append(rng.choice(labels))          # duplicate
            flavour.append('dup-label')
        if rng.random() < 0.08:
            labels.insert(rng.randrange(len(labels) + 1),
                          rng.choice([0, -1, max(labs) + 1, max(labs) + 7]))
            flavour.append('bad-label')
        if rng.random() < 0.3 and len(labels) == 1:
            labels = labels[0]                          # scalar label
    elif r < 0.48:
        labels = []
        flavour.append('empty-labels')
    r = rng.random()
    small = [l for l in labs if int((seg == l).sum()) < 2 * npix]
    if r < 0.06 and small:
        # a labels= subset made of non-candidates only (fewer than 2*npixels pixels each)
        labels = rng.sample(small, rng.randint(1, len(small)))
        flavour.append('only-non-candidates')
    elif r < 0.10:
        # every segment is too small to be a candidate
        npix = int(max((seg == l).sum() for l in labs)) // 2 + 1
        flavour.append('all-small')
    # magnitude / pedestal axis: the same scene as raw counts on a bias level, in other units, and in
    # single precision.  The segmentation is kept, so the parents are the same; any difference in
    # floating-point precision between two execution paths (serial / worker processes) shows up
    # as serial != parallel on these
    if kind in ('gauss', 'multi', 'faint', 'interlock', 'clusters', 'ridge') and rng.random() < 0.45:
        amp = rng.choice([1, 1, 0.1, 0.01])
        ped = rng.choice([0, 1.0e3, 1.0e5, 1.0e7, 1.0e7])
        sc = rng.choice([1, 1, 2.0 ** 40, 2.0 ** -40])
        data = (np.asarray(data, float) * amp + ped) * sc
        flavour.append(f'pedestal={ped:g}')
        if amp != 1:
            flavour.append(f'amplitude={amp:g}')
        if sc != 1:
            flavour.append('scaled-2^40' if sc > 1 else 'scaled-2^-40')
    if rng.random() < 0.12:
        data = np.asarray(data).astype(np.float32)
        flavour.append('float32-input')
    return dict(kind=kind, flavour=flavour, data=data, seg=seg_input, history=history, npix=npix, nlevels=nlevels,
                contrast=contrast, mode=mode, conn=conn, relabel=relabel, labels=labels,
                redeblend=False if history else ({'npixels': rng.choice([1, 2, npix]), 'nlevels': rng.choice([4, 8, 32]),
                            'mode': rng.choice(['linear', 'exponential', 'sinh'])}
                                             if rng.random() < 0.10 else False))


def directed_cases():
    """Corner cases named in the quantifier text / found while reading the code."""
    d = np.round(_gauss(8, 14, [(100, 4, 3, 1.5), (80, 4, 9, 1.5)]))
    base = (d > 2).astype(int)
    out = []
    for dtype in DTYPES:
        for relabel in (False, True):
            seg = (base * 3).astype(dtype)
            seg[0, 13] = 7
            out.append(dict(kind='directed', flavour=['dtype'], data=d, seg=seg, npix=3, nlevels=8,
                            contrast=0.001, mode='linear', conn=8, relabel=relabel, labels=None,
                            redeblend=False))
    for dtype in ('int8', 'uint8'):
        top = int(np.iinfo(dtype).max)
        for delta in (0, 1, 2, 3):
            for relabel in (False, True):
                seg = (base * (top - delta)).astype(dtype)
                seg[0, 13] = 2
                out.append(dict(kind='directed', flavour=['dtype-top'], data=d, seg=seg, npix=3,
                                nlevels=8, contrast=0.001, mode='linear', conn=8, relabel=relabel,
                                labels=None, redeblend=False))
    for relabel in (False, True):       # empty segmentation image
        out.append(dict(kind='directed', flavour=['all-zero'], data=d, seg=np.zeros(d.shape, 'int32'),
                        npix=3, nlevels=8, contrast=0.001, mode='linear', conn=8, relabel=relabel,
                        labels=None, redeblend=False))
    # contrast = 1 with otherwise invalid mode (the copy is returned before the mode test)
    out.append(dict(kind='directed', flavour=['contrast1-badmode'], data=d, seg=base.astype('int32') * 4,
                    npix=3, nlevels=8, contrast=1, mode='bad', conn=8, relabel=True, labels=None,
                    redeblend=False))
    out += pool_matrix_cases()
    return out


def pool_matrix_cases():
    """nproc x number-of-candidates matrix: four blends (labels 2, 3, 5, 6) and two one-pixel segments
    (labels 1, 8); labels= subsets give 0, 1, 2, 4 candidates (subsets not starting at the first label,
    unordered, made of non-candidates only, empty), npixels too large gives 0 candidates with
    labels=None.  'pool' = nproc values for REAL spawn pools (quick tier; thorough adds more)."""
    d = np.round(_gauss(9, 44, [(100, 4, 3, 1.0), (80, 4, 7, 1.0), (120, 4, 14, 1.0), (90, 4, 18, 1.0),
                                (100, 4, 25, 1.0), (100, 4, 29, 1.0), (70, 4, 36, 1.0), (110, 4, 40, 1.0)]))
    seg = np.zeros(d.shape, int)
    for lab, (a, b) in zip((2, 3, 5, 6), ((0, 11), (11, 22), (22, 33), (33, 44))):
        seg[:, a:b][d[:, a:b] > 5] = lab
    seg[0, 0], seg[8, 43] = 1, 8
    seg = seg.astype('int32')
    out = []
    for labels, npix, pool in ((None, 3, [2, 3]),        # 4 candidates: more than nproc
                               ([2], 3, [2, 3]),          # 1 candidate: fewer than nproc
                               ([5, 3], 3, [3]),          # 2 candidates, not from the first label, unordered
                               ([8, 6], 3, []),           # non-candidate first, then one candidate
                               ([1, 8], 3, [2, 3]),       # non-candidates only
                               ([8], 3, [2, 3]),
                               ([], 3, [2, 3]),           # empty subset
                               (None, 60, [2, 3])):       # every segment too small
        ncand = 0 if npix == 60 else len([l for l in ((2, 3, 5, 6) if labels is None else labels) if l in (2, 3, 5, 6)])
        for relabel in (False, True):
            out.append(dict(kind='directed', flavour=['pool-matrix'], data=d, seg=seg.copy(), npix=npix,
                            nlevels=8, contrast=0.001, mode='linear', conn=8, relabel=relabel,
                            labels=None if labels is None else list(labels), redeblend=False,
                            pool=pool if relabel or ncand == 0 else []))
    return out


# --------------------------------------------------------------------------
# running the implementation
# --------------------------------------------------------------------------
def observe(r):
    info = getattr(r, 'info', None) or {}
    w = info.get('warnings', {})
    inv = r.deblended_labels_inverse_map
    integral = all(np.issubdtype(np.asarray(v).dtype, np.integer) for v in inv.values()) and \
        np.issubdtype(np.asarray(r.deblended_labels).dtype, np.integer)
    return {
        'data': np.array(r.data).astype(object).astype(int).tolist() if r.data.dtype == np.uint64
        else np.array(r.data).astype(np.int64).tolist(),
        'dtype': str(r.data.dtype),
        'labels': [int(v) for v in r.labels],
        'inverse_map': [[int(k), [int(c) for c in v]] for k, v in inv.items()],
        'deblended_labels': [int(v) for v in r.deblended_labels],
        'labels_map': [[int(k), int(v)] for k, v in r.deblended_labels_map.items()],
        'nonposmin': [int(v) for v in w.get('nonposmin', {}).get('input_labels', [])],
        'nmarkers': [int(v) for v in w.get('nmarkers', {}).get('input_labels', [])],
        'integral': bool(integral),
    }


def make_segm(case):
    """The input SegmentationImage (optionally itself a deblended image)."""
    from photutils.segmentation import SegmentationImage, deblend_sources
    segm = SegmentationImage(case['seg'].copy())
    if case.get('redeblend'):
        try:
            with warnings.catch_warnings():
                warnings.simplefilter('ignore')
                rd = case['redeblend'] if isinstance(case['redeblend'], dict) else \
                    {'npixels': case['npix'], 'nlevels': 4, 'mode': 'linear'}
                segm = deblend_sources(case['data'], segm, rd['npixels'], nlevels=rd['nlevels'], contrast=0.0,
                                       mode=rd['mode'], connectivity=case['conn'], relabel=False,
                                       progress_bar=False)
        except Exception:
            segm = SegmentationImage(case['seg'].copy())
    return apply_history(segm, case.get('history'))


def call_impl(case, segm, nproc=1):
    from photutils.segmentation import deblend_sources
    labels = case['labels']
    if isinstance(labels, list):
        labels = list(labels)
    data = case['data'].copy()
    before = np.array(segm.data).copy()
    w0 = (getattr(segm, 'info', None) or {}).get('warnings', {})
    in_info = [[int(v) for v in w0.get(k, {}).get('input_labels', [])] for k in ('nonposmin', 'nmarkers')]
    try:
        with warnings.catch_warnings():
            warnings.simplefilter('ignore')
            r = deblend_sources(data, segm, case['npix'], labels=labels, nlevels=case['nlevels'],
                                contrast=case['contrast'], mode=case['mode'],
                                connectivity=case['conn'], relabel=case['relabel'], nproc=nproc,
                                progress_bar=False)
        res = {'ok': observe(r), 'shares_memory': bool(np.shares_memory(r.data, segm.data))}
    except Exception as e:   # every exception class is an observable
        res = {'exc': type(e).__name__, 'msg': str(e)[:200]}
    res['in_info'] = in_info
    after = np.array(segm.data)
    res['input_after'] = after.astype(np.int64).tolist() if after.dtype != np.uint64 else \
        after.astype(object).astype(int).tolist()
    res['input_unchanged'] = bool(after.dtype == before.dtype and np.array_equal(after, before))
    res['data_unchanged'] = bool(data.dtype == case['data'].dtype and data.tobytes() == case['data'].tobytes())
    return res


def raw_table(case, segm, rec):
    """label -> (watershed output or None, warns) for every label of the input:
    recorded during the real run, completed by direct _deblend_source calls with the
    same parameters for the labels the run did not reach."""
    from photutils.segmentation import deblend as D
    from photutils.segmentation.utils import _make_binary_structure
    tab = {}
    for e in rec.records:
        tab.setdefault(e['label'], e)
    labels = [int(v) for v in segm.labels]
    missing = [l for l in labels if l not in tab]
    if missing and case['mode'] in ('exponential', 'linear', 'sinh') and case['nlevels'] >= 1 \
            and case['conn'] in (4, 8):
        params = D._DeblendParams(case['npix'], _make_binary_structure(2, case['conn']),
                                  case['nlevels'], case['contrast'], case['mode'])
        n0 = len(rec.records)
        for l in missing:
            slc = segm.slices[segm.get_index(l)]
            try:
                with warnings.catch_warnings():
                    warnings.simplefilter('ignore')
                    D._deblend_source(case['data'][slc], segm.data[slc], segm.labels[segm.get_index(l)], params)
            except Exception:
                pass
        for e in rec.records[n0:]:
            tab.setdefault(e['label'], e)
        del rec.records[n0:]
    return tab


def to_coq(case, seg_arr, in_map, tab, nproc, order, res):
    ny, nx = seg_arr.shape
    labels = case['labels']
    if labels is None:
        larg = None
    else:
        larg = Some([int(v) for v in np.atleast_1d(labels)])
    c = Fraction(case['contrast'])
    rt = []
    for l in sorted(tab):
        e = tab[l]
        raw = None if e['raw'] is None else Some(Raw(img_coq(np.asarray(e['raw']).astype(np.int64))))
        rt.append((l, raw, bool(e['warns'][0]), bool(e['warns'][1])))
    info = np.iinfo(seg_arr.dtype)
    dtmax = Some(int(info.max)) if int(info.max) < 2 ** 31 else None
    if 'exc' in res:
        ex = Raw(f'(XErr {ERR_CODES.get(res["exc"], 50)})')
    else:
        o = res['ok']
        if case['contrast'] == 1 and [o['nonposmin'], o['nmarkers']] == res.get('in_info'):
            # the copy of the input carries the input's own .info (checked by the oracle); the model's
            # warning lists are those of THIS call
            o = dict(o, nonposmin=[], nmarkers=[])
        ex = Raw('(XOk ' + coq((Raw(img_coq(np.array(o['data'], dtype=object).reshape(ny, nx))),
                                o['labels'], [(k, v) for k, v in o['inverse_map']],
                                o['deblended_labels'], [(k, v) for k, v in o['labels_map']],
                                o['nonposmin'], o['nmarkers'],
                                Raw(img_coq(np.array(res['input_after'], dtype=object).reshape(ny, nx))))) + ')')
    segl = seg_arr.astype(object) if seg_arr.dtype == np.uint64 else seg_arr.astype(np.int64)
    return coq((ny, nx, Raw(img_coq(segl)), [(k, v) for k, v in in_map], int(case['npix']), larg,
                int(case['nlevels']), (c.numerator, c.denominator),
                case['mode'] in ('exponential', 'linear', 'sinh'), bool(case['relabel']), dtmax,
                int(nproc), [int(i) for i in order], rt, ex))


# --------------------------------------------------------------------------
# the property, in plain Python, on the implementation's output
# --------------------------------------------------------------------------
def _connected(mask, conn):
    pts = list(zip(*np.nonzero(mask)))
    if not pts:
        return True
    seen = {pts[0]}
    stack = [pts[0]]
    while stack:
        y, x = stack.pop()
        for dy in (-1, 0, 1):
            for dx in (-1, 0, 1):
                if (dy or dx) and (conn == 8 or abs(dy) + abs(dx) == 1):
                    q = (y + dy, x + dx)
                    if 0 <= q[0] < mask.shape[0] and 0 <= q[1] < mask.shape[1] and mask[q] and q not in seen:
                        seen.add(q)
                        stack.append(q)
    return len(seen) == len(pts)


def oracle(case, seg_arr, in_map, tab, res):
    """Returns a list of (signature, message) for the clauses of C06 violated by the
    implementation's answer `res` on this input (empty list = property holds)."""
    bad = []
    seg = seg_arr.astype(object).astype(int) if seg_arr.dtype == np.uint64 else seg_arr.astype(np.int64)
    seglabels = sorted(int(v) for v in np.unique(seg) if v)
    if not res['input_unchanged']:
        bad.append(('deblend_sources:input-modified', 'the input segmentation array was modified'))
    if not res['data_unchanged']:
        bad.append(('deblend_sources:data-modified', 'the input data array was modified'))
    valid_args = case['nlevels'] >= 1 and 0 <= case['contrast'] <= 1
    if valid_args and case['contrast'] != 1:
        valid_args = case['mode'] in ('exponential', 'linear', 'sinh')
    labels = seglabels if case['labels'] is None else [int(v) for v in np.atleast_1d(case['labels'])]
    labels_ok = all(l > 0 and l in seglabels for l in labels)
    if 'exc' in res:
        if res['exc'] != 'ValueError':
            if valid_args and (labels_ok or case['contrast'] == 1):
                bad.append((f'deblend_sources:raises-{res["exc"]}:dtype={seg_arr.dtype.kind}{seg_arr.dtype.itemsize}'
                            f':empty={not seglabels}',
                            f'valid arguments raise {res["exc"]}: {res.get("msg", "")}'))
            return bad
        if not valid_args or (case['contrast'] != 1 and not labels_ok):
            return bad
        if case['contrast'] == 1:
            bad.append(('deblend_sources:contrast1-raises', 'contrast=1 raised ValueError'))
            return bad
        sel = [l for l in labels if (seg == l).sum() >= 2 * case['npix']]
        if any(not _connected(seg == l, case['conn']) for l in sel):
            return bad          # documented: parent not connected under this connectivity
        nchild = 0
        for l in sel:
            e = tab.get(l)
            if e is not None and e['raw'] is not None:
                k = len([v for v in np.unique(e['raw']) if v])
                nchild += k if k >= 2 else 0
        if (max(seglabels) if seglabels else 0) + nchild > np.iinfo(seg_arr.dtype).max:
            return bad          # result not representable in the dtype (clean error after fix C06-1)
        bad.append(('deblend_sources:unexpected-ValueError', 'ValueError on a valid input: ' + res.get('msg', '')))
        return bad
    o = res['ok']
    if not valid_args or (case['contrast'] != 1 and not labels_ok):
        bad.append(('deblend_sources:invalid-args-accepted', 'invalid arguments did not raise ValueError'))
        return bad
    out = np.array(o['data'], dtype=object).astype(int).reshape(seg.shape)
    if case['contrast'] == 1:
        if not np.array_equal(out, seg) or o['inverse_map'] != [[k, v] for k, v in in_map] \
                or [o['nonposmin'], o['nmarkers']] != res.get('in_info', [[], []]):
            bad.append(('deblend_sources:contrast1-not-identity', 'contrast=1 does not return the input unchanged'))
        if res.get('shares_memory'):
            bad.append(('deblend_sources:contrast1-alias', 'contrast=1 returns an array sharing memory with the input'))
        return bad
    if not o['integral']:
        bad.append(('deblend_sources:non-integer-labels', 'deblended label arrays are not of integer dtype'))
    if res.get('shares_memory'):
        bad.append(('deblend_sources:output-alias', 'output shares memory with the input segmentation'))
    if not np.array_equal(out != 0, seg != 0):
        bad.append(('deblend_sources:support-changed', 'set of non-zero pixels changed'))
    outlabels = sorted(int(v) for v in np.unique(out) if v)
    if o['labels'] != outlabels:
        bad.append(('deblend_sources:labels-attr', '.labels differs from the labels in .data'))
    inv = {k: v for k, v in o['inverse_map']}
    sel = set(l for l in labels if (seg == l).sum() >= 2 * case['npix'])
    allchildren = []
    for p, cs in inv.items():
        allchildren += cs
        pm = seg == p
        if p not in sel:
            bad.append(('deblend_sources:parent-not-selected', f'label {p} deblended but not selected / too small'))
        if len(cs) < 2 or len(set(cs)) != len(cs):
            bad.append(('deblend_sources:fewer-than-two-children', f'parent {p} has children {cs}'))
        if not pm.any() or not np.array_equal(np.isin(out, cs), pm):
            bad.append(('deblend_sources:children-not-partition', f'children {cs} do not partition parent {p}'))
        for c in cs:
            if (out == c).sum() < case['npix']:
                bad.append(('deblend_sources:child-smaller-than-npixels',
                            f'child {c} of parent {p} has {(out == c).sum()} < npixels pixels'))
    if len(set(allchildren)) != len(allchildren):
        bad.append(('deblend_sources:child-shared', 'a child label belongs to two parents'))
    if o['deblended_labels'] != sorted(allchildren):
        bad.append(('deblend_sources:deblended_labels', '.deblended_labels != sorted children of the map'))
    if sorted(o['labels_map']) != sorted([c, p] for p, cs in inv.items() for c in cs):
        bad.append(('deblend_sources:deblended_labels_map', '.deblended_labels_map is not the inverse of the inverse map'))
    seen = {}
    for q in seglabels:
        if q in inv:
            continue
        vals = set(int(v) for v in out[seg == q])
        if len(vals) != 1 or not np.array_equal(out == next(iter(vals)), seg == q):
            bad.append(('deblend_sources:other-segment-changed', f'pixels of untouched label {q} changed'))
        elif not case['relabel'] and vals != {q}:
            bad.append(('deblend_sources:other-label-changed', f'label {q} changed with relabel=False'))
    if case['relabel'] and outlabels != list(range(1, len(outlabels) + 1)):
        bad.append(('deblend_sources:not-consecutive', f'relabel=True but labels are {outlabels[:12]}'))
    return bad


def _pattern(case, labels, l):
    """Children pattern of parent l when `labels` are deblended (relabel=False): (deblended?, child index
    of every pixel of l in raster order, counted from the smallest child label) or ('exc', class)."""
    c2 = dict(case, labels=labels, relabel=False, redeblend=case.get('redeblend', False))
    segm = make_segm(c2)
    seg = np.array(segm.data)
    res = call_impl(c2, segm, 1)
    if 'exc' in res:
        return ('exc', res['exc'])
    out = np.array(res['ok']['data'], dtype=object).astype(np.int64).reshape(seg.shape)
    vals = out[seg == l]
    deb = l in [k for k, _ in res['ok']['inverse_map']]
    return (deb, (vals - vals.min()).tolist() if deb else (vals - l).tolist())


def independence(case, picks, orders):
    """Per-source independence: what happens to parent l does not depend on which other labels are
    deblended in the same call nor on their order.  picks = labels to test, orders = label lists
    (all containing the picks).  Returns [(signature, message, detail)]."""
    bad = []
    for l in picks:
        ref = _pattern(case, [l], l)
        if ref[0] == 'exc':
            continue
        for labels in orders:
            got = _pattern(case, list(labels), l)
            if got[0] == 'exc':
                continue          # another parent failed the footprint guard
            if got != ref:
                bad.append(('deblend_sources:source-depends-on-other-sources',
                            f'parent {l} is split differently when deblended alone and together with labels {list(labels)}',
                            {'case': describe(case), 'independence': {'label': int(l), 'labels': [int(v) for v in labels]},
                             'alone': ref, 'together': got, 'cmd': 'bin/check C06 --replay <this file>'}))
                break
    return bad


def _outside(case, l, fill, seed, keep_others):
    """The case with every pixel outside parent l's mask given other data (and optionally the other
    segments removed from the label map)."""
    import random as _random
    r = _random.Random(seed)
    seg = case['seg']
    d = np.array(case['data'], dtype=case['data'].dtype)
    m = seg == l
    fin = d[m][np.isfinite(d[m])]
    top = float(np.max(fin)) if fin.size else 1.0
    if fill == 'zero':
        other = np.zeros(d.shape)
    elif fill == 'bright':
        other = np.full(d.shape, 8 * abs(top) + 8)
    else:
        other = np.array([[r.choice([-1.0, 0.0, 0.5, 1.0]) * (abs(top) + 1) * r.choice([0.5, 1, 3])
                           for _ in range(d.shape[1])] for _ in range(d.shape[0])])
    d2 = np.where(m, d, other.astype(d.dtype))
    seg2 = seg if keep_others else np.where(m, seg, 0).astype(seg.dtype)
    return dict(case, data=d2, seg=seg2)


def isolation(case, picks, variants):
    """The markers and the watershed of a source are restricted to its own mask: what happens to parent
    l depends on the data inside l's mask only.  variants = [(fill, seed, keep_others)]."""
    bad = []
    if case.get('redeblend') or case.get('history'):
        return bad
    for l in picks:
        ref = _pattern(case, [l], l)
        if ref[0] == 'exc':
            continue
        for (fill, seed, keep) in variants:
            got = _pattern(_outside(case, l, fill, seed, keep), [l], l)
            if got != ref:
                bad.append(('deblend_sources:source-depends-on-pixels-outside-its-mask',
                            f'parent {l} is split differently when the data outside its mask are replaced ({fill}'
                            f'{"" if keep else ", other segments removed"})',
                            {'case': describe(case), 'isolation': {'label': int(l), 'fill': fill, 'seed': seed,
                                                                   'keep_others': bool(keep)},
                             'original': ref, 'modified': got, 'cmd': 'bin/check C06 --replay <this file>'}))
                break
    return bad


def fresh_equivalence(case, seg_arr, res):
    """The result is a function of the label ARRAY: an image that went through label operations must be
    deblended exactly like a fresh SegmentationImage built from its current array."""
    from photutils.segmentation import SegmentationImage
    if not case.get('history') or case['contrast'] == 1:
        return []
    res2 = call_impl(case, SegmentationImage(seg_arr.copy()), 1)
    a, b = strip_res(res), strip_res(res2)
    a.pop('in_info', None), b.pop('in_info', None)
    if a != b:
        return [('deblend_sources:depends-on-cached-attributes',
                 f'after the label operations {case["history"]} the image is deblended differently from a fresh '
                 'SegmentationImage holding the same label array')]
    return []


# --------------------------------------------------------------------------
def describe(case):
    d = case['data']
    return {'data': d.tolist(), 'data_dtype': str(d.dtype), 'seg': case['seg'].astype(object).astype(int).tolist() if case['seg'].dtype == np.uint64
            else case['seg'].astype(np.int64).tolist(),
            'dtype': str(case['seg'].dtype), 'npixels': int(case['npix']), 'nlevels': int(case['nlevels']),
            'contrast': case['contrast'], 'mode': case['mode'], 'connectivity': int(case['conn']),
            'relabel': bool(case['relabel']),
            'labels': case['labels'] if case['labels'] is None or isinstance(case['labels'], list) else int(case['labels']),
            'redeblend': case.get('redeblend', False) or False, 'history': case.get('history') or []}


def undescribe(c):
    return dict(kind='replay', flavour=[], data=np.array(c['data'], float).astype(c.get('data_dtype', 'float64')),
                seg=np.array(c['seg'], dtype=object).astype(c['dtype']),
                npix=c['npixels'], nlevels=c['nlevels'], contrast=c['contrast'], mode=c['mode'],
                conn=c['connectivity'], relabel=c['relabel'], labels=c['labels'],
                redeblend=c.get('redeblend', False), history=c.get('history') or [])


def run_one(case, nproc=1, order_fn=None):
    """Run the implementation once with the recorder; returns everything needed to
    build the Coq case and to evaluate the oracle."""
    segm = make_segm(case)
    seg_arr = np.array(segm.data).copy()
    in_map = [[int(k), [int(c) for c in v]] for k, v in segm.deblended_labels_inverse_map.items()]
    with Recorder() as rec:
        if nproc == 1:
            res = call_impl(case, segm, 1)
            order = []
        else:
            with FakePool(order_fn) as pool:
                res = call_impl(case, segm, nproc)
            order = pool.used_order or []
        tab = raw_table(case, segm, rec)
    return seg_arr, in_map, tab, order, res


def strip_res(res):
    return {k: v for k, v in res.items() if k not in ('msg',)}


def run(ctx):
    from . import c06m
    # C06M: the multi-threshold marker tree of _SingleSourceDeblender over C04's connected components; the watershed is
    # a Section variable constrained only by its specification (checked on every real call)
    ctx.build_with_translator(FILES, extra_files=[f for f in c06m.COQ_FILES if f not in FILES],
                              extra_obligation_files=c06m.OBLIGATION_FILES)
    ctx.cov['rule'] = (
        'blended scenes (2-5 overlapping rounded Gaussians, 2-4 separate blends deblended in one call, bright stars '
        'with ~1% companions that split only under exponential/sinh levels next to segments containing one planted '
        'zero/negative pixel (per-source fallback to linear), blends on parallel diagonals with interlocking '
        'bounding boxes, compact groups whose segments are cut into touching pieces (Voronoi cells / stripes: 4- and '
        '8-adjacent neighbours inside each other\'s bounding boxes, slivers smaller than npixels next to bright '
        'neighbours), outputs of an earlier deblend_sources pass fed back in (fresh image or the object itself, '
        'different npixels/contrast/labels), images that went through a short random history of public label '
        'operations first (reads of slices/areas/bbox, reassign_label(s) to unused / used numbers with rank change, '
        'remove/keep labels, relabel_consecutive, copy), NaN / +-inf pixels inside segments and inside other '
        'segments\' bounding boxes, faint parents with a bump of fewer / exactly / more than npixels pixels '
        'next to a bright touching neighbour inside their bounding box (discontinuous data, as in edited maps), clusters, '
        'the same scenes on pedestals 0/1e3/1e5/1e7 with amplitudes 1/0.1/0.01, scaled by 2^+-40, float32 inputs, '
        'plateaus, ridges with saddles, noise, hand-made segmentations incl. disconnected parents) -> '
        'detect_sources or hand labels; label gaps and '
        'non-raster label order, tiny segments, merged labels, 8 integer dtypes, labels at the dtype maximum, '
        're-deblending; labels=None/subset/shuffled/duplicates/scalar/empty/invalid; nlevels, contrast '
        '(incl. 0, 1, invalid), 3 modes (+invalid), connectivity equal/different from detection, relabel; '
        'serial run + nproc>1 path under EVERY completion order for <=3 tasks (quick) / <=4 tasks (thorough), '
        'reversed + random orders above, nproc in {2,3,4,16} crossed with 0 / 1 / fewer / more candidates than '
        'workers (labels= subsets of non-candidates only, empty, unordered, all segments too small) incl. a fixed '
        'nproc x candidates matrix on real spawn pools, every task of the in-process executor working on pickled copies of its '
        'arguments (+ real spawn pools); per-source independence: a parent deblended alone / with all labels / '
        'shuffled / reversed must get the same child pattern; non-trivial = at least '
        'one parent is deblended or an error branch is taken; distinct = distinct (scene, arguments, order)')
    ctx.assumptions += [
        'make_markers / skimage watershed / contrast pruning (apply_watershed) are not modelled: their output '
        'for each parent is recorded from the real run and is an arbitrary (universally quantified) input of the '
        'model and of every theorem; the footprint guard, the one-label test and the consecutive relabel of '
        'deblend_source ARE modelled, so (G) and (R) are theorems (per_source_result_wellformed)',
        'schedule theorems assume valid_schedule: concurrent.futures.as_completed yields every submitted future '
        'exactly once (the completion order is a permutation of the submission indices)',
        'the parallel code path is exercised with an in-process executor delivering futures in chosen '
        'completion orders; its constructor arguments are validated by the real ProcessPoolExecutor constructor; '
        'like a real ProcessPoolExecutor it pickles the bound arguments, call arguments and '
        'results of every task (no state shared between tasks); real spawn pools are sampled (the OS scheduler '
        'cannot be enumerated)',
        'per_source_independent is about the merge: equal watershed output for parent l => equal child pattern; '
        'that the un-modelled threshold/watershed stage of source l looks at nothing but source l is tested by '
        'the independence oracle (alone = together = shuffled = reversed label lists) and by the isolation oracle '
        '(the split of a parent is unchanged when the data outside its mask are replaced by zeros / bright / '
        'random values, with and without the other segments in the label map)',
        'labels are unbounded naturals in the model; the integer dtype enters only through the ValueError of '
        'fix C06-1 (final max_label > dtype maximum); nproc=None (cpu_count) and the progress bar are not modelled',
        'input_not_written is immediate for the functional model (it has no aliasing); the clause is tied to the '
        'code by snapshotting the caller\'s array (and the data array) around every real call',
        'exception messages are not compared (with two failing parents the message names whichever future '
        'completed first); only the exception class is an observable']
    ctx.cov['partial_clauses'] = [
        'each child >= npixels: theorem child_size_ge_npixels_partial assumes (W) every label of the watershed '
        'output covers >= npixels pixels of the cutout (skimage.watershed never shrinks a marker; _detect_sources '
        'drops smaller markers); tested on every implementation output by the Python oracle',
        'after fix C06-1 a call whose intermediate labels exceed the dtype maximum raises ValueError even when '
        'relabel=True would bring the final labels back into range (clean refusal, not a wrong answer)']
    quick = ctx.tier == 'quick'
    nrand = 260 if quick else 2600
    cases = directed_cases() + [gen_case(ctx.rng, small=(i % 3 == 0)) for i in range(nrand)]
    coq_cases, meta = [], []

    def add(case, nproc, order_fn, tag):
        seg_arr, in_map, tab, order, res = run_one(case, nproc, order_fn)
        term = to_coq(case, seg_arr, in_map, tab, nproc, order, res)
        coq_cases.append(term)
        meta.append((case, seg_arr, in_map, tab, nproc, order, res, tag))
        deblended = 'ok' in res and len(res['ok']['inverse_map']) > 0
        ctx.count_case([describe(case), nproc, order], deblended or 'exc' in res)
        # the property itself on the implementation's answer (needs no model)
        for sig, msg in oracle(case, seg_arr, in_map, tab, res):
            ctx.violation(sig, msg, {'case': describe(case), 'nproc': nproc, 'order': order,
                                     'impl': strip_res(res), 'cmd': 'bin/check C06 --replay <this file>'})
        ctx.support('oracle:all-clauses-on-impl-output')
        if 'ok' in res:
            ctx.support('partial:child>=npixels', sum(len(v) for _, v in res['ok']['inverse_map']))
        return res, tab

    for case in cases:
        res, tab = add(case, 1, None, 'serial')
        ctx.stat('kinds', case['kind'])
        for f in case['flavour']:
            ctx.stat('flavour', f)
        ctx.stat('dtype', str(case['seg'].dtype))
        ctx.stat('labels_arg', 'None' if case['labels'] is None else ('list' if isinstance(case['labels'], list) else 'scalar'))
        ctx.stat('relabel', str(case['relabel']))
        ctx.stat('mode', case['mode'])
        ctx.stat('connectivity', str(case['conn']))
        ctx.stat('result', res.get('exc') or ('deblended' if res['ok']['inverse_map'] else 'nothing-deblended'))
        if 'ok' in res:
            ctx.stat('parents_deblended', str(len(res['ok']['inverse_map'])))
        for sig, msg in fresh_equivalence(case, meta[-1][1], res):
            ctx.violation(sig, msg, {'case': describe(case), 'nproc': 1, 'order': [], 'impl': strip_res(res),
                                     'cmd': 'bin/check C06 --replay <this file>'})
        if case.get('history'):
            ctx.support('oracle:history-image==fresh-image-of-same-array')
        # per-source independence (labels alone / all together / shuffled), on valid calls
        if 'ok' in res and case['contrast'] != 1 and (quick is False or ctx.rng.random() < 0.5):
            seg_now = meta[-1][1]
            lab = [int(v) for v in np.unique(seg_now) if v] if case['labels'] is None else \
                sorted(set(int(v) for v in np.atleast_1d(case['labels'])))
            big = [l for l in lab if (seg_now == l).sum() >= 2 * case['npix']]
            if len(big) >= 2:
                picks = ctx.rng.sample(big, min(2, len(big)))
                sh = list(lab)
                ctx.rng.shuffle(sh)
                for sig, msg, detail in independence(case, picks, [lab, sh, list(reversed(lab))]):
                    ctx.violation(sig, msg, detail)
                ctx.support('oracle:per-source-independence', len(picks))
            if big and not case.get('redeblend') and not case.get('history') and len(np.unique(seg_now)) > 1:
                pick = ctx.rng.choice(big)
                variants = [(ctx.rng.choice(['zero', 'bright', 'random']), ctx.rng.randrange(10 ** 6), True),
                            (ctx.rng.choice(['zero', 'bright', 'random']), ctx.rng.randrange(10 ** 6), False)]
                for sig, msg, detail in isolation(case, [pick], variants):
                    ctx.violation(sig, msg, detail)
                ctx.support('oracle:source-depends-only-on-its-mask', 1)
        # schedules: the nproc>1 code path with an in-process executor.  First in submission
        # order (this also tells how many futures the call really submits), then under every
        # other completion order (few tasks) or reversed + random ones (many tasks)
        def schedule(perm):
            nproc = ctx.rng.choice([2, 3, 4, 16])
            res2, _ = add(case, nproc, (lambda n: list(range(n))) if perm is None else
                          (lambda n, perm=perm: list(perm) if n == len(perm) else list(range(n))), 'schedule')
            order = meta[-1][5]
            ctx.stat('schedule', 'permutations_run')
            ctx.stat('nproc_x_tasks', f'nproc={nproc},tasks=' + ('0' if not order else '1' if len(order) == 1 else
                                                                '<nproc' if len(order) < nproc else '>=nproc'))
            if perm is not None and order != list(perm):
                ctx.stat('schedule', 'task_count_changed_between_runs')
            a, b = strip_res(res), strip_res(res2)
            if a != b:
                ctx.violation('deblend_sources:schedule-dependent',
                              f'nproc={nproc} with completion order {order} differs from nproc=1',
                              {'case': describe(case), 'nproc': nproc, 'order': order, 'serial': a,
                               'parallel': b, 'cmd': 'bin/check C06 --replay <this file>'})
            return len(order)
        ntasks = schedule(None)
        ctx.stat('tasks', str(min(ntasks, 6)))
        if ntasks <= 1:
            continue
        limit = 3 if quick else 4
        if ntasks <= limit:      # every completion order
            perms = [q for q in itertools.permutations(range(ntasks)) if list(q) != list(range(ntasks))]
        else:
            perms = [tuple(reversed(range(ntasks)))]
            for _ in range(3 if quick else 8):
                q = list(range(ntasks))
                ctx.rng.shuffle(q)
                perms.append(tuple(q))
        ctx.stat('schedule', 'exhaustive_cases' if ntasks <= limit else 'sampled_cases')
        for perm in perms:
            schedule(perm)
    ctx.sample({'case': describe(cases[-1]), 'impl': strip_res(meta[-1][6])})

    # real process pools (spawn): the nproc x candidates matrix, plus sampled generated cases
    def real_pool(m, nproc):
        case = m[0]
        segm = make_segm(case)
        res2 = call_impl(case, segm, nproc)
        ctx.stat('schedule', 'real_spawn_pool_runs')
        ctx.count_case([describe(case), 'pool', nproc])
        if strip_res(res2) != strip_res(m[6]):
            ctx.violation('deblend_sources:schedule-dependent:real-pool',
                          f'real ProcessPoolExecutor nproc={nproc} differs from nproc=1',
                          {'case': describe(case), 'nproc': nproc, 'order': None,
                           'serial': strip_res(m[6]), 'parallel': strip_res(res2)})
    serial_meta = [m for m in meta if m[7] == 'serial']
    for m in serial_meta:
        if 'pool' in m[0]:
            for nproc in (m[0]['pool'] if quick else [2, 3, 4]):
                real_pool(m, nproc)
                ctx.stat('pool_matrix', f"labels={m[0]['labels']},npixels={m[0]['npix']},nproc={nproc}")
    if not quick:
        pool_cases = [m for m in serial_meta if 'pool' not in m[0] and 'ok' in m[6]
                      and len(m[6]['ok']['inverse_map']) >= 2]
        for m in pool_cases[:6]:
            for nproc in (2, 4):
                real_pool(m, nproc)
        zero = [m for m in serial_meta if 'pool' not in m[0]
                and any(f in m[0]['flavour'] for f in ('only-non-candidates', 'all-small', 'empty-labels'))]
        for m in zero[:40]:
            real_pool(m, ctx.rng.choice([2, 3]))

    # SourceFinder passes its arguments through unchanged
    from photutils.segmentation import SourceFinder, detect_sources, deblend_sources
    nsf = 0
    for case in cases:
        if nsf >= (15 if quick else 100):
            break
        if case['kind'] in ('hand', 'directed') or any(f.startswith('pedestal') for f in case['flavour']) \
                or case['mode'] == 'bad' or case['nlevels'] < 1 \
                or not (0 <= case['contrast'] <= 1):
            continue
        nsf += 1
        with warnings.catch_warnings():
            warnings.simplefilter('ignore')
            try:
                a = SourceFinder(npixels=(2, case['npix']), connectivity=case['conn'], nlevels=case['nlevels'],
                                 contrast=case['contrast'], mode=case['mode'], relabel=case['relabel'],
                                 progress_bar=False)(case['data'], 1.0)
                s = detect_sources(case['data'], 1.0, 2, connectivity=case['conn'])
                b = None if s is None else deblend_sources(case['data'], s, case['npix'], nlevels=case['nlevels'],
                                                           contrast=case['contrast'], mode=case['mode'],
                                                           connectivity=case['conn'], relabel=case['relabel'],
                                                           progress_bar=False)
                same = (a is None and b is None) or (a is not None and b is not None and np.array_equal(a.data, b.data))
            except ValueError:
                same = True
        ctx.support('SourceFinder==detect+deblend')
        if not same:
            ctx.violation('SourceFinder:deblend-args', 'SourceFinder != detect_sources + deblend_sources', describe(case))

    bad = ctx.coq_eval_cases(['C06_Model'], 'check_case', coq_cases, case_type='case')
    ctx.stat('coq', 'disagreements', len(bad))
    for i in bad[:20]:
        case, seg_arr, in_map, tab, nproc, order, res, tag = meta[i]
        detail = {'case': describe(case), 'nproc': nproc, 'order': order, 'impl': strip_res(res),
                  'model': ctx.coq_eval_term(['C06_Model'], f'model_out {coq_cases[i]}') if len(bad) < 40 else None,
                  'cmd': 'bin/check C06 --replay <this file>'}
        viol = oracle(case, seg_arr, in_map, tab, res)
        if viol:
            for sig, msg in viol:
                ctx.violation(sig, msg, detail)
        else:
            ctx.violation('correspondence:C06_Model.check_case',
                          'model and implementation disagree (property clauses hold on this output)', detail,
                          found_input=False)

    # per-source marker logic of the real _SingleSourceDeblender against C06M_Model (own PRNG)
    c06m.run_marker_correspondence(ctx, 120 if ctx.tier == 'quick' else 1200)


def replay(obj):
    r = obj['replay']
    case = undescribe(r.get('case', r))
    nproc = r.get('nproc', 1) or 1
    order = r.get('order') or []
    if nproc == 1 or not order:
        seg_arr, in_map, tab, _, res = run_one(case, 1, None)
    else:
        seg_arr, in_map, tab, _, res = run_one(case, nproc, lambda n: order if n == len(order) else range(n))
    print('impl:', strip_res(res) if 'exc' in res else {k: v for k, v in res['ok'].items() if k != 'data'})
    viol = oracle(case, seg_arr, in_map, tab, res)
    if r.get('independence'):
        ind = r['independence']
        viol += [(sg_, msg) for sg_, msg, _ in independence(case, [ind['label']], [ind['labels']])]
    viol += fresh_equivalence(case, seg_arr, res)
    if r.get('isolation'):
        iso = r['isolation']
        viol += [(sg_, msg) for sg_, msg, _ in
                 isolation(case, [iso['label']], [(iso['fill'], iso['seed'], iso['keep_others'])])]
    if nproc != 1 and order:
        _, _, _, _, res1 = run_one(case, 1, None)
        if strip_res(res1) != strip_res(res):
            viol.append(('deblend_sources:schedule-dependent', 'differs from nproc=1'))
    for sig, msg in viol:
        print('FAILS:', sig, '-', msg)
    print('property holds on this input' if not viol else 'property FAILS on this input')
    return 0 if not viol else 1
