"""C18 — rendered model images are the exact superposition of their sources.

Correspondence (K): make_model_image is run on an integer-valued polynomial astropy
model (exact on the 1/8-pixel lattice for center / interp / oversample(2,4)); the same
cases are evaluated by the Coq model (C18_Model.check_case, vm_compute) and compared
exactly (unit tag + every pixel as an integer).  Every disagreement is decided by the
independent oracle `oracle_render` (the property statement: per-pixel sum over rows).
Metamorphic clauses (row order — all orders for <= 4 rows —, concatenation, off-image rows,
whole-pixel translation into a larger frame, inputs unchanged) are checked directly on the
implementation.  When the implementation shows the two known defects of /repo HEAD, the model
of the unrepaired loop (C18_Model.render_orig) is tied to it as well (check_case_orig).  Clauses depending on library numerics
(analytic / PRF / image / compound models with arbitrary doubles, 'integrate',
PSF-photometry model and residual images) are support tests in Python (ctx.support).
"""
import itertools
import math
import warnings
from fractions import Fraction

import numpy as np

from .core import coq, Some

PID = 'C18'
FILES = ['lib/Cases.v', 'C18_Model.v', 'C18_Proofs.v', 'C18_Properties.v']
SC = 65536
NAMESETS = [
    ['flux', 'x_0', 'y_0', 'tx', 'ty', 'q', 'r'],
    ['amplitude', 'x_mean', 'y_mean', 'a', 'b', 'c', 'hw'],
    ['f', 'xc', 'yc', 'gx', 'gy', 'curv', 'half'],
]
UNIT_ID = {None: None, 'Jy': 1, 'ct': 2}
_CLS = {}


# --------------------------------------------------------------------------
# the polynomial test model (mirrored by C18_Model.poly_point / poly_bbox)
# --------------------------------------------------------------------------
def poly_class(names, has_bbox):
    key = (tuple(names), has_bbox)
    if key in _CLS:
        return _CLS[key]
    from astropy.modeling import Fittable2DModel, Parameter

    def evaluate(x, y, flux, x0, y0, tx, ty, q, r):
        dx = x - x0
        dy = y - y0
        return flux * (1 + tx * dx + ty * dy + q * dx * dx)

    ns = {n: Parameter(default=1.0) for n in names}
    ns['evaluate'] = staticmethod(evaluate)
    if has_bbox:
        xn, yn, rn = names[1], names[2], names[6]

        def bounding_box(self, factor=1):
            h = factor * getattr(self, rn).value
            x0 = getattr(self, xn).value
            y0 = getattr(self, yn).value
            return ((y0 - h, y0 + h), (x0 - h - 0.5, x0 + h + 0.5))
        ns['bounding_box'] = bounding_box
    cls = type('Poly%d' % len(_CLS), (Fittable2DModel,), ns)
    _CLS[key] = cls
    return cls


def build(case, rows_idx=None):
    """astropy model, table and keyword arguments of one case (optionally a
    sub-/re-ordered list of its rows)."""
    import astropy.units as u
    from astropy.table import QTable, Table
    names = case['names']
    cls = poly_class(names, case['has_bbox'])
    unit = getattr(u, case['unit']) if case['unit'] else None
    init = {n: v / 8 for n, v in zip(names, case['init8'])}
    if case['model_unit']:
        init[names[0]] = init[names[0]] * unit
    model = cls(**init)
    idx = list(range(len(case['rows']))) if rows_idx is None else list(rows_idx)
    tbl = QTable() if case['unit'] else Table()
    for j, cname in enumerate(case['cols']):
        col = np.array([case['rows'][i][j] / 8 for i in idx], dtype=float)
        if cname in case['unit_cols']:
            col = col * unit
        tbl[cname] = col
    if case['shape_col'] == '1d':
        tbl['model_shape'] = np.array([case['row_shapes'][i][0] for i in idx], dtype=int)
    elif case['shape_col'] == '2d':
        tbl['model_shape'] = np.array([case['row_shapes'][i] for i in idx], dtype=int).reshape(len(idx), 2)
    if case['bkg_col']:
        col = np.array([case['row_bkg8'][i] / 8 for i in idx], dtype=float)
        tbl['local_bkg'] = col * unit if case['unit'] else col
    kw = {}
    if case['x_name'] is not None:
        kw['x_name'] = case['x_name']
    if case['y_name'] is not None:
        kw['y_name'] = case['y_name']
    if case['params_map'] is not None:
        kw['params_map'] = dict(case['params_map'])
    if case['mshape'] is not None:
        kw['model_shape'] = case['mshape'] if isinstance(case['mshape'], int) else tuple(case['mshape'])
    if case['bbox_factor2'] is not None:
        f2 = case['bbox_factor2']
        kw['bbox_factor'] = f2 // 2 if f2 % 2 == 0 else f2 / 2
    kw['discretize_method'] = case['method']
    kw['discretize_oversample'] = case['factor']
    return model, tbl, kw


def snapshot(model, tbl):
    return ([float(v) for v in model.parameters],
            [str(getattr(model, n).unit) for n in model.param_names],
            list(tbl.colnames),
            [(np.array(getattr(tbl[c], 'value', tbl[c])).tolist(), str(getattr(tbl[c], 'unit', None)))
             for c in tbl.colnames],
            sorted((str(k), str(v)) for k, v in tbl.meta.items()), type(tbl).__name__)


def run_impl(case, rows_idx=None):
    """-> (result, inputs_unchanged); result = ('img', unit_name, int array (x65536), exact)
    or ('exc', type name, message)."""
    from photutils.datasets import make_model_image
    model, tbl, kw = build(case, rows_idx)
    before = snapshot(model, tbl)
    try:
        with warnings.catch_warnings():
            warnings.simplefilter('ignore')
            img = make_model_image(tuple(case['shape']), model, tbl, **kw)
    except Exception as e:  # noqa: BLE001
        return ('exc', type(e).__name__, str(e)[:160]), before == snapshot(model, tbl)
    unchanged = before == snapshot(model, tbl)
    unit = getattr(img, 'unit', None)
    arr = np.asarray(getattr(img, 'value', img), dtype=float) * SC
    ints = np.rint(arr).astype(np.int64)
    return ('img', None if unit is None else str(unit), ints, bool(np.array_equal(ints, arr))
            and arr.shape == tuple(case['shape'])), unchanged


# --------------------------------------------------------------------------
# independent oracle: the property statement in exact arithmetic
# --------------------------------------------------------------------------
def eff_names(case):
    return (case['x_name'] or 'x_0', case['y_name'] or 'y_0')


def oracle_map(case):
    xn, yn = eff_names(case)
    m = {xn: xn, yn: yn}
    for p in case['names']:
        if p in case['cols']:
            m[p] = p
    if case['params_map'] is not None:
        m.update(dict(case['params_map']))
    ok = all(k in case['names'] and v in case['cols'] for k, v in m.items())
    if case['mshape'] is None and case['shape_col'] is None and not case['has_bbox']:
        ok = False
    return m, ok


def row_geometry(case, i, m):
    """parameter values (Fractions), mod_shape and unclipped window start of row i."""
    st = {n: Fraction(v, 8) for n, v in zip(case['names'], case['init8'])}
    for k, col in m.items():
        st[k] = Fraction(case['rows'][i][case['cols'].index(col)], 8)
    names = case['names']
    if case['shape_col'] is not None:
        sh = tuple(case['row_shapes'][i])
    elif case['mshape'] is not None:
        sh = (case['mshape'],) * 2 if isinstance(case['mshape'], int) else tuple(case['mshape'])
    else:
        f = Fraction(case['bbox_factor2'], 2) if case['bbox_factor2'] is not None else Fraction(1)
        h = f * st[names[6]]
        sh = (math.ceil(2 * h), math.ceil(2 * h + 1))
    xn, yn = eff_names(case)
    lo = (math.ceil(st[yn] - Fraction(sh[0], 2)), math.ceil(st[xn] - Fraction(sh[1], 2)))
    return st, sh, lo


def point_value(st, names, X, Y):
    dx = X - st[names[1]]
    dy = Y - st[names[2]]
    return st[names[0]] * (1 + st[names[3]] * dx + st[names[4]] * dy + st[names[5]] * dx * dx)


def pixel_value(case, st, y, x):
    names = case['names']
    if case['method'] == 'center':
        offs = [Fraction(0)]
    elif case['method'] in ('interp', 'linear_interp'):
        offs = [Fraction(-1, 2), Fraction(1, 2)]
    else:
        F = case['factor']
        offs = [Fraction(2 * k + 1, 2 * F) - Fraction(1, 2) for k in range(F)]
    tot = sum(point_value(st, names, x + ox, y + oy) for oy in offs for ox in offs)
    return tot / (len(offs) ** 2)


def oracle_render(case, rows_idx=None):
    """None = the call must be rejected (ValueError); else (unit or 'any', int array,
    list of rows that contribute to at least one pixel)."""
    m, ok = oracle_map(case)
    if not ok:
        return None
    ny, nx = case['shape']
    idx = list(range(len(case['rows']))) if rows_idx is None else list(rows_idx)
    img = [[Fraction(0)] * nx for _ in range(ny)]
    hits = []
    for i in idx:
        st, sh, lo = row_geometry(case, i, m)
        bkg = Fraction(case['row_bkg8'][i], 8) if case['bkg_col'] else Fraction(0)
        hit = False
        for y in range(ny):
            if not (lo[0] <= y < lo[0] + sh[0]):
                continue
            for x in range(nx):
                if lo[1] <= x < lo[1] + sh[1]:
                    img[y][x] += pixel_value(case, st, y, x) + bkg
                    hit = True
        if hit:
            hits.append(i)
    arr = np.array([[int(v * SC) for v in r] for r in img], dtype=np.int64).reshape(ny, nx)
    assert all((v * SC).denominator == 1 for r in img for v in r)
    unit = case['unit'] if idx else 'any'
    return unit, arr, hits


def agrees(res, want):
    """implementation result vs oracle."""
    if want is None:
        return res[0] == 'exc' and res[1] == 'ValueError'
    if res[0] != 'img' or not res[3]:
        return False
    unit, arr, _ = want
    return (unit == 'any' or res[1] == unit) and np.array_equal(res[2], arr)


# --------------------------------------------------------------------------
# generator
# --------------------------------------------------------------------------
def gen_case(rng, small=False):
    ny = rng.choice([0, 1, 1, 2, 3, 4, 5, 6, 7]) if not small else rng.randint(1, 4)
    nx = rng.choice([0, 1, 2, 2, 3, 4, 5, 6, 7, 8]) if not small else rng.randint(1, 4)
    names = list(rng.choice(NAMESETS))
    kind = rng.choice(['plain', 'plain', 'alias', 'alias', 'decoy', 'xyname', 'invalid', 'unit', 'unit', 'shared',
                       'shared', 'alias-all'])
    if kind == 'unit':
        names = list(NAMESETS[0]) if rng.random() < 0.6 else names
    has_bbox = rng.random() < 0.8
    init8 = [rng.randint(-3, 3) * 8, rng.randint(-8, 64), rng.randint(-8, 64), rng.randint(-2, 2) * 8,
             rng.randint(-2, 2) * 8, rng.choice([0, 8, -8, 16, 4]), rng.choice([4, 8, 10, 12, 16, 20])]
    case = dict(shape=[ny, nx], names=names, init8=init8, has_bbox=has_bbox, kind=kind,
                x_name=None, y_name=None, params_map=None, mshape=None, bbox_factor2=None,
                shape_col=None, rows=[], row_shapes=[], bkg_col=False, row_bkg8=[], unit=None, unit_cols=[],
                model_unit=False)
    case['method'] = rng.choice(['center', 'center', 'interp', 'oversample', 'oversample'])
    case['factor'] = rng.choice([2, 4]) if case['method'] == 'oversample' else rng.choice([1, 2, 4, 10])
    # which parameters are table columns, and under which name
    present = [names[1], names[2]] + [p for p in (names[0], names[3], names[4], names[5], names[6])
                                       if rng.random() < 0.7]
    unit_model_only = False
    if kind == 'unit':
        case['unit'] = rng.choice(['Jy', 'ct'])
        if rng.random() < 0.3:
            unit_model_only = True
            case['model_unit'] = True
            present = [p for p in present if p != names[0]]
        elif names[0] not in present:
            present.append(names[0])
    if kind == 'alias-all' and names[6] not in present:
        present.append(names[6])
    colname = {p: p for p in present}
    pm = {}
    if kind == 'alias-all':
        # NO column other than (possibly) the positions carries the name of a model parameter: every other
        # parameter, incl. the one that sizes the bounding box, comes in through params_map
        for p in present:
            if p not in (names[1], names[2]) or rng.random() < 0.3:
                colname[p] = rng.choice(['col_', 'my_', 'X']) + p
                pm[p] = colname[p]
    if kind in ('alias', 'decoy', 'unit', 'invalid'):
        for p in present:
            if rng.random() < (0.5 if kind != 'unit' else 0.25):
                colname[p] = rng.choice(['col_', 'my_', 'X']) + p
                pm[p] = colname[p]
    if kind == 'shared':
        # NON-injective maps: several parameters take their value from ONE column (a fresh column, or the
        # column that carries the name of one of them), incl. the two position parameters
        for p in (names[3], names[4]):
            if p not in present:
                present.append(p)
                colname[p] = p
        groups = [(names[3], names[4]), (names[1], names[2]), (names[0], names[5])]
        groups = [g for g in groups if g[0] in present and g[1] in present]
        picked = [g for g in groups if rng.random() < 0.5] or [groups[0]]
        for g in picked:
            a, b = g if rng.random() < 0.5 else g[::-1]
            col = a if rng.random() < 0.4 else 'sh_' + a
            colname[a] = colname[b] = col
            pm[b] = col
            if col != a:
                pm[a] = col
        # some of the other parameters under an alias as well
        for p in present:
            if colname[p] == p and p not in pm.values() and rng.random() < 0.25:
                colname[p] = 'col_' + p
                pm[p] = colname[p]
    if names[1] != 'x_0' or kind == 'xyname' or rng.random() < 0.3:
        case['x_name'] = names[1]
        case['y_name'] = names[2]
    cols = list(dict.fromkeys(colname[p] for p in present))
    decoys = []
    if kind == 'decoy':
        # a column that matches the parameter name although params_map points elsewhere
        decoys = [p for p in present if colname[p] != p and rng.random() < 0.8]
    extra = [c for c in ('id', 'junk') if rng.random() < 0.3]
    cols = cols + decoys + extra
    order = list(range(len(cols)))
    rng.shuffle(order)
    cols = [cols[k] for k in order]
    case['cols'] = cols
    if pm:
        items = list(pm.items())
        rng.shuffle(items)
        case['params_map'] = [list(kv) for kv in items]
    elif rng.random() < 0.1:
        case['params_map'] = []
    # shapes
    smode = rng.choice(['arg', 'arg', 'argint', 'col1d', 'col2d', 'bbox', 'bbox', 'bboxf'])
    if kind == 'alias-all':
        smode = rng.choice(['bbox', 'bbox', 'bboxf'])       # window from the (per-row) bounding box
    if smode == 'arg':
        case['mshape'] = [rng.randint(1, 6), rng.randint(1, 6)]
    elif smode == 'argint':
        case['mshape'] = rng.randint(1, 6)
    elif smode in ('col1d', 'col2d'):
        case['shape_col'] = smode[3:]
        if rng.random() < 0.3:
            case['mshape'] = [rng.randint(1, 6), rng.randint(1, 6)]      # overridden by the column
    elif smode == 'bboxf':
        case['bbox_factor2'] = rng.choice([2, 3, 4, 1])
    if smode in ('bbox', 'bboxf') and not has_bbox and kind != 'invalid':
        case['has_bbox'] = has_bbox = True
    if names[6] not in present and smode in ('bbox', 'bboxf'):
        pass                                    # bounding box from the model's own r
    case['bkg_col'] = rng.random() < 0.5
    if case['unit'] and not case['model_unit']:
        case['unit_cols'] = [colname[names[0]]] + ([names[0]] if names[0] in decoys else [])
    # rows
    n = rng.choice([0, 1, 1, 2, 2, 3, 3, 4, 5, 6, 8]) if not small else rng.randint(0, 4)
    m_eff = {p: colname[p] for p in present}
    for _ in range(n):
        vals = {names[0]: rng.randint(-6, 8) * rng.choice([8, 8, 4, 1]),
                names[3]: rng.randint(-3, 3) * rng.choice([8, 8, 4]),
                names[4]: rng.randint(-3, 3) * rng.choice([8, 8, 4]),
                names[5]: rng.choice([0, 0, 8, -8, 16, 4, -12, 1]),
                names[6]: rng.choice([0, 2, 4, 6, 8, 10, 12, 16, 20, 24])}
        if case['shape_col'] == '1d':
            s = rng.choice([0, 1, 1, 2, 3, 4, 5, 6])
            sh = [s, s]
        elif case['shape_col'] == '2d':
            sh = [rng.choice([0, 1, 2, 3, 4, 5]), rng.choice([0, 1, 2, 3, 4, 5, 6])]
        elif case['mshape'] is not None:
            sh = [case['mshape']] * 2 if isinstance(case['mshape'], int) else list(case['mshape'])
        else:
            r8 = vals[names[6]] if names[6] in present else init8[6]
            f2 = case['bbox_factor2'] if case['bbox_factor2'] is not None else 2
            sh = [-((-f2 * r8) // 8), -((-(f2 * r8 + 8)) // 8)]
        case['row_shapes'].append(sh if case['shape_col'] else [1, 1])
        pos = []
        for size, s in zip((ny, nx), sh):
            where = rng.choice(['in'] * 11 + ['lowtouch', 'low1', 'low1', 'hightouch', 'high1', 'high1', 'off',
                                'any', 'any'])
            if where == 'in':
                emin = rng.randint(-(s // 2), max(-(s // 2), size - 1 - s // 2))
            elif where == 'lowtouch':
                emin = -s                  # window ends exactly at pixel 0 (exclusive)
            elif where == 'low1':
                emin = -s + 1              # exactly one row/column on the image
            elif where == 'hightouch':
                emin = size                # window starts exactly past the last pixel
            elif where == 'high1':
                emin = size - 1
            elif where == 'off':
                emin = rng.choice([-s - rng.randint(1, 3), size + rng.randint(1, 3)])
            else:
                emin = rng.randint(-s - 2, size + 2)
            delta8 = rng.choice([0, 0, 0, -1, -2, -4, -4, -6, -7])
            pos.append(8 * emin + 4 * s + delta8)          # ceil(pos - s/2) == emin
        vals[names[2]], vals[names[1]] = pos
        rowv = []
        for cname in cols:
            src = [p for p in present if colname[p] == cname]
            if src:
                rowv.append(vals[src[0]])
            elif cname in decoys:
                rowv.append(vals[cname] + rng.choice([8, -8, 16, 24]))
            else:
                rowv.append(rng.randint(0, 40))
        case['rows'].append(rowv)
        case['row_bkg8'].append(rng.choice([0, 0, 8, -8, 4, 1, 20, -3]) if case['bkg_col'] else 0)
    if kind == 'invalid':
        bad = rng.choice(['key', 'value', 'xcol', 'noshape'])
        case['kind'] = 'invalid:' + bad
        pmap = dict(case['params_map'] or [])
        if bad == 'key':
            pmap['bogus'] = cols[0]
            case['params_map'] = [list(kv) for kv in pmap.items()]
        elif bad == 'value':
            pmap[names[rng.choice([0, 3, 5])]] = 'nocol'
            case['params_map'] = [list(kv) for kv in pmap.items()]
        elif bad == 'xcol':
            case['x_name'], case['y_name'] = names[4] + '_not', names[2]
        else:
            case['has_bbox'] = False
            case['mshape'] = None
            case['shape_col'] = None
            case['bbox_factor2'] = None
    return case


def to_coq(case, res):
    ny, nx = case['shape']
    xn, yn = eff_names(case)
    ms = case['mshape']
    ms = None if ms is None else Some((ms, ms) if isinstance(ms, int) else tuple(ms))
    rows = [(list(r), tuple(s), b * (SC // 8))
            for r, s, b in zip(case['rows'], case['row_shapes'], case['row_bkg8'])]
    if res[0] == 'img':
        exp = Some((None if res[1] is None else Some(UNIT_ID.get(res[1], 99)),
                    [[int(v) for v in r] for r in res[2]]))
    else:
        exp = None
    mode = {'center': 0, 'interp': 1, 'linear_interp': 1}.get(case['method'], case['factor'])
    pm = None if case['params_map'] is None else Some([tuple(kv) for kv in case['params_map']])
    bf = None if case['bbox_factor2'] is None else Some(case['bbox_factor2'])
    unit = None if case['unit'] is None else Some(UNIT_ID[case['unit']])
    return coq(((ny, nx), mode, (list(zip(case['names'], case['init8'])), case['has_bbox']),
                (xn, yn, pm), (ms, bf),
                (list(case['cols']), case['shape_col'] is not None, case['bkg_col'], rows), unit, exp))


def res_json(res):
    if res[0] == 'img':
        return {'unit': res[1], 'image_x65536': res[2].tolist(), 'exact': res[3]}
    return {'exception': res[1], 'message': res[2]}


# --------------------------------------------------------------------------
# clauses checked directly on the implementation (no model needed)
# --------------------------------------------------------------------------
def metamorphic(ctx, case, res, want, thorough):
    n = len(case['rows'])
    rng = ctx.rng
    if res[0] != 'img' or want is None:
        return
    hits = want[2]
    # row order
    perms = []
    if n >= 2:
        if n <= 4:
            perms = [p for p in itertools.permutations(range(n))][1:]
        else:
            for _ in range(2):
                p = list(range(n))
                rng.shuffle(p)
                perms.append(p)
            perms.append(list(range(n))[::-1])
    for p in perms:
        r2, _ = run_impl(case, p)
        ctx.stat('metamorphic', 'row_order')
        same = r2[0] == 'img' and r2[1] == res[1] and np.array_equal(r2[2], res[2])
        if not same:
            sig = 'make_model_image:row-order' + (':units' if case['unit'] else '')
            ctx.violation(sig, 'image depends on the order of the table rows',
                          {'case': case, 'order': list(p), 'impl': res_json(res), 'impl_reordered': res_json(r2)})
            break
    # additivity over concatenation
    if n >= 1:
        k = rng.randint(0, n)
        a, _ = run_impl(case, range(0, k))
        b, _ = run_impl(case, range(k, n))
        ctx.stat('metamorphic', 'concat')
        ok = a[0] == 'img' and b[0] == 'img' and np.array_equal(a[2] + b[2], res[2])
        if ok and case['unit'] and 0 < k < n:
            ok = a[1] == b[1] == res[1]
        if not ok:
            sig = 'make_model_image:concat' + (':units' if case['unit'] else '')
            ctx.violation(sig, 'image of a concatenated table differs from the sum of the images of its parts',
                          {'case': case, 'split': k, 'impl': res_json(res), 'first': res_json(a), 'second': res_json(b)})
    # rows that do not overlap are skipped
    if 0 < len(hits) < n:
        r3, _ = run_impl(case, hits)
        ctx.stat('metamorphic', 'drop_offimage_rows')
        if not (r3[0] == 'img' and r3[1] == res[1] and np.array_equal(r3[2], res[2])):
            sig = 'make_model_image:offimage-rows' + (':units' if case['unit'] else '')
            ctx.violation(sig, 'removing the rows that do not overlap the image changes the result',
                          {'case': case, 'kept_rows': hits, 'impl': res_json(res), 'impl_kept': res_json(r3)})


def shifted_case(case, dy, dx, pad):
    """the same table with every source moved by (dy, dx) whole pixels, in a frame enlarged
    by (dy + pad[0], dx + pad[1]); None if the positions are not table columns."""
    m, ok = oracle_map(case)
    xn, yn = eff_names(case)
    if not ok or xn not in m or yn not in m or m[xn] == m[yn]:
        return None
    jx, jy = case['cols'].index(m[xn]), case['cols'].index(m[yn])
    c2 = dict(case)
    c2['shape'] = [case['shape'][0] + dy + pad[0], case['shape'][1] + dx + pad[1]]
    rows = []
    for r in case['rows']:
        r = list(r)
        r[jx] += 8 * dx
        r[jy] += 8 * dy
        rows.append(r)
    c2['rows'] = rows
    return c2


def shift_check(ctx, case, res):
    """render_shift: pixel (y + dy, x + dx) of the shifted rendering == pixel (y, x)."""
    rng = ctx.rng
    if res[0] != 'img' or not case['rows']:
        return
    # a mapped column that feeds both a position and another parameter would not be a pure shift
    m, _ = oracle_map(case)
    xn, yn = eff_names(case)
    if sum(1 for v in m.values() if v in (m.get(xn), m.get(yn))) != 2:
        return
    dy, dx = rng.randint(0, 3), rng.randint(0, 3)
    pad = (rng.randint(0, 2), rng.randint(0, 2))
    c2 = shifted_case(case, dy, dx, pad)
    if c2 is None:
        return
    r2, _ = run_impl(c2)
    ctx.stat('metamorphic', 'shift')
    ny, nx = case['shape']
    ok = r2[0] == 'img' and r2[1] == res[1] and \
        np.array_equal(r2[2][dy:dy + ny, dx:dx + nx], res[2])
    if not ok:
        if r2[0] == 'exc':                                   # the shifted call itself is at fault
            w2 = oracle_render(c2)
            ctx.violation(signature(c2, r2, w2), 'make_model_image raised on a valid table',
                          {'case': c2, 'impl': res_json(r2),
                           'expected': None if w2 is None else {'unit': w2[0], 'image_x65536': w2[1].tolist()}})
            return
        if r2[1] != res[1]:
            sig = 'make_model_image:shift:units'
        else:
            sig = 'make_model_image:shift'
        ctx.violation(sig, 'moving every source by whole pixels does not move the '
                      'rendered pixels with them', {'case': case, 'shift': [dy, dx], 'pad': list(pad),
                                                    'impl': res_json(res), 'impl_shifted': res_json(r2)})


def signature(case, res, want):
    """stable name of the failing input class for a property violation."""
    if want is not None and res[0] == 'exc':
        m, _ = oracle_map(case)
        first_off = bool(case['rows']) and 0 not in want[2]
        touch = False
        for i in range(len(case['rows'])):
            _, sh, lo = row_geometry(case, i, m)
            touch |= (lo[0] + sh[0] == 0 or lo[1] + sh[1] == 0)
        if res[1] == 'UnitTypeError' and first_off:
            return 'make_model_image:units:first-row-offimage'
        if res[1] == 'ValueError' and 'ambiguous' in res[2] and touch:
            return 'make_model_image:window-ends-at-lower-edge'
        return 'make_model_image:raises:' + res[1]
    if want is not None and res[0] == 'img' and want[0] != 'any' and res[1] != want[0] \
            and np.array_equal(res[2], want[1]):
        return 'make_model_image:units:depend-on-overlap'
    if want is None:
        return 'make_model_image:invalid-arguments-accepted'
    return 'make_model_image:superposition'


# --------------------------------------------------------------------------
# support tests (library numerics; not part of the proved model)
# --------------------------------------------------------------------------
def float_oracle(shape, model, tbl, xn, yn, model_shape, method='center', factor=10, pmap=None):
    """superposition by definition, in floats; returns (image, sum of |terms|)."""
    from astropy.convolution import discretize_model
    ny, nx = shape
    img = np.zeros(shape)
    mag = np.zeros(shape)
    for row in tbl:
        m = model.copy()
        for p in m.param_names:
            col = (pmap or {}).get(p, p)               # params_map wins over a column named like the parameter
            if col in tbl.colnames:
                setattr(m, p, row[col])
        x0 = float(getattr(m, xn).value)
        y0 = float(getattr(m, yn).value)
        sh = model_shape(m) if callable(model_shape) else model_shape
        lo = (math.ceil(Fraction(y0) - Fraction(sh[0], 2)), math.ceil(Fraction(x0) - Fraction(sh[1], 2)))
        ys = [y for y in range(ny) if lo[0] <= y < lo[0] + sh[0]]
        xs = [x for x in range(nx) if lo[1] <= x < lo[1] + sh[1]]
        if not ys or not xs:
            continue
        if method == 'center':
            yy, xx = np.meshgrid(ys, xs, indexing='ij')
            sub = m(xx.astype(float), yy.astype(float))
        else:
            sub = discretize_model(m, (xs[0], xs[-1] + 1), (ys[0], ys[-1] + 1),
                                   mode='linear_interp' if method == 'interp' else method, factor=factor)
        sub = np.asarray(getattr(sub, 'value', sub), float)
        bkg = float(getattr(row['local_bkg'], 'value', row['local_bkg'])) if 'local_bkg' in tbl.colnames else 0.0
        img[ys[0]:ys[-1] + 1, xs[0]:xs[-1] + 1] += sub + bkg
        mag[ys[0]:ys[-1] + 1, xs[0]:xs[-1] + 1] += np.abs(sub) + abs(bkg)
    return img, mag


def close(a, b, mag, nterms):
    tol = 8 * (nterms + 2) * 2.0 ** -52 * mag + 1e-300
    return a.shape == b.shape and bool(np.all(np.abs(a - b) <= tol))


def bbox_shape_oracle(m, factor=None):
    """window (ny, nx) that make_model_image must use for model m when no model_shape is given:
    the extent of the model's bounding box along y and along x (looked up BY INPUT NAME), rounded up;
    scaled by the factor when (and only when) the model's bounding_box accepts one."""
    bb = m.bounding_box
    ni = bb.named_intervals
    (xlo, xhi), (ylo, yhi) = (ni['x'].lower, ni['x'].upper), (ni['y'].lower, ni['y'].upper)
    if factor is not None:
        try:
            raw = m.bounding_box(factor=factor)
        except NotImplementedError:
            raw = None                                  # fixed bounding box: the factor is ignored
        if raw is not None:
            # astropy's Gaussian2D: half-widths proportional to the factor (default 5.5)
            cy, cx, hy, hx = (ylo + yhi) / 2, (xlo + xhi) / 2, (yhi - ylo) / 2, (xhi - xlo) / 2
            k = factor / 5.5
            (ylo, yhi), (xlo, xhi) = (cy - k * hy, cy + k * hy), (cx - k * hx, cx + k * hx)
            assert abs((raw[0][1] - raw[0][0]) - (yhi - ylo)) < 1e-9 * max(1, abs(yhi - ylo)), 'bbox oracle'
            assert abs((raw[1][1] - raw[1][0]) - (xhi - xlo)) < 1e-9 * max(1, abs(xhi - xlo)), 'bbox oracle'
    return (int(math.ceil(yhi - ylo)), int(math.ceil(xhi - xlo)))


def _support_model(which):
    if which in ('gauss-rot', 'gpsf-rot', 'gprf-aniso', 'image-nonsq', 'compound-bbox', 'cprf', 'moffat'):
        from astropy.modeling.models import Const2D, Gaussian2D
        from photutils.psf import CircularGaussianPRF, GaussianPRF, GaussianPSF, ImagePSF, MoffatPSF
        if which == 'gauss-rot':        # accepts a factor; rotated, non-square box
            return Gaussian2D(1, 0, 0, 0.9, 0.4, 0.5), 'x_mean', 'y_mean', 'amplitude'
        if which == 'gpsf-rot':         # fixed box, non-square, rotated
            return GaussianPSF(x_fwhm=0.8, y_fwhm=1.7, theta=30.0), 'x_0', 'y_0', 'flux'
        if which == 'gprf-aniso':       # fixed box, non-square
            return GaussianPRF(x_fwhm=1.9, y_fwhm=0.7, theta=0.0), 'x_0', 'y_0', 'flux'
        if which == 'image-nonsq':      # fixed box from a non-square array
            yy, xx = np.mgrid[-2:3, -4:5]
            kern = np.exp(-(xx ** 2 / 6.0 + yy ** 2 / 2.0))
            return ImagePSF(kern / kern.sum()), 'x_0', 'y_0', 'flux'
        if which == 'cprf':
            return CircularGaussianPRF(fwhm=1.1), 'x_0', 'y_0', 'flux'
        if which == 'moffat':
            return MoffatPSF(alpha=0.6, beta=4.5), 'x_0', 'y_0', 'flux'
        m = Gaussian2D(1, 0, 0, 1.1, 1.7, 0.0) + Const2D(0.25)       # user-set fixed box, non-square
        m.bounding_box = ((-2.2, 2.5), (-3.6, 3.1))
        return m, 'x_mean_0', 'y_mean_0', 'amplitude_0'
    from astropy.modeling.models import Const2D, Gaussian2D
    from photutils.psf import CircularGaussianPRF, ImagePSF
    if which.startswith('gauss'):
        return Gaussian2D(1, 0, 0, 1.3, 0.8, 0.3), 'x_mean', 'y_mean', 'amplitude'
    if which.startswith('prf'):
        return CircularGaussianPRF(fwhm=2.1), 'x_0', 'y_0', 'flux'
    if which == 'image':
        yy, xx = np.mgrid[-4:5, -4:5]
        kern = np.exp(-(xx ** 2 + yy ** 2) / 5.0)
        kern /= kern.sum()
        return ImagePSF(kern), 'x_0', 'y_0', 'flux'
    return Gaussian2D(1, 0, 0, 1.1, 1.7, 0.0) + Const2D(0.25), 'x_mean_0', 'y_mean_0', 'amplitude_0'


def support_one(detail):
    """run one support case (general doubles, library models) from its description;
    returns the list of (signature, what) that fail."""
    import astropy.units as u
    from astropy.table import QTable, Table
    from photutils.datasets import make_model_image
    which, method, factor = detail['model'], detail['method'], detail['factor']
    (ny, nx) = detail['shape']
    bbox_window = detail.get('window') == 'bbox'
    bf = detail.get('bbox_factor')
    sh = (lambda m: bbox_shape_oracle(m, bf)) if bbox_window else tuple(detail['model_shape'])
    model, xn, yn, fl = _support_model(which)
    ref_model = _support_model(which)[0]                 # never handed to the code under test
    unit = u.Jy if which.endswith('unit') else None
    nrow = len(detail['x'])

    def table(order):
        tbl = QTable() if unit is not None else Table()
        tbl[xn] = np.array([detail['x'][i] for i in order])
        tbl[yn] = np.array([detail['y'][i] for i in order])
        fls = np.array([detail['flux'][i] for i in order])
        tbl[fl] = fls * unit if unit is not None else fls
        for pname, vals in (detail.get('extra') or {}).items():
            tbl[pname] = np.array([vals[i] for i in order])
        if detail['local_bkg'] is not None:
            bk = np.array([detail['local_bkg'][i] for i in order])
            tbl['local_bkg'] = bk * unit if unit is not None else bk
        return tbl

    def snap(mod, tbl):
        return (repr(mod.parameters.tolist()), [str(getattr(mod, pn).unit) for pn in mod.param_names],
                repr([np.asarray(getattr(tbl[cn], 'value', tbl[cn])).tolist() for cn in tbl.colnames]),
                [str(getattr(tbl[cn], 'unit', None)) for cn in tbl.colnames])

    fails = []
    tbl = table(range(nrow))
    before = snap(model, tbl)
    kw = dict(x_name=xn, y_name=yn, discretize_method=method, discretize_oversample=factor)
    if bbox_window:
        kw['bbox_factor'] = bf
    else:
        kw['model_shape'] = sh
    try:
        with warnings.catch_warnings():
            warnings.simplefilter('ignore')
            got = make_model_image((ny, nx), model, tbl, **kw)
    except Exception as e:  # noqa: BLE001
        return [('support:make_model_image:raises:' + type(e).__name__,
                 'make_model_image raised on a valid table: ' + str(e)[:120])]
    if snap(model, tbl) != before:
        return [('support:make_model_image:inputs-modified', 'input model or table modified')]
    want, mag = float_oracle((ny, nx), ref_model, table(range(nrow)), xn, yn, sh, method, factor)
    gunit = getattr(got, 'unit', None)
    garr = np.asarray(getattr(got, 'value', got), float)
    if gunit != unit:
        fails.append(('support:make_model_image:units', f'image unit {gunit} != model unit {unit}'))
    scale = 1e6 if method == 'integrate' else 1.0           # dblquad: absolute tolerances of the integrator
    if not close(garr, want, mag * scale, nrow):
        fails.append(('support:make_model_image:superposition:' + which,
                      'image differs from the sum of the per-row windows beyond the rounding bound'))
    # row order to rounding
    try:
        with warnings.catch_warnings():
            warnings.simplefilter('ignore')
            g2 = make_model_image((ny, nx), model, table(detail['perm']), **kw)
    except Exception as e:  # noqa: BLE001
        fails.append(('support:make_model_image:row-order:raises:' + type(e).__name__,
                      'make_model_image raised on a re-ordered table: ' + str(e)[:120]))
        return fails
    if not close(np.asarray(getattr(g2, 'value', g2), float), garr, mag * scale, nrow) \
            or getattr(g2, 'unit', None) != gunit:
        fails.append(('support:make_model_image:row-order:' + which, 'image depends on row order'))
    return fails


def support_models(ctx, n):
    rng = ctx.rng
    for it in range(n):
        which = rng.choice(['gauss', 'prf', 'image', 'compound', 'gauss-unit', 'prf-unit'])
        ny, nx = rng.randint(3, 12), rng.randint(3, 12)
        nrow = rng.randint(1, 6)
        sh = (rng.randint(1, 7), rng.randint(1, 7))
        xs = [rng.uniform(-sh[1], nx + sh[1]) for _ in range(nrow)]
        ys = [rng.uniform(-sh[0], ny + sh[0]) for _ in range(nrow)]
        if rng.random() < 0.5:
            xs[0] = -50.0                                 # first row far off the image
        fls = [rng.uniform(0.5, 50) for _ in range(nrow)]
        bk = [rng.uniform(-1, 1) for _ in range(nrow)]
        has_bkg = rng.random() < 0.5
        method = rng.choice(['center', 'center', 'interp', 'oversample', 'integrate'])
        if which.endswith('unit') and method == 'integrate':
            method = 'oversample'        # astropy's dblquad discretisation cannot handle Quantities
        if which in ('image',) and method == 'integrate':
            method = 'interp'
        factor = rng.choice([3, 10])
        p = list(range(nrow))
        rng.shuffle(p)
        detail = {'support': 'models', 'model': which, 'shape': [ny, nx], 'model_shape': list(sh), 'x': xs, 'y': ys,
                  'flux': fls, 'local_bkg': bk if has_bkg else None, 'method': method,
                  'factor': factor, 'perm': p}
        ctx.support(f'support:{which}:{method}')
        ctx.count_case(['support', which, method, ny, nx, xs, ys], True)
        for sig, what in support_one(detail):
            ctx.violation(sig, what, detail)


WINDOW_MODELS = {   # kind -> per-row shape parameters that may vary from row to row
    'gauss-rot': {'x_stddev': (0.4, 1.2), 'y_stddev': (0.3, 0.9)},
    'gpsf-rot': {'x_fwhm': (0.6, 1.6), 'y_fwhm': (0.6, 2.2)},
    'gprf-aniso': {'x_fwhm': (0.6, 2.2), 'y_fwhm': (0.6, 1.4)},
    'image-nonsq': {}, 'compound-bbox': {}, 'cprf': {'fwhm': (0.8, 2.0)}, 'moffat': {'alpha': (0.4, 0.9)},
}


def support_windows(ctx, n):
    """window-source axis: no model_shape at all, the window comes from the model's bounding box (per row,
    from the row's parameters) for bbox_factor in {None, several}; models with square / non-square,
    factor-accepting / fixed, analytic / image / user-set boxes."""
    rng = ctx.rng
    kinds = sorted(WINDOW_MODELS)
    for it in range(n):
        which = kinds[it % len(kinds)]
        ny, nx = rng.randint(4, 14), rng.randint(4, 14)
        nrow = rng.randint(1, 5)
        xs = [rng.uniform(-2, nx + 2) for _ in range(nrow)]
        ys = [rng.uniform(-2, ny + 2) for _ in range(nrow)]
        if rng.random() < 0.3:
            xs[0] = -60.0
        extra = {}
        for pname, (lo, hi) in WINDOW_MODELS[which].items():
            if rng.random() < 0.7:
                extra[pname] = [rng.uniform(lo, hi) for _ in range(nrow)]
        p = list(range(nrow))
        rng.shuffle(p)
        bf = [None, 1.0, 2.0, 3.5, 5.5, 7][(it // len(kinds) + it) % 6]
        detail = {'support': 'models', 'model': which, 'shape': [ny, nx], 'window': 'bbox', 'bbox_factor': bf,
                  'x': xs, 'y': ys, 'flux': [rng.uniform(0.5, 50) for _ in range(nrow)], 'extra': extra,
                  'local_bkg': [rng.uniform(-1, 1) for _ in range(nrow)] if rng.random() < 0.5 else None,
                  'method': rng.choice(['center', 'center', 'oversample']), 'factor': 3, 'perm': p}
        ctx.support(f'support:window-bbox:{which}:factor={bf}')
        ctx.count_case(['support-window', which, bf, ny, nx, xs, ys], True)
        for sig, what in support_one(detail):
            ctx.violation(sig.replace('support:make_model_image:', 'support:make_model_image:bbox-window:'), what,
                          detail)


def _map_model(which):
    """-> model, x_name, y_name, params_map, {column: (lo, hi) or 'x' / 'y'} for the params_map forms."""
    from astropy.modeling.models import Gaussian2D
    from photutils.psf import CircularGaussianPRF, GaussianPRF
    if which == 'gauss-circ':            # two parameters <- one column
        return (Gaussian2D(1, 0, 0, 1.3, 0.8, 0.0), 'x_mean', 'y_mean',
                {'x_stddev': 'sigma', 'y_stddev': 'sigma'},
                {'x_mean': 'x', 'y_mean': 'y', 'amplitude': (0.5, 50), 'sigma': (0.5, 1.8), 'junk': (0, 9)})
    if which == 'core-halo':             # compound model: both components share the position columns
        m = Gaussian2D(1, 3.0, 4.0, 0.7, 0.7, 0.0) + Gaussian2D(0.1, -2.0, 1.0, 2.1, 1.6, 0.4)
        return (m, 'x_mean_0', 'y_mean_0',
                {'x_mean_0': 'x', 'x_mean_1': 'x', 'y_mean_0': 'y', 'y_mean_1': 'y', 'amplitude_0': 'core',
                 'amplitude_1': 'halo'},
                {'x': 'x', 'y': 'y', 'core': (1, 50), 'halo': (0.05, 2), 'x_stddev_0': (0.4, 1.0)})
    if which == 'core-halo-samecol':     # shared column that carries the name of one of the parameters
        m = Gaussian2D(1, 3.0, 4.0, 0.7, 0.7, 0.0) + Gaussian2D(0.1, -2.0, 1.0, 2.1, 1.6, 0.4)
        return (m, 'x_mean_1', 'y_mean_1',
                {'x_mean_0': 'x_mean_1', 'y_mean_0': 'y_mean_1', 'amplitude_1': 'amplitude_0'},
                {'x_mean_1': 'x', 'y_mean_1': 'y', 'amplitude_0': (1, 50)})
    if which == 'prf-renamed':           # every column renamed; partial map: fwhm keeps the model value
        return (CircularGaussianPRF(fwhm=1.7), 'x_0', 'y_0', {'x_0': 'xc', 'y_0': 'yc', 'flux': 'f'},
                {'xc': 'x', 'yc': 'y', 'f': (1, 50), 'x_0': (100, 200), 'y_0': (100, 200)})
    # anisotropic PRF made round through one width column + a renamed position
    return (GaussianPRF(x_fwhm=1.0, y_fwhm=2.5), 'x_0', 'y_0', {'x_fwhm': 'w', 'y_fwhm': 'w', 'x_0': 'col'},
            {'col': 'x', 'y_0': 'y', 'flux': (1, 50), 'w': (0.8, 2.2), 'id': (1, 9)})


MAP_MODELS = ['gauss-circ', 'core-halo', 'core-halo-samecol', 'prf-renamed', 'prf-round']


def support_map_one(detail):
    """params_map forms on library models: the image must be the superposition in which every model
    parameter is set from ITS mapped column (params_map, else the column named like the parameter, else
    the input model's own value)."""
    from astropy.table import Table
    from photutils.datasets import make_model_image
    which = detail['model']
    model, xn, yn, pmap, _ = _map_model(which)
    ref = _map_model(which)[0]
    (ny, nx), sh = detail['shape'], tuple(detail['model_shape'])

    def table(order):
        return Table({c: np.array([v[i] for i in order]) for c, v in detail['columns'].items()})
    n = len(next(iter(detail['columns'].values())))
    kw = dict(model_shape=sh, x_name=xn, y_name=yn, params_map=dict(pmap), discretize_method=detail['method'],
              discretize_oversample=3)
    try:
        with warnings.catch_warnings():
            warnings.simplefilter('ignore')
            got = make_model_image((ny, nx), model, table(range(n)), **kw)
            g2 = make_model_image((ny, nx), model, table(detail['perm']), **kw)
    except Exception as e:  # noqa: BLE001
        return [('support:make_model_image:params-map:raises:' + type(e).__name__,
                 'make_model_image raised on a valid table / params_map: ' + str(e)[:120])]
    fails = []
    if repr(model.parameters.tolist()) != repr(ref.parameters.tolist()):
        fails.append(('support:make_model_image:inputs-modified', 'input model modified'))
    want, mag = float_oracle((ny, nx), ref, table(range(n)), xn, yn, sh, detail['method'], 3, pmap=pmap)
    if not close(np.asarray(got, float), want, mag, n):
        fails.append(('support:make_model_image:params-map:superposition:' + which,
                      'image differs from the superposition with every parameter set from its mapped column'))
    if not close(np.asarray(g2, float), np.asarray(got, float), mag, n):
        fails.append(('support:make_model_image:params-map:row-order:' + which, 'image depends on row order'))
    return fails


def support_maps(ctx, n):
    rng = ctx.rng
    for it in range(n):
        which = MAP_MODELS[it % len(MAP_MODELS)]
        spec = _map_model(which)[4]
        ny, nx = rng.randint(5, 14), rng.randint(5, 14)
        nrow = rng.randint(1, 5)
        sh = (rng.randint(2, 7), rng.randint(2, 7))
        cols = {}
        for c, rngspec in spec.items():
            if rngspec == 'x':
                cols[c] = [rng.uniform(-1, nx + 1) for _ in range(nrow)]
            elif rngspec == 'y':
                cols[c] = [rng.uniform(-1, ny + 1) for _ in range(nrow)]
            else:
                cols[c] = [rng.uniform(*rngspec) for _ in range(nrow)]
        p = list(range(nrow))
        rng.shuffle(p)
        detail = {'support': 'maps', 'model': which, 'shape': [ny, nx], 'model_shape': list(sh), 'columns': cols,
                  'method': rng.choice(['center', 'center', 'oversample']), 'perm': p}
        ctx.support(f'support:params-map:{which}')
        ctx.count_case(['support-map', which, ny, nx, cols], True)
        for sig, what in support_map_one(detail):
            ctx.violation(sig, what, detail)


def residual_callforms(phot, data, use_unit, psf_shape, inc, mimg):
    """make_residual_image over the call-form axis: the same image handed over as ndarray / Quantity,
    NDData (with the unit if any) and NDData with uncertainty + mask.  Every form must give
    data - make_model_image(shape, psf_shape, include_localbkg) bitwise (NDData: in .data, unit, mask and
    uncertainty carried over, input object untouched).  Returns (signature, what) or None."""
    import astropy.units as u
    from astropy.nddata import NDData, StdDevUncertainty
    unit = u.Jy if use_unit else None
    want = data - np.asarray(getattr(mimg, 'value', mimg), float)            # np.subtract(data, model)
    if getattr(mimg, 'unit', None) != unit:
        return ('support:psfphot:units', f'model image unit {getattr(mimg, "unit", None)} != data unit {unit}')
    mask = np.zeros(data.shape, bool)
    mask[0, 0] = mask[-1, -2] = True
    err = np.full(data.shape, 0.25)
    forms = [('quantity' if use_unit else 'ndarray', data * unit if use_unit else data.copy()),
             ('nddata', NDData(data.copy(), unit=unit)),
             ('nddata+uncertainty+mask', NDData(data.copy(), unit=unit, uncertainty=StdDevUncertainty(err.copy()),
                                               mask=mask.copy()))]
    for name, obj in forms:
        try:
            r = phot.make_residual_image(obj, psf_shape=psf_shape, include_localbkg=inc)
        except Exception as e:  # noqa: BLE001
            return ('support:psfphot:residual-callform:raises:' + type(e).__name__,
                    f'make_residual_image raised for {name} input: ' + str(e)[:100])
        if isinstance(obj, NDData):
            if not isinstance(r, NDData) or r.unit != unit:
                return ('support:psfphot:residual-callform:' + name, 'NDData input did not give an NDData residual '
                        'with the same unit')
            vals = np.asarray(r.data, float)
            if not np.array_equal(obj.data, data) or (obj.mask is not None and not np.array_equal(obj.mask, mask)):
                return ('support:psfphot:residual-callform:input-modified', f'{name} input modified')
            if obj.mask is not None and (r.mask is None or not np.array_equal(r.mask, mask)
                                         or r.uncertainty is None
                                         or not np.array_equal(r.uncertainty.array, err)):
                return ('support:psfphot:residual-callform:' + name, 'mask / uncertainty of the NDData input not '
                        'carried over to the residual')
        else:
            if getattr(r, 'unit', None) != unit:
                return ('support:psfphot:residual-callform:' + name, 'residual unit differs from the data unit')
            vals = np.asarray(getattr(r, 'value', r), float)
            if not np.array_equal(np.asarray(getattr(obj, 'value', obj)), data):
                return ('support:psfphot:residual-callform:input-modified', f'{name} input modified')
        if vals.shape != want.shape or not np.array_equal(vals, want):
            return ('support:psfphot:residual-callform:' + name,
                    f'residual for {name} input != data - make_model_image(shape, psf_shape, include_localbkg)')
    return None


def support_psfphot(ctx, n):
    """PSFPhotometry / IterativePSFPhotometry model and residual images."""
    import astropy.units as u
    from astropy.nddata import NDData
    from astropy.table import QTable, Table
    from photutils.datasets import make_model_image
    from photutils.psf import CircularGaussianPRF, IterativePSFPhotometry, PSFPhotometry, SourceGrouper
    from photutils.detection import DAOStarFinder
    from photutils.background import LocalBackground
    rng = ctx.rng
    for it in range(n):
        ny, nx = rng.randint(15, 25), rng.randint(15, 25)
        iterative = it % 3 == 2
        shuffled_ids = it % 3 != 1          # init_params carries an id column that is NOT ascending
        nsrc = rng.randint(2 if iterative or shuffled_ids else 1, 4)
        fw = rng.choice([2.0, 2.5, 3.0])
        psf = CircularGaussianPRF(fwhm=fw)
        psf_ref = CircularGaussianPRF(fwhm=fw)        # never handed to the code under test
        xs = [rng.uniform(1, nx - 2) for _ in range(nsrc)]
        ys = [rng.uniform(1, ny - 2) for _ in range(nsrc)]
        if rng.random() < 0.5:
            xs[0] = rng.choice([0.2, nx - 1.2])          # a source at the edge (window clipped)
        fl = [rng.uniform(50, 500) for _ in range(nsrc)]
        ninit = nsrc
        if iterative and nsrc >= 2 and it % 2 == 0:
            # the last source is bright and NOT in init_params: the finder must pick it up in the
            # residual of iteration 1, so that the model image spans several fit results
            fl[-1] = rng.uniform(300, 500)
            ninit = nsrc - 1
        truth = Table({'x_0': xs, 'y_0': ys, 'flux': fl})
        data = make_model_image((ny, nx), psf, truth, model_shape=(9, 9))
        data = data + np.array([[((7 * y + 3 * x) % 5) * 0.01 for x in range(nx)] for y in range(ny)]) + 0.5
        use_unit = rng.random() < 0.3 and not iterative      # (the star finder's threshold is unit-less)
        lbsrc = ['estimator', 'column', 'none', 'column', 'estimator'][it % 5]   # source of the local background
        use_lb = lbsrc == 'estimator'
        lb = LocalBackground(4, 7) if use_lb else None
        init = (QTable if use_unit else Table)({'x': [x + rng.uniform(-0.3, 0.3) for x in xs[:ninit]],
                                                'y': [y + rng.uniform(-0.3, 0.3) for y in ys[:ninit]]})
        init['flux'] = np.array(fl[:ninit]) * u.Jy if use_unit else np.array(fl[:ninit])
        if lbsrc == 'column':
            bk0 = np.array([rng.uniform(0.2, 0.9) for _ in range(ninit)])
            init['local_bkg'] = bk0 * u.Jy if use_unit else bk0
        ids = None
        if shuffled_ids and ninit >= 2:
            ids = list(range(1, ninit + 1))
            while ids == sorted(ids):
                rng.shuffle(ids)
            init['id'] = ids
        d = data * u.Jy if use_unit else data
        detail = {'shape': [ny, nx], 'x': xs, 'y': ys, 'flux': fl, 'unit': use_unit, 'localbkg': lbsrc,
                  'iterative': iterative, 'init_ids': ids}
        with warnings.catch_warnings():
            warnings.simplefilter('ignore')
            try:
                if iterative:
                    mode = 'new' if it % 2 == 0 else 'all'
                    detail['mode'] = mode
                    phot = IterativePSFPhotometry(psf, (5, 5), finder=DAOStarFinder(10.0, 2.5),
                                                  grouper=SourceGrouper(3.0) if mode == 'all' else None,
                                                  localbkg_estimator=lb, aperture_radius=4, mode=mode)
                else:
                    phot = PSFPhotometry(psf, (5, 5), localbkg_estimator=lb, aperture_radius=4)
                res = phot(d, init_params=init)
            except Exception as e:  # noqa: BLE001  (fitting is C12's subject)
                ctx.stat('psfphot', 'fit_raised:' + type(e).__name__ + ':' + str(e)[:60])
                continue
            if res is None:
                continue
            for psf_shape in [None, (7, 7), (4, 6), 5]:
                for inc in ((False, True) if psf_shape != (4, 6) else (True, False, True)):
                    try:
                        mimg = phot.make_model_image((ny, nx), psf_shape=psf_shape, include_localbkg=inc)
                        rimg = phot.make_residual_image(d, psf_shape=psf_shape, include_localbkg=inc)
                    except Exception as e:  # noqa: BLE001
                        ctx.violation('support:psfphot:make_model_image:raises:' + type(e).__name__,
                                      'model/residual image raised: ' + str(e)[:120],
                                      dict(detail, psf_shape=psf_shape, include_localbkg=inc))
                        continue
                    ctx.support('psfphot:model_image' + (':iterative' if iterative else ''))
                    ctx.stat('psfphot', f'localbkg={lbsrc}:include={inc}:nonzero='
                             f'{bool(np.any(_arr(res["local_bkg"]) != 0))}:ids='
                             f'{"shuffled" if ids else "default"}')
                    cf = residual_callforms(phot, data, use_unit, psf_shape, inc, mimg)
                    if cf:
                        ctx.violation(cf[0], cf[1], dict(detail, psf_shape=psf_shape, include_localbkg=inc))
                    ctx.count_case(['psfphot', ny, nx, xs, ys, str(psf_shape), inc, iterative], True)
                    # residual is exactly data - model image (bitwise, same unit)
                    want_res = d - mimg
                    if getattr(rimg, 'unit', None) != getattr(want_res, 'unit', None) or \
                            not np.array_equal(np.asarray(getattr(rimg, 'value', rimg)),
                                               np.asarray(getattr(want_res, 'value', want_res))):
                        ctx.violation('support:psfphot:residual', 'residual image != data - model image',
                                      dict(detail, psf_shape=psf_shape, include_localbkg=inc))
                    if use_unit and getattr(mimg, 'unit', None) != u.Jy:
                        ctx.violation('support:psfphot:units', 'model image lost the data units',
                                      dict(detail, psf_shape=psf_shape, include_localbkg=inc))
                    # superposition from the public results table
                    rt = res
                    if iterative:
                        ctx.stat('psfphot', f'iterative:{mode}:fit_results={len(phot.fit_results)}')
                    tb = Table()
                    tb['x_0'] = np.asarray(getattr(rt['x_fit'], 'value', rt['x_fit']), float)
                    tb['y_0'] = np.asarray(getattr(rt['y_fit'], 'value', rt['y_fit']), float)
                    tb['flux'] = np.asarray(getattr(rt['flux_fit'], 'value', rt['flux_fit']), float)
                    if inc:
                        tb['local_bkg'] = np.asarray(getattr(rt['local_bkg'], 'value', rt['local_bkg']), float)
                    sh = bbox_shape_oracle if psf_shape is None else \
                        ((psf_shape, psf_shape) if isinstance(psf_shape, int) else psf_shape)
                    if repr(psf.parameters.tolist()) != repr(psf_ref.parameters.tolist()) or \
                            [str(getattr(psf, pn).unit) for pn in psf.param_names] != \
                            [str(getattr(psf_ref, pn).unit) for pn in psf_ref.param_names]:
                        ctx.violation('support:psfphot:inputs-modified', 'the PSF model handed to PSFPhotometry was '
                                      'modified by make_model_image', dict(detail, psf_shape=psf_shape))
                        break
                    want, mag = float_oracle((ny, nx), psf_ref, tb, 'x_0', 'y_0', sh)
                    if not close(np.asarray(getattr(mimg, 'value', mimg), float), want, mag, len(tb)):
                        ctx.violation('support:psfphot:superposition'
                                      + (':shuffled-ids:include_localbkg' if ids and inc else ''),
                                      'PSFPhotometry.make_model_image differs from the superposition of the '
                                      'fitted sources', dict(detail, psf_shape=psf_shape, include_localbkg=inc))


def _arr(q):
    return np.asarray(getattr(q, 'value', q), float)


def _same(a, b):
    return getattr(a, 'unit', None) == getattr(b, 'unit', None) and _arr(a).shape == _arr(b).shape \
        and bool(np.array_equal(_arr(a), _arr(b)))


HIST_ARGS = [(None, False), ((7, 7), False), ((7, 7), True), ((4, 6), False), (5, True), ((4, 6), True)]


def history_run(detail, on_request=None):
    """execute one recorded history (see support_psfphot_history) on the implementation;
    returns (failure or None, number of images fitted); failure = (signature, what, extra)."""
    import astropy.units as u
    from astropy.table import QTable, Table
    from photutils.background import LocalBackground
    from photutils.datasets import make_model_image
    from photutils.detection import DAOStarFinder
    from photutils.psf import CircularGaussianPRF, IterativePSFPhotometry, PSFPhotometry, SourceGrouper
    kind, fw, use_unit = detail['kind'], detail['fwhm'], detail['unit']
    use_lb = detail['localbkg'] in (True, 'estimator')

    def make():
        psf = CircularGaussianPRF(fwhm=fw)
        lb = LocalBackground(4, 7) if use_lb else None
        if kind == 'psfphot':
            return PSFPhotometry(psf, (5, 5), localbkg_estimator=lb, aperture_radius=4)
        return IterativePSFPhotometry(psf, (5, 5), finder=DAOStarFinder(10.0, 2.5),
                                      grouper=SourceGrouper(3.0) if kind == 'iter-all' else None,
                                      localbkg_estimator=lb, aperture_radius=4, mode=kind[5:],
                                      maxiters=detail.get('maxiters', 3))
    psf_ref = CircularGaussianPRF(fwhm=fw)                 # never handed to the code under test
    phot = make()
    done = 0
    for k, step in enumerate(detail['history']):
        ny, nx = step['shape']
        xs, ys, fl, ninit = step['x'], step['y'], step['flux'], step['n_init']
        truth = Table({'x_0': xs, 'y_0': ys, 'flux': fl})
        data = make_model_image((ny, nx), psf_ref, truth, model_shape=(9, 9))
        data = data + np.array([[((7 * y + 3 * x) % 5) * 0.01 for x in range(nx)] for y in range(ny)]) + 0.5
        init = (QTable if use_unit else Table)({'x': list(step['x_init']), 'y': list(step['y_init'])})
        init['flux'] = np.array(fl[:ninit]) * u.Jy if use_unit else np.array(fl[:ninit])
        if step.get('bkg_init') is not None:
            init['local_bkg'] = np.array(step['bkg_init']) * u.Jy if use_unit else np.array(step['bkg_init'])
        if step.get('ids') is not None:
            init['id'] = list(step['ids'])
        d = data * u.Jy if use_unit else data
        with warnings.catch_warnings():
            warnings.simplefilter('ignore')
            try:
                res = phot(d, init_params=init)
            except Exception as e:  # noqa: BLE001  (fitting is C12's subject)
                return None, done
            if res is None:
                return None, done
            done += 1
            nfit = len(phot.fit_results) if kind != 'psfphot' else 1
            fresh_out = {}            # request -> images of a fresh instance that made ONLY that request
            tb0 = Table()
            tb0['x_0'] = _arr(res['x_fit'])
            tb0['y_0'] = _arr(res['y_fit'])
            tb0['flux'] = _arr(res['flux_fit'])
            for psf_shape, inc in step['requests']:
                psf_shape = tuple(psf_shape) if isinstance(psf_shape, list) else psf_shape
                extra = {'failing_image': k, 'psf_shape': psf_shape, 'include_localbkg': inc}
                try:
                    mimg = phot.make_model_image((ny, nx), psf_shape=psf_shape, include_localbkg=inc)
                    rimg = phot.make_residual_image(d, psf_shape=psf_shape, include_localbkg=inc)
                    key = (str(psf_shape), inc)
                    if key not in fresh_out:
                        # two fresh instances, one per method, each making exactly one request
                        f1, f2 = make(), make()
                        f1(d, init_params=init)
                        f2(d, init_params=init)
                        fresh_out[key] = (f1.make_model_image((ny, nx), psf_shape=psf_shape, include_localbkg=inc),
                                          f2.make_residual_image(d, psf_shape=psf_shape, include_localbkg=inc))
                    mimg_f, rimg_f = fresh_out[key]
                except Exception as e:  # noqa: BLE001
                    return ('support:psfphot-history:raises:' + type(e).__name__,
                            'model/residual image raised on a re-used instance: ' + str(e)[:120], extra), done
                if on_request:
                    on_request(k, psf_shape, inc, nfit)
                if not _same(mimg, mimg_f) or not _same(rimg, rimg_f):
                    return ('support:psfphot-history:differs-from-fresh-instance',
                            'model/residual image after a history of calls/requests differs from that of a fresh '
                            'instance that made only this request on the same image', extra), done
                if not _same(rimg, d - mimg):
                    return ('support:psfphot-history:residual', 'residual image != data - model image', extra), done
                cf = residual_callforms(phot, data, use_unit, psf_shape, inc, mimg)
                if cf:
                    return (cf[0].replace('support:psfphot:', 'support:psfphot-history:'), cf[1], extra), done
                if True:
                    tb = tb0.copy()
                    if inc:
                        tb['local_bkg'] = _arr(res['local_bkg'])
                    sh = bbox_shape_oracle if psf_shape is None else \
                        ((psf_shape, psf_shape) if isinstance(psf_shape, int) else tuple(psf_shape))
                    want, mag = float_oracle((ny, nx), psf_ref, tb, 'x_0', 'y_0', sh)
                    if not close(_arr(mimg), want, mag, len(tb)):
                        return ('support:psfphot-history:superposition'
                                + (':shuffled-ids:include_localbkg' if step.get('ids') and inc else ''),
                                'model image is not the superposition of '
                                'the results table of the LAST call', extra), done
                # the caller may scribble on what it got; later requests must not see it
                try:
                    _arr(mimg)[...] = -12345.0
                    _arr(rimg)[...] = 54321.0
                except ValueError:
                    pass
    return None, done


def support_psfphot_history(ctx, n):
    """History test: ONE PSFPhotometry / IterativePSFPhotometry instance is re-used on several
    different images; between and after the calls the model / residual images are requested with
    varying (and repeated) arguments.  After every call each request must equal (a) the superposition
    of THAT call's public results table, (b) what a fresh instance gives for the same image, and
    residual == data - model bitwise.  Catches state carried over between calls (memoised images,
    stale fit results, aliasing of returned arrays)."""
    rng = ctx.rng
    for it in range(n):
        kind = ['psfphot', 'iter-new', 'iter-all'][it % 3]
        hist = []
        detail = {'support': 'psfphot-history', 'kind': kind, 'fwhm': rng.choice([2.0, 2.5, 3.0]),
                  'localbkg': ['estimator', 'column', 'none'][(it // 3 + it) % 3],
                  'maxiters': rng.choice([3, 3, 1]) if kind != 'psfphot' else 3,
                  'unit': kind == 'psfphot' and rng.random() < 0.3, 'history': hist}
        shape0 = (rng.randint(15, 22), rng.randint(15, 22))
        for k in range(rng.choice([2, 2, 3])):
            # mostly the same frame (so that any key built from the arguments collides), sometimes another
            ny, nx = shape0 if rng.random() < 0.7 else (rng.randint(15, 22), rng.randint(15, 22))
            nsrc = rng.randint(2, 4)
            xs = [rng.uniform(2, nx - 3) for _ in range(nsrc)]
            ys = [rng.uniform(2, ny - 3) for _ in range(nsrc)]
            fl = [rng.uniform(80, 500) for _ in range(nsrc)]
            ninit = nsrc
            if kind != 'psfphot' and (k + it // 3) % 2 == 0:
                # >= 2 fit iterations: the last source is bright and found by the finder in the residual of
                # iteration 1 (unless maxiters == 1); otherwise every source is in init_params and nothing new
                # is found: exactly ONE fit iteration
                fl[-1] = rng.uniform(300, 500)
                ninit = nsrc - 1
            # sequences that vary include_localbkg on the same window: True then False, False then True, repeats
            sh = rng.choice([(7, 7), (4, 6), 5, None])
            pat = rng.choice([[True, False], [False, True], [True, True, False], [False, True, False]])
            reqs = [(sh, b) for b in pat] + [rng.choice(HIST_ARGS) for _ in range(rng.randint(0, 2))]
            reqs.append(reqs[0])                                     # a repeated request
            if k > 0:
                reqs.insert(0, hist[-1]['requests'][0])              # the first request of the previous image
            hist.append({'shape': [ny, nx], 'x': xs, 'y': ys, 'flux': fl, 'n_init': ninit,
                         'x_init': [x + rng.uniform(-0.3, 0.3) for x in xs[:ninit]],
                         'y_init': [y + rng.uniform(-0.3, 0.3) for y in ys[:ninit]],
                         'bkg_init': [rng.uniform(0.2, 0.9) for _ in range(ninit)]
                         if detail['localbkg'] == 'column' else None,
                         'ids': None,
                         'requests': [[list(a) if isinstance(a, tuple) else a, b] for a, b in reqs]})

        for k, step in enumerate(hist):
            # every other image: an id column that is a non-ascending permutation
            if (k + it) % 2 == 0 and step['n_init'] >= 2:
                ids = list(range(1, step['n_init'] + 1))
                while ids == sorted(ids):
                    rng.shuffle(ids)
                step['ids'] = ids
                ctx.stat('psfphot-history', f'{kind}:image_with_shuffled_ids:localbkg={detail["localbkg"]}')

        def on_request(k, psf_shape, inc, nfit, kind=kind, detail=detail):
            ctx.support('psfphot-history:' + kind)
            if kind != 'psfphot':
                ctx.stat('psfphot-history', f'{kind}:requests_with_fit_iterations={min(nfit, 2)}'
                         + ('+' if nfit >= 2 else '') + f':localbkg={detail["localbkg"]}')
            ctx.count_case(['psfphot-history', kind, k, detail['history'][k]['x'], str(psf_shape), inc], True)
        fail, done = history_run(detail, on_request)
        ctx.stat('psfphot-history', f'{kind}:images_fitted={done}')
        if fail:
            ctx.violation(fail[0], fail[1], dict(detail, **fail[2]))


FREE_MODELS = {    # kind -> (extra free parameters, (lo, hi) of the true per-source values)
    'cprf-fwhm': (['fwhm'], (2.2, 4.6)),
    'gprf-widths': (['x_fwhm', 'y_fwhm'], (2.2, 4.4)),
    'moffat-alpha': (['alpha'], (2.2, 4.2)),
}


def _free_model(which):
    from photutils.psf import CircularGaussianPRF, GaussianPRF, MoffatPSF
    if which == 'cprf-fwhm':
        return CircularGaussianPRF(fwhm=3.0)
    if which == 'gprf-widths':
        return GaussianPRF(x_fwhm=3.0, y_fwhm=3.0)
    return MoffatPSF(alpha=3.0, beta=2.5)


def free_run(detail, on_request=None):
    """PSF photometry with a PSF model that has free parameters beyond x / y / flux, on noise-free scenes whose
    sources have DIFFERENT widths; one instance re-used over the images of the history.  For each request
    (psf_shape None = per-source bounding-box window, or explicit; include_localbkg): model image ==
    superposition of the public results table INCLUDING every fitted extra parameter column, residual ==
    data - model image bitwise, and (when the fit recovered the true parameters and the window is the
    bounding box) residual ~ 0.  Returns (failure or None, images fitted)."""
    from astropy.table import Table
    from photutils.detection import DAOStarFinder
    from photutils.psf import IterativePSFPhotometry, PSFPhotometry, SourceGrouper
    kind, which = detail['kind'], detail['model']
    extras = FREE_MODELS[which][0]
    ref = _free_model(which)                                # never handed to the code under test
    psf = _free_model(which)
    for pn in extras:
        getattr(psf, pn).fixed = False
    if kind == 'psfphot':
        phot = PSFPhotometry(psf, (11, 11), aperture_radius=5)
    else:
        phot = IterativePSFPhotometry(psf, (11, 11), finder=DAOStarFinder(5.0, 3.0), aperture_radius=5,
                                      grouper=SourceGrouper(4.0) if kind == 'iter-all' else None, mode=kind[5:])
    done = 0
    for k, step in enumerate(detail['history']):
        ny, nx = step['shape']
        truth = Table({'x_0': step['x'], 'y_0': step['y'], 'flux': step['flux']})
        for pn in extras:
            truth[pn] = step[pn]
        data, _ = float_oracle((ny, nx), ref, truth, 'x_0', 'y_0', bbox_shape_oracle)
        ninit = step['n_init']
        init = Table({'x': step['x_init'], 'y': step['y_init'], 'flux': step['flux_init']})
        if step.get('bkg_init') is not None:
            init['local_bkg'] = step['bkg_init']
        with warnings.catch_warnings():
            warnings.simplefilter('ignore')
            try:
                res = phot(data, init_params=init)
            except Exception:  # noqa: BLE001  (fitting is C12's subject)
                return None, done
            if res is None:
                return None, done
            done += 1
            tb0 = Table()
            tb0['x_0'], tb0['y_0'], tb0['flux'] = _arr(res['x_fit']), _arr(res['y_fit']), _arr(res['flux_fit'])
            for pn in ref.param_names:
                if pn not in ('x_0', 'y_0', 'flux') and pn + '_fit' in res.colnames:
                    tb0[pn] = _arr(res[pn + '_fit'])
            if not np.all(np.isfinite(np.array([list(r) for r in tb0]))):
                continue
            missing = [pn for pn in extras if pn not in tb0.colnames]
            if missing:
                return ('support:psfphot-free:results-table', f'no {missing[0]}_fit column in the results table '
                        'although the parameter was fitted', {'failing_image': k}), done
            # did the fit recover the truth (same number of sources, every parameter to 1e-4 relative)?
            recovered = len(tb0) == len(truth)
            if recovered:
                order = [int(np.argmin((tb0['x_0'] - x) ** 2 + (tb0['y_0'] - y) ** 2))
                         for x, y in zip(step['x'], step['y'])]
                recovered = sorted(order) == list(range(len(truth))) and all(
                    abs(tb0[c][j] - truth[c][i]) <= 1e-4 * max(1.0, abs(truth[c][i]))
                    for i, j in enumerate(order) for c in truth.colnames)
            for psf_shape, inc in step['requests']:
                psf_shape = tuple(psf_shape) if isinstance(psf_shape, list) else psf_shape
                extra = {'failing_image': k, 'psf_shape': psf_shape, 'include_localbkg': inc}
                try:
                    mimg = phot.make_model_image((ny, nx), psf_shape=psf_shape, include_localbkg=inc)
                    rimg = phot.make_residual_image(data, psf_shape=psf_shape, include_localbkg=inc)
                except Exception as e:  # noqa: BLE001
                    return ('support:psfphot-free:raises:' + type(e).__name__,
                            'model/residual image raised: ' + str(e)[:120], extra), done
                if on_request:
                    on_request(k, psf_shape, inc, recovered)
                if not _same(rimg, data - mimg):
                    return ('support:psfphot-free:residual', 'residual image != data - model image', extra), done
                tb = tb0.copy()
                if inc:
                    tb['local_bkg'] = _arr(res['local_bkg'])
                sh = bbox_shape_oracle if psf_shape is None else \
                    ((psf_shape, psf_shape) if isinstance(psf_shape, int) else tuple(psf_shape))
                want, mag = float_oracle((ny, nx), ref, tb, 'x_0', 'y_0', sh)
                if not close(_arr(mimg), want, mag, len(tb)):
                    return ('support:psfphot-free:superposition', 'model image is not the superposition of the '
                            'fitted sources with THEIR fitted parameters (every *_fit column of the results table) '
                            'on ' + ('their bounding-box windows' if psf_shape is None else 'the psf_shape window'),
                            dict(extra, max_abs_diff=float(np.max(np.abs(_arr(mimg) - want))))), done
                if recovered and psf_shape is None and not inc and which != 'moffat-alpha':
                    if float(np.max(np.abs(_arr(rimg)))) > 1e-3 * float(np.max(data)):
                        return ('support:psfphot-free:residual-not-zero', 'the fit recovered the true parameters of a '
                                'noise-free scene but the residual image is not ~ 0',
                                dict(extra, max_abs_residual=float(np.max(np.abs(_arr(rimg)))),
                                     peak=float(np.max(data)))), done
    return None, done


def support_psfphot_free(ctx, n):
    rng = ctx.rng
    kinds = ['psfphot', 'iter-new', 'iter-all']
    models = sorted(FREE_MODELS)
    for it in range(n):
        kind, which = kinds[it % 3], models[(it // 3 + it) % 3]
        extras, (lo, hi) = FREE_MODELS[which]
        hist = []
        detail = {'support': 'psfphot-free', 'kind': kind, 'model': which, 'history': hist}
        for k in range(rng.choice([1, 2])):
            ny, nx = rng.randint(36, 44), rng.randint(36, 44)
            nsrc = rng.randint(2, 3)
            # well separated sources (one per quadrant-ish cell), different widths
            cells = [(0.27, 0.27), (0.72, 0.35), (0.45, 0.75)]
            xs = [cx * nx + rng.uniform(-1.5, 1.5) for cx, _ in cells[:nsrc]]
            ys = [cy * ny + rng.uniform(-1.5, 1.5) for _, cy in cells[:nsrc]]
            fl = [rng.uniform(600, 1500) for _ in range(nsrc)]
            ninit = nsrc
            if kind != 'psfphot' and (k + it // 3) % 2 == 0:
                ninit = nsrc - 1                      # the last source is left for the finder (2 fit iterations)
            step = {'shape': [ny, nx], 'x': xs, 'y': ys, 'flux': fl, 'n_init': ninit,
                    'x_init': [x + rng.uniform(-0.2, 0.2) for x in xs[:ninit]],
                    'y_init': [y + rng.uniform(-0.2, 0.2) for y in ys[:ninit]],
                    'flux_init': [f * rng.uniform(0.9, 1.1) for f in fl[:ninit]],
                    'bkg_init': [rng.uniform(0.01, 0.05) for _ in range(ninit)] if rng.random() < 0.5 else None}
            for pn in extras:
                step[pn] = [rng.uniform(lo, hi) for _ in range(nsrc)]
            reqs = [(None, False), (None, True), (rng.choice([(9, 9), (8, 12), 11]), rng.random() < 0.5),
                    (None, False)]
            rng.shuffle(reqs)
            step['requests'] = [[list(a) if isinstance(a, tuple) else a, b] for a, b in reqs]
            hist.append(step)

        def on_request(k, psf_shape, inc, recovered, kind=kind, which=which):
            ctx.support(f'psfphot-free:{kind}:{which}')
            ctx.stat('psfphot-free', f'{which}:psf_shape={"None" if psf_shape is None else "explicit"}:'
                     f'truth_recovered={recovered}')
            ctx.count_case(['psfphot-free', kind, which, it, k, str(psf_shape), inc], True)
        fail, done = free_run(detail, on_request)
        ctx.stat('psfphot-free', f'{kind}:images_fitted={done}')
        if fail:
            ctx.violation(fail[0], fail[1], dict(detail, **fail[2]))


def support_psf_sim(ctx, n):
    """make_psf_model_image returns (image, params) with image == make_model_image(params)."""
    from photutils.datasets import make_model_image
    from photutils.psf import CircularGaussianPRF, make_psf_model_image
    rng = ctx.rng
    for it in range(n):
        ny, nx = rng.randint(8, 30), rng.randint(8, 30)
        sh = (rng.choice([3, 5, 7, 4]), rng.choice([3, 5, 7, 6]))
        psf = CircularGaussianPRF(fwhm=2.2)
        seed = rng.randint(0, 10 ** 6)
        nsrc = rng.randint(1, 6)
        detail = {'shape': [ny, nx], 'model_shape': list(sh), 'n_sources': nsrc, 'seed': seed}
        try:
            with warnings.catch_warnings():
                warnings.simplefilter('ignore')
                img, params = make_psf_model_image((ny, nx), psf, nsrc, model_shape=sh, seed=seed,
                                                   flux=(10, 100), min_separation=1)
        except ValueError:
            continue
        ctx.support('make_psf_model_image')
        ctx.count_case(['psfsim', ny, nx, list(sh), nsrc, seed], True)
        direct = make_model_image((ny, nx), psf, params, model_shape=sh)
        want, mag = float_oracle((ny, nx), psf, params, 'x_0', 'y_0', sh)
        if not np.array_equal(np.asarray(img), np.asarray(direct)) or \
                not close(np.asarray(img, float), want, mag, len(params)):
            ctx.violation('support:make_psf_model_image', 'image is not the superposition of the returned '
                          'parameter table', detail)


# --------------------------------------------------------------------------
def run(ctx):
    ctx.build_with_translator(FILES)
    thorough = ctx.tier == 'thorough'
    ctx.cov['rule'] = (
        'random tables (0..8 rows) for an integer-valued polynomial astropy model on the 1/8-pixel lattice: '
        'image shapes 0..8 per axis, window source in {model_shape int/pair, per-row column 1-D/2-D incl. 0, '
        'bounding box with/without bbox_factor}, per-axis placement in {inside, window ending exactly at the '
        'lower edge, one row/column on the image, starting exactly past / on the last pixel, far off, random} '
        'x sub-pixel offset, local_bkg column, three parameter-name sets, params_map aliases / decoy columns / '
        'NON-injective maps (several parameters <- one column, incl. both position parameters) / '
        'invalid maps, unit-ful tables and unit-ful models, discretisation center / interp / oversample(2,4); '
        'non-trivial = call accepted and at least one row contributes; distinct = distinct case dictionaries')
    ctx.assumptions += [
        'ev (value of the discretised model at a pixel), bbox_shape and ev_unit are section variables of the '
        'model: the theorems hold for every such function; the correspondence instantiates them with the '
        'polynomial test model (harness/c18.py poly_class <-> C18_Model.poly_ev/poly_bbox)',
        'exact arithmetic: values are scaled integers; the theorems say nothing about floating-point rounding of '
        'the accumulated sums (the generators keep every operation exact; general doubles are compared with a '
        'rounding bound in the support tests)',
        'the window model overlap_slices is a hand model of astropy.nddata.overlap_slices(mode="trim") plus the '
        'zero-size patch of photutils.utils.cutouts._overlap_slices, tied by the correspondence (edge / corner / '
        'touching / half-pixel placements), not translated from astropy source',
        'units are per column, hence ev_unit is the same for every row of a table (hypothesis units_uniform of the '
        'unit clauses)',
        'an empty table yields a plain float array (no unit can be derived from rows); local_bkg whose unit '
        'differs from the model output (ValueError) is not modelled',
        'render_orig / overlap_slices_orig (the unrepaired loop) are used only for the two *_unrepaired_refuted '
        'witnesses; they are not tied by the correspondence (the witnesses are replayed on /repo HEAD by the '
        'violation search instead)',
    ]
    ctx.cov['partial_clauses'] = [
        'analytic / PRF / image-based / compound / unit-ful models with arbitrary doubles and the integrate / '
        'oversample(3,10) discretisations: float sums compared with a rounding bound in Python (support tests)',
        'PSFPhotometry / IterativePSFPhotometry make_model_image and make_residual_image, make_psf_model_image: '
        'driven through the public API after a real fit; residual == data - model image compared bitwise, '
        'superposition compared with the rounding bound (support tests; the fit itself is C12); the theorem '
        'residual_is_data_minus_model is about C18_Model.residual (np.subtract(data, model image))',
        'residual call forms: after every fit (plain and history tests) make_residual_image is called with the '
        'image as ndarray / Quantity, NDData (+unit) and NDData with uncertainty + mask, for include_localbkg in '
        '{False, True}, local backgrounds from a localbkg_estimator, from a local_bkg column of init_params, or '
        'none: each must equal data - make_model_image(shape, psf_shape, include_localbkg) bitwise, NDData '
        'meta-data carried over and inputs untouched (support test)',
        'window source: model_shape=None with bbox_factor in {None, 1, 2, 3.5, 5.5, 7} for models with square / '
        'non-square, factor-accepting / fixed, analytic / image / user-set bounding boxes and per-row shape '
        'parameters: window == extent of the bounding box along (y, x) looked up by input name, scaled only when '
        'the model accepts a factor (support test, rounding bound)',
        'PSF models with free parameters beyond x / y / flux (CircularGaussianPRF fwhm, GaussianPRF widths, MoffatPSF '
        'alpha) fitted on noise-free scenes with sources of different widths, PSFPhotometry / Iterative new / all, '
        'psf_shape None and explicit: model image == superposition of the results table incl. every fitted extra '
        'column on per-source bounding-box windows, residual == data - model, residual ~ 0 when the truth was '
        'recovered (support test)',
        'source ids: init_params with an id column that is a non-ascending permutation (psfphot and history tests, '
        'every run) x differing local backgrounds (column / estimator) x include_localbkg: each source must get ITS '
        'OWN local_bkg (oracle = results table rows)',
        'histories: one PSFPhotometry / IterativePSFPhotometry (new, all) instance re-used on 2-3 different images '
        'with model / residual images requested between and after the calls (varying and repeated arguments): '
        'iterative kinds with exactly 1 and with >= 2 fit iterations (maxiters 1 / 3, source left for the finder or '
        'not), include_localbkg sequences True->False, False->True, repeated; each request == superposition of the '
        'results table of that call == a fresh instance that made ONLY that request, residual == data - model '
        '(support test; no Coq model of the state of the photometry objects)',
        'input model and table unchanged: snapshot comparison on every case (no theorem: the Coq model is a pure '
        'function; loop_is_fold_of_independent_rows shows that the working copy never leaks parameters between '
        'rows)',
        'row_order_invariant / non_overlapping_rows_skipped: the image part is unconditional; the unit part needs '
        'units_uniform (and, for skipping, at least one remaining row)',
    ]
    n = 420 if not thorough else 3000
    cases = [gen_case(ctx.rng, small=(i % 4 == 0)) for i in range(n)]
    results, wants, terms = [], [], []
    for c in cases:
        res, unchanged = run_impl(c)
        want = oracle_render(c)
        results.append(res)
        wants.append(want)
        terms.append(to_coq(c, res))
        ctx.stat('kinds', c['kind'])
        ctx.stat('method', c['method'] + (str(c['factor']) if c['method'] == 'oversample' else ''))
        ctx.stat('rows', str(len(c['rows'])))
        ctx.stat('window', 'column-' + c['shape_col'] if c['shape_col'] else
                 ('arg' if c['mshape'] is not None else ('bbox-factor' if c['bbox_factor2'] else 'bbox')))
        ctx.stat('result', 'image' if res[0] == 'img' else res[1])
        if want is not None:
            nhit = len(want[2])
            ctx.stat('overlap', 'all-rows' if nhit == len(c['rows']) else ('no-row' if nhit == 0 else 'some-rows'))
            if c['rows'] and 0 not in want[2]:
                ctx.stat('overlap', 'first-row-off-image')
        ctx.count_case(c, want is not None and bool(want[2]))
        if not unchanged:
            ctx.violation('make_model_image:inputs-modified', 'input model or table modified', {'case': c})
        if res[0] == 'img' and not res[3]:
            ctx.violation('correspondence:inexact-lattice', 'implementation output is not on the exact lattice',
                          {'case': c, 'impl': res_json(res)}, found_input=False)
        metamorphic(ctx, c, res, want, thorough)
        if want is not None:
            shift_check(ctx, c, res)
    k = next((i for i, c in enumerate(cases) if len(c['rows']) >= 2 and results[i][0] == 'img'), 0)
    ctx.sample({'case': cases[k], 'impl': res_json(results[k])})
    bad = ctx.coq_eval_cases(['C18_Model'], 'check_case', terms, case_type='case')
    ctx.stat('coq', 'disagreements', len(bad))
    # independent oracle on every case as well (cheap), so that a defect shared by model and
    # implementation cannot hide
    viol = [i for i in range(n) if not agrees(results[i], wants[i])]
    ctx.stat('oracle', 'disagreements', len(viol))
    # the two known defects of /repo HEAD: when the implementation under test shows them, tie the model
    # of the UNREPAIRED loop (C18_Model.render_orig, used by the *_unrepaired_refuted witnesses) to it
    KNOWN = ('make_model_image:units:first-row-offimage', 'make_model_image:window-ends-at-lower-edge',
             'make_model_image:units:depend-on-overlap')
    if viol and all(signature(cases[i], results[i], wants[i]) in KNOWN for i in viol):
        bad_orig = ctx.coq_eval_cases(['C18_Model'], 'check_case_orig', terms, case_type='case', tag='cases_orig')
        ctx.stat('coq', 'unrepaired_model_disagreements', len(bad_orig))
        for i in bad_orig[:5]:
            ctx.violation('correspondence:C18_Model.check_case_orig', 'the model of the unrepaired loop disagrees '
                          'with the (unrepaired) implementation', {'case': cases[i], 'impl': res_json(results[i])},
                          found_input=False)
    for i in sorted(set(bad) | set(viol))[:30]:
        c, res, want = cases[i], results[i], wants[i]
        detail = {'case': c, 'impl': res_json(res),
                  'expected': None if want is None else {'unit': want[0], 'image_x65536': want[1].tolist()},
                  'cmd': 'bin/check C18 --replay <this file>'}
        if i in bad and len(bad) < 40:
            detail['model'] = ctx.coq_eval_term(['C18_Model'], f'model_out {terms[i]}')
        if i in viol:
            ctx.violation(signature(c, res, want), 'make_model_image result is not the superposition of the table '
                          'rows (or a valid call raised / an invalid one was accepted)', detail)
        else:
            ctx.violation('correspondence:C18_Model.check_case', 'model and implementation disagree although the '
                          'property holds on this input', detail, found_input=False)
    support_models(ctx, 60 if not thorough else 500)
    support_windows(ctx, 28 if not thorough else 210)
    support_maps(ctx, 20 if not thorough else 150)
    support_psf_sim(ctx, 10 if not thorough else 60)
    support_psfphot(ctx, 9 if not thorough else 45)
    support_psfphot_history(ctx, 9 if not thorough else 45)
    support_psfphot_free(ctx, 9 if not thorough else 54)


def replay(obj):
    r = obj['replay']
    if r.get('support') == 'psfphot-free':
        fail, done = free_run(r)
        print('images fitted:', done)
        if fail:
            print('FAILS:', fail[0], '-', fail[1], fail[2])
        print('property holds on this history' if not fail else 'property FAILS on this history')
        return 0 if not fail else 1
    if r.get('support') == 'psfphot-history':
        fail, done = history_run(r)
        print('images fitted:', done)
        if fail:
            print('FAILS:', fail[0], '-', fail[1], fail[2])
        print('property holds on this history' if not fail else 'property FAILS on this history')
        return 0 if not fail else 1
    if r.get('support') == 'maps':
        fails = support_map_one(r)
        for sig, what in fails:
            print('FAILS:', sig, '-', what)
        print('property holds on this input' if not fails else 'property FAILS on this input')
        return 0 if not fails else 1
    if r.get('support') == 'models':
        fails = support_one(r)
        for sig, what in fails:
            print('FAILS:', sig, '-', what)
        print('property holds on this input' if not fails else 'property FAILS on this input')
        return 0 if not fails else 1
    if 'case' not in r:
        print('support-test replay: parameters are in the file; no automatic re-run')
        print(r)
        return 1
    c = r['case']
    res, unchanged = run_impl(c)
    want = oracle_render(c)
    print('impl:', res_json(res))
    print('expected:', None if want is None else {'unit': want[0], 'image_x65536': want[1].tolist()})
    ok = agrees(res, want) and unchanged
    if ok and 'order' in r:
        r2, _ = run_impl(c, r['order'])
        ok = r2[0] == 'img' and r2[1] == res[1] and np.array_equal(r2[2], res[2])
        print('reordered:', res_json(r2))
    if ok and 'split' in r:
        a, _ = run_impl(c, range(0, r['split']))
        b, _ = run_impl(c, range(r['split'], len(c['rows'])))
        ok = a[0] == 'img' and b[0] == 'img' and np.array_equal(a[2] + b[2], res[2])
    if ok and 'shift' in r:
        dy, dx = r['shift']
        c2 = shifted_case(c, dy, dx, r['pad'])
        r2, _ = run_impl(c2)
        ny, nx = c['shape']
        ok = r2[0] == 'img' and r2[1] == res[1] and np.array_equal(r2[2][dy:dy + ny, dx:dx + nx], res[2])
        print('shifted:', res_json(r2))
    if ok and 'kept_rows' in r:
        r3, _ = run_impl(c, r['kept_rows'])
        ok = r3[0] == 'img' and r3[1] == res[1] and np.array_equal(r3[2], res[2])
    print('property holds on this input' if ok else 'property FAILS on this input')
    return 0 if ok else 1
