"""Self-test of the translator tie (run by hand):

    cd /verif && PYTHONDONTWRITEBYTECODE=1 /venv/bin/python -m harness.test_py2coq [-j N] [-k substring]

For every scenario a scratch copy of the translated source files (under /tmp/agent_T/selftest, never /repo)
is edited, harness.translate_all regenerates coq/gen/*.v from it, and the generated files plus the committed
CNN_GenEq.v files that depend on the edited source are compiled in a scratch Coq directory (the .vo files of
the hand-written models are linked from /verif/coq, which must have been built: bin/setup).
  (a) unchanged source            -> every GenEq file must compile
  (b) behaviour-changing mutation -> the GenEq files listed for it must FAIL to compile
  (c) harmless rewrite            -> should still compile; the ones marked 'closed' are known to fail closed
  (d) differential check of the translator itself (in the baseline scenario): the real functions of $VERIF_REPO are run
      on seeded inputs and Coq evaluates the regenerated definitions on the same inputs -- they must agree
  (e) fail-closed: snippets with constructs outside the subset must raise Untranslatable
Prints a table and exits 1 if an expectation is not met.
"""
import argparse
import concurrent.futures as cf
import os
import re
import shutil
import subprocess
import sys
import time
from pathlib import Path

VERIF = Path(__file__).resolve().parent.parent
COQ = VERIF / 'coq'
REPO = Path(os.environ.get('VERIF_REPO', '/repo'))
SCRATCH = Path('/tmp/agent_T/selftest')

BBOX = 'photutils/aperture/bounding_box.py'
CORE = 'photutils/aperture/core.py'
RND = 'photutils/utils/_round.py'
GRID = 'photutils/psf/gridded_models.py'
IMG = 'photutils/psf/image_models.py'
ISO = 'photutils/isophote/geometry.py'
BKG = 'photutils/background/background_2d.py'
FILES = [BBOX, CORE, RND, GRID, IMG, ISO, BKG]
DEPENDS = {BBOX: ['C01_GenEq.v', 'C02_GenEq.v'], CORE: ['C01_GenEq.v'], RND: ['C17_GenEq.v'],
           GRID: ['C13_GenEq.v'], IMG: ['C13_GenEq.v'], ISO: ['C20_GenEq.v'], BKG: ['C11_GenEq.v']}
ALL_EQ = ['C01_GenEq.v', 'C02_GenEq.v', 'C11_GenEq.v', 'C13_GenEq.v', 'C17_GenEq.v', 'C20_GenEq.v']

# (name, kind, file, old, new, expectation)
#   kind 'mutation': expectation = list of GenEq files that must fail (default: all that depend on the file)
#   kind 'rewrite' : expectation = 'pass' or 'closed' (known to fail closed)
S = []


def mut(name, file, old, new, fail=None):
    S.append((name, 'mutation', file, old, new, fail))


def rew(name, file, old, new, expect='pass'):
    S.append((name, 'rewrite', file, old, new, expect))


# ---------------- (b) behaviour-changing mutations ----------------
mut('overlap: `xmin >= shape[1]` -> `>`', BBOX, 'if (xmin >= shape[1] or', 'if (xmin > shape[1] or')
mut('overlap: `ymax <= 0` -> `< 0`', BBOX, 'xmax <= 0 or ymax <= 0', 'xmax <= 0 or ymax < 0')
mut('overlap: zero-size clause dropped (reverts fix C01-1)', BBOX,
    'xmax <= 0 or ymax <= 0\n                or shape[0] <= 0 or shape[1] <= 0):', 'xmax <= 0 or ymax <= 0):')
mut('overlap: small slice `shape[0] - ymin` -> `shape[0]`', BBOX,
    'min(ymax - ymin, shape[0] - ymin)', 'min(ymax - ymin, shape[0])')
mut('overlap: large slice max/min swapped', BBOX, 'slice(max(ymin, 0), min(ymax, shape[0]))',
    'slice(min(ymin, 0), max(ymax, shape[0]))')
mut('overlap: wrong field (xmin = self.iymin)', BBOX, 'xmin = self.ixmin\n', 'xmin = self.iymin\n')
mut('from_float: floor -> ceil', BBOX, 'ixmin = math.floor(xmin + 0.5)', 'ixmin = math.ceil(xmin + 0.5)',
    fail=['C01_GenEq.v'])
mut('from_float: `+ 0.5` dropped', BBOX, 'iymax = math.ceil(ymax + 0.5)', 'iymax = math.ceil(ymax)', fail=['C01_GenEq.v'])
mut('__init__: `ixmin > ixmax` -> `>=`', BBOX, 'if ixmin > ixmax:', 'if ixmin >= ixmax:', fail=['C01_GenEq.v'])
mut('union: min -> max', BBOX, 'ixmin = min((self.ixmin, other.ixmin))', 'ixmin = max((self.ixmin, other.ixmin))',
    fail=['C01_GenEq.v'])
mut('intersection: wrong field (other.ixmax for iymax)', BBOX, 'iymax = min(self.iymax, other.iymax)',
    'iymax = min(self.iymax, other.ixmax)', fail=['C01_GenEq.v'])
mut('intersection: `<` -> `<=` in the emptiness test', BBOX, 'if ixmax < ixmin or iymax < iymin:',
    'if ixmax <= ixmin or iymax < iymin:', fail=['C01_GenEq.v'])
mut('shape: (ny, nx) swapped', BBOX, 'return self.iymax - self.iymin, self.ixmax - self.ixmin',
    'return self.ixmax - self.ixmin, self.iymax - self.iymin')
mut('extent: `- 0.5` -> `+ 0.5` on ixmax', BBOX, 'return (self.ixmin - 0.5, self.ixmax - 0.5,',
    'return (self.ixmin - 0.5, self.ixmax + 0.5,', fail=['C01_GenEq.v'])
mut('mask mode: rectangle exact -> 16 subpixels', CORE, "            subpixels = 32\n", "            subpixels = 16\n")
mut('mask mode: `subpixels <= 0` -> `< 0`', CORE, 'or subpixels <= 0)):', 'or subpixels < 0)):')
mut('mask mode: center keeps the caller\'s subpixels', CORE,
    "            use_exact = 0\n            subpixels = 1\n        elif mode == 'subpixel':",
    "            use_exact = 0\n        elif mode == 'subpixel':")
mut('py2intround: floor <-> ceil', RND, 'np.where(data >= 0, np.floor(data + 0.5),\n                     np.ceil(data - 0.5))',
    'np.where(data >= 0, np.ceil(data + 0.5),\n                     np.floor(data - 0.5))')
mut('py2intround: `- 0.5` -> `+ 0.5`', RND, 'np.ceil(data - 0.5)', 'np.ceil(data + 0.5)')
mut('bilinear: weights of the two x ends swapped', GRID, 'return np.array([(x1 - xi) * (y1 - yi), (xi - x0) * (y1 - yi),',
    'return np.array([(xi - x0) * (y1 - yi), (x1 - xi) * (y1 - yi),')
mut('bilinear: zero-width guard removed (reverts fix C13-1)', GRID, '        if x1 == x0:\n            x1 = x0 + 1.0\n', '')
mut('bilinear: clip dropped', GRID, '        xi = np.clip(xi, x0, x1)\n', '')
mut('ImagePSF: xi uses oversampling[0] (wrong axis)', IMG, 'xi = self.oversampling[1] * (np.asarray(x, dtype=float) - x_0)',
    'xi = self.oversampling[0] * (np.asarray(x, dtype=float) - x_0)')
mut('ImagePSF: invalid `xi > nx - 1` -> `>=`', IMG, 'invalid = (xi < 0) | (xi > nx - 1)', 'invalid = (xi < 0) | (xi >= nx - 1)')
mut('GriddedPSF: invalid `yi > ny - 1` -> `yi > ny`', GRID, '(yi < 0) | (yi > ny - 1)', '(yi < 0) | (yi > ny)')
mut('GriddedPSF: yi += origin[0] (wrong component)', GRID, 'yi += self.origin[1]', 'yi += self.origin[0]')
mut('update_sma: `1.0 + step` -> `1.0 - step`', ISO, 'sma = self.sma * (1.0 + step)', 'sma = self.sma * (1.0 - step)')
mut('reset_sma: `step = aux - 1.0` -> `1.0 - aux`', ISO, 'step = aux - 1.0', 'step = 1.0 - aux')
mut('reset_sma: linear `step = -step` dropped', ISO, '            sma = self.sma - step\n            step = -step\n',
    '            sma = self.sma - step\n')
mut('bkg: `ngood <` -> `<=` (the unrepaired rule)', BKG, 'box_mask = (ngood < self._good_npixels_threshold)',
    'box_mask = (ngood <= self._good_npixels_threshold)')
mut('bkg: `/ 100.0` -> `/ 10.0`', BKG, 'self.exclude_percentile / 100.0', 'self.exclude_percentile / 10.0')
mut('bkg: `| (ngood == 0)` dropped', BKG, 'box_mask = (ngood < self._good_npixels_threshold) | (ngood == 0)',
    'box_mask = (ngood < self._good_npixels_threshold)')
mut('untranslatable construct (while loop) in get_overlap_slices', BBOX, '        xmin = self.ixmin\n        xmax = self.ixmax\n',
    '        xmin = self.ixmin\n        while xmin < 0:\n            xmin += 1\n        xmax = self.ixmax\n')
mut('side effect (print) in from_float', BBOX, '        ixmin = math.floor(xmin + 0.5)\n',
    '        print(xmin)\n        ixmin = math.floor(xmin + 0.5)\n', fail=['C01_GenEq.v'])

# ---------------- (c) harmless rewrites ----------------
rew('overlap: disjuncts reordered', BBOX,
    'if (xmin >= shape[1] or ymin >= shape[0] or xmax <= 0 or ymax <= 0\n                or shape[0] <= 0 or shape[1] <= 0):',
    'if (shape[1] <= 0 or ymax <= 0 or xmin >= shape[1] or shape[0] <= 0\n                or xmax <= 0 or ymin >= shape[0]):')
rew('overlap: `a >= b` written `not a < b`, `xmax <= 0` written `0 >= xmax`', BBOX,
    'if (xmin >= shape[1] or ymin >= shape[0] or xmax <= 0', 'if (not xmin < shape[1] or not (ymin < shape[0]) or 0 >= xmax')
rew('overlap: shape unpacked into new locals ny_, nx_', BBOX,
    '        ymax = self.iymax\n\n        if (xmin >= shape[1] or ymin >= shape[0] or xmax <= 0 or ymax <= 0\n',
    '        ymax = self.iymax\n        ny_, nx_ = shape\n\n        if (xmin >= nx_ or ymin >= ny_ or xmax <= 0 or ymax <= 0\n')
rew('locals/parameters renamed everywhere (xmin -> x_lo, ymax -> y_hi)', BBOX, 're:\\b(xmin|ymax)\\b',
    lambda m: {'xmin': 'x_lo', 'ymax': 'y_hi'}[m.group(1)])
rew('overlap: extra parentheses, max/min argument order, early-return turned into if/else', BBOX,
    '        slices_large = (slice(max(ymin, 0), min(ymax, shape[0])),',
    '        slices_large = (slice(max(0, (ymin)), min(shape[0], ymax)),')
rew('overlap: the fields read directly (no xmin/xmax/ymin/ymax locals)', BBOX,
    '        slices_small = (slice(max(-ymin, 0),\n                              min(ymax - ymin, shape[0] - ymin)),',
    '        slices_small = (slice(max(-self.iymin, 0),\n                              min(self.iymax - self.iymin, shape[0] - self.iymin)),')
rew('from_float: `0.5 + xmin`, `ymax + 1/2`', BBOX, 'ixmin = math.floor(xmin + 0.5)', 'ixmin = math.floor(0.5 + xmin)')
rew('__init__: the two range checks swapped', BBOX,
    "        if ixmin > ixmax:\n            raise ValueError('ixmin must be <= ixmax')\n        if iymin > iymax:\n            raise ValueError('iymin must be <= iymax')\n",
    "        if iymin > iymax:\n            raise ValueError('iymin must be <= iymax')\n        if not ixmin <= ixmax:\n            raise ValueError('ixmin must be <= ixmax')\n")
rew('union: builtin min/max with two arguments', BBOX, 'ixmin = min((self.ixmin, other.ixmin))', 'ixmin = min(other.ixmin, self.ixmin)')
rew('intersection: disjuncts swapped, explicit else', BBOX, 'if ixmax < ixmin or iymax < iymin:', 'if iymax < iymin or ixmin > ixmax:')
rew('docstring edited only', BBOX, 'def get_overlap_slices(self, shape):\n        """',
    'def get_overlap_slices(self, shape):\n        """(edited docstring) ')
rew('mask mode: final `elif mode == \'exact\'` -> `else`', CORE, "        elif mode == 'exact':\n            use_exact = 1",
    "        else:\n            use_exact = 1")
rew('mask mode: membership test as a chain of !=', CORE, "if mode not in ('center', 'subpixel', 'exact'):",
    "if mode != 'center' and mode != 'subpixel' and mode != 'exact':")
rew('py2intround: branches swapped under `data < 0`', RND,
    'np.where(data >= 0, np.floor(data + 0.5),\n                     np.ceil(data - 0.5))',
    'np.where(data < 0, np.ceil(data - 0.5),\n                     np.floor(0.5 + data))')
rew('py2intround: `data >= 0` -> `data > 0` (same value at 0)', RND, 'np.where(data >= 0,', 'np.where(data > 0,', 'closed')
rew('bilinear: products commuted, norm commuted', GRID, 'norm = (x1 - x0) * (y1 - y0)', 'norm = (y1 - y0) * (x1 - x0)')
rew('bilinear: clip written with min/max', GRID, 'xi = np.clip(xi, x0, x1)', 'xi = min(max(xi, x0), x1)')
rew('ImagePSF: invalid disjuncts reordered, `xi > nx - 1` as `nx - 1 < xi`', IMG,
    'invalid = (xi < 0) | (xi > nx - 1) | (yi < 0) | (yi > ny - 1)', 'invalid = (yi > ny - 1) | (yi < 0) | (nx - 1 < xi) | (xi < 0)')
rew('ImagePSF: xi in one expression', IMG, 'xi = self.oversampling[1] * (np.asarray(x, dtype=float) - x_0)',
    'xi = (np.asarray(x, dtype=float) - x_0) * self.oversampling[1] + 0.0')
rew('update_sma: `(step + 1.0) * self.sma`', ISO, 'sma = self.sma * (1.0 + step)', 'sma = (step + 1.0) * self.sma')
rew('reset_sma: `sma = self.sma / (1.0 + step)`', ISO, 'sma = self.sma * aux', 'sma = self.sma / (1.0 + step)')
rew('bkg: disjuncts swapped, threshold factors commuted', BKG, 'box_mask = (ngood < self._good_npixels_threshold) | (ngood == 0)',
    'box_mask = (0 == ngood) | (self._good_npixels_threshold > ngood)')
rew('bkg: threshold `npix * (1 - p / 100)`', BKG, 'return (1 - (self.exclude_percentile / 100.0)) * self._box_npixels',
    'return self._box_npixels * (1.0 - self.exclude_percentile / 100.0)')


# ---------------- (d) differential check of the translator itself ----------------
def _z(n):
    n = int(n)
    return f'({n})%Z' if n < 0 else f'{n}%Z'


def _q(x):
    from fractions import Fraction
    fr = Fraction(x)
    return f'({fr.numerator} # {fr.denominator})%Q'


def _zt(t):
    return '(' + ', '.join(_z(v) for v in t) + ')'


def differential(coqd, seed=20261001, n=40):
    """Run the REAL functions of $VERIF_REPO on seeded inputs (dyadic floats, so float arithmetic is exact) and let
    Coq evaluate the regenerated definitions on the same inputs; returns (number of checks, failing labels)."""
    import random
    import types
    sys.path.insert(0, str(REPO))
    import warnings
    warnings.simplefilter('ignore')
    import numpy as np
    from photutils.aperture.bounding_box import BoundingBox
    from photutils.aperture.core import PixelAperture
    from photutils.background import Background2D
    from photutils.isophote.geometry import EllipseGeometry
    from photutils.psf import GriddedPSFModel
    from photutils.utils._round import py2intround
    rng = random.Random(seed)
    checks = []          # (label, Coq bool term)
    from harness import translate_all
    os.environ['VERIF_REPO'] = str(REPO)
    translate_all.generate_all()
    spans = {name: (file, span) for _, name, st, file, span, _ in translate_all.LAST_REPORT if st == 'ok'}

    def stmts_of(gen_name, var):
        """the source lines of the `var` target gen_name (statements assigning var inside its span)"""
        file, (lo, hi) = spans[gen_name]
        lines = (REPO / file).read_text().splitlines()[lo - 1:hi]
        return [l.strip() for l in lines if l.strip().startswith((f'{var} = ', f'{var} += '))]

    def dy(lo, hi, den=8):
        return rng.randint(lo * den, hi * den) / den

    def res4(call):
        try:
            b = call()
        except ValueError:
            return 'Raise ValueError', None
        except TypeError:
            return 'Raise TypeError', None
        if b is None:
            return 'Ok None', None
        return b, (b.ixmin, b.ixmax, b.iymin, b.iymax)

    def eq_res4(term, r, t, opt=False):
        if t is None:
            pat = {'Raise ValueError': 'Raise ValueError => true', 'Raise TypeError': 'Raise TypeError => true',
                   'Ok None': 'Ok None => true'}[r]
            return f'match {term} with {pat} | _ => false end'
        inner = '(a, b, c, d)'
        pat = f'Ok (Some {inner})' if opt else f'Ok {inner}'
        return (f'match {term} with {pat} => (a =? {_z(t[0])})%Z && (b =? {_z(t[1])})%Z && (c =? {_z(t[2])})%Z '
                f'&& (d =? {_z(t[3])})%Z | _ => false end')

    for i in range(n):
        v = [rng.randint(-6, 12) for _ in range(4)]
        r, t = res4(lambda: BoundingBox(*v))
        checks.append((f'init{v}', eq_res4('gen_bbox_init ' + ' '.join(_z(x) for x in v), r, t)))
        f = [dy(-5, 9), 0, dy(-5, 9), 0]
        f[1] = f[0] + rng.choice([-2.0, 0.0, 0.5, dy(0, 7)])
        f[3] = f[2] + rng.choice([0.0, 0.5, dy(0, 7)])
        r, t = res4(lambda: BoundingBox.from_float(*f))
        checks.append((f'from_float{f}', eq_res4('gen_from_float ' + ' '.join(_q(x) for x in f), r, t)))
    boxes = []
    while len(boxes) < n:
        a, c = rng.randint(-8, 10), rng.randint(-8, 10)
        boxes.append(BoundingBox(a, a + rng.randint(0, 7), c, c + rng.randint(0, 7)))
    for i, b in enumerate(boxes):
        bt = ' '.join(_z(x) for x in (b.ixmin, b.ixmax, b.iymin, b.iymax))
        o = boxes[(i * 7 + 3) % n]
        ot = ' '.join(_z(x) for x in (o.ixmin, o.ixmax, o.iymin, o.iymax))
        shp = (rng.randint(-1, 9), rng.randint(0, 9))
        sl, ss = b.get_overlap_slices(shp)

        def sl2(s):
            return 'None' if s is None else \
                f'Some (({_z(s[0].start)}, {_z(s[0].stop)}), ({_z(s[1].start)}, {_z(s[1].stop)}))'
        checks.append((f'slices{b}{shp}',
                       f'slices_eqb (gen_get_overlap_slices {bt} {_z(shp[0])} {_z(shp[1])}) ({sl2(sl)}, {sl2(ss)})'))
        r, t = res4(lambda: b | o)
        checks.append((f'or{b}{o}', eq_res4(f'gen_bbox_or {bt} {ot}', r, t)))
        r, t = res4(lambda: b.union(o))
        checks.append((f'union{b}{o}', eq_res4(f'gen_bbox_union {bt} {ot}', r, t)))
        for nm, call in (('gen_bbox_and', lambda: b & o), ('gen_bbox_intersection', lambda: b.intersection(o))):
            r, t = res4(call)
            checks.append((f'{nm}{b}{o}', eq_res4(f'{nm} {bt} {ot}', r, t, opt=True)))
        checks.append((f'shape{b}', f'(let \'(h, w) := gen_bbox_shape {bt} in (h =? {_z(b.shape[0])})%Z && (w =? {_z(b.shape[1])})%Z)'))
        e = b.extent
        checks.append((f'extent{b}', f'(let \'(a, b, c, d) := gen_bbox_extent {bt} in Qeq_bool a {_q(e[0])} && Qeq_bool b {_q(e[1])} '
                                     f'&& Qeq_bool c {_q(e[2])} && Qeq_bool d {_q(e[3])})'))
        c = b.center
        checks.append((f'center{b}', f'(let \'(y, x) := gen_bbox_center {bt} in Qeq_bool y {_q(c[0])} && Qeq_bool x {_q(c[1])})'))
    for mode in ('center', 'subpixel', 'exact', 'bogus', ''):
        for sub in (-1, 0, 1, 5, 32):
            for rect in (False, True):
                try:
                    u, sp = PixelAperture._translate_mask_mode(mode, sub, rectangle=rect)
                    exp = f'Ok (a, b) => (a =? {_z(u)})%Z && (b =? {_z(sp)})%Z'
                except ValueError:
                    exp = 'Raise ValueError => true'
                checks.append((f'mode{mode, sub, rect}',
                               f'match gen_translate_mask_mode "{mode}"%string {_z(sub)} {"true" if rect else "false"} with {exp} | _ => false end'))
    for i in range(n):
        a = rng.choice([dy(-9, 9, 4), rng.randint(-5, 5) + 0.5, float(rng.randint(-5, 5)), dy(-9, 9, 1024)])
        checks.append((f'round{a}', f'(gen_py2intround {_q(a)} =? {_z(py2intround(a))})%Z'))
        x0, y0 = dy(-4, 4, 2), dy(-4, 4, 2)
        x1, y1 = x0 + rng.choice([0.0, 1.0, 2.0, 4.0]), y0 + rng.choice([0.0, 0.5, 2.0])
        xi, yi = dy(-6, 8, 16), dy(-6, 8, 16)
        w = GriddedPSFModel._calc_bilinear_weights(None, xi, yi, np.array((x0, x1, y0, y1)))
        checks.append((f'bilinear{xi, yi, x0, x1, y0, y1}',
                       f'qlist_eqb (gen_calc_bilinear_weights {_q(xi)} {_q(yi)} {_q(x0)} {_q(x1)} {_q(y0)} {_q(y1)}) '
                       '[' + '; '.join(_q(float(v)) for v in w) + ']'))
        # 1 + step a power of two, so that 1 / (1 + step) is exact in floating point
        sma, step, lin = dy(1, 40, 4), rng.choice([1.0, 3.0, 7.0, 15.0]), rng.random() < 0.5
        g = EllipseGeometry(10.0, 10.0, sma, 0.2, 0.3, astep=step, linear_growth=lin)
        lt = 'true' if lin else 'false'
        checks.append((f'update_sma{sma, step, lin}', f'Qeq_bool (gen_update_sma {_q(sma)} {lt} {_q(step)}) {_q(g.update_sma(step))}'))
        rs = g.reset_sma(step)
        checks.append((f'reset_sma{sma, step, lin}', f'match gen_reset_sma {_q(sma)} {lt} {_q(step)} with Ok (a, b) => '
                                                     f'Qeq_bool a {_q(rs[0])} && Qeq_bool b {_q(rs[1])} | _ => false end'))
        p, npix, ngood = rng.choice([0.0, 25.0, 50.0, 75.0, 100.0]), rng.choice([1, 4, 16, 64, 100]), None
        ngood = rng.choice([0, npix, npix // 2, npix // 4, 3 * npix // 4, rng.randint(0, npix)])
        ns = types.SimpleNamespace(exclude_percentile=p, _box_npixels=np.int64(npix))
        thr = Background2D.__dict__['_good_npixels_threshold'].fget(ns)
        checks.append((f'good_thr{p, npix}', f'Qeq_bool (gen_good_npixels_threshold {_q(p)} {_z(npix)}) {_q(float(thr))}'))
        # the `var` targets: execute the statements' own source text
        env = dict(self=types.SimpleNamespace(_good_npixels_threshold=thr), ngood=np.int64(ngood), np=np)
        for l in stmts_of('gen_box_mask', 'box_mask'):
            exec(l, env)
        checks.append((f'box_mask{p, npix, ngood}',
                       f'Bool.eqb (gen_box_mask {_q(p)} {_z(npix)} {_z(ngood)}) {"true" if bool(env["box_mask"]) else "false"}'))
        nx, ny = rng.randint(1, 9), rng.randint(1, 9)
        xi, yi = rng.choice([0.0, nx - 1.0, dy(-2, 10, 4)]), rng.choice([0.0, ny - 1.0, dy(-2, 10, 4)])
        for file, nm in ((IMG, 'gen_imagepsf_invalid'), (GRID, 'gen_gridded_invalid')):
            env = dict(xi=np.float64(xi), yi=np.float64(yi), nx=nx, ny=ny, np=np)
            for l in stmts_of(nm, 'invalid'):
                exec(l, env)
            checks.append((f'{nm}{nx, ny, xi, yi}', f'Bool.eqb ({nm} {_z(nx)} {_z(ny)} {_q(xi)} {_q(yi)}) '
                                                    f'{"true" if bool(env["invalid"]) else "false"}'))
        osy, osx, ox, oy, x, x_0 = rng.randint(1, 4), rng.randint(1, 4), dy(0, 9, 2), dy(0, 9, 2), dy(-9, 9), dy(-9, 9)
        for file, nm, org in ((IMG, 'gen_imagepsf', '_origin'), (GRID, 'gen_gridded', 'origin')):
            for var in ('xi', 'yi'):
                env = dict(self=types.SimpleNamespace(oversampling=np.array((osy, osx)), **{org: np.array((ox, oy))}),
                           np=np, x=x, y=x, x_0=x_0, y_0=x_0)
                for l in stmts_of(f'{nm}_{var}', var):
                    exec(l, env)
                checks.append((f'{nm}_{var}{osy, osx, ox, oy, x, x_0}',
                               f'Qeq_bool ({nm}_{var} {_z(osy)} {_z(osx)} {_q(ox)} {_q(oy)} {_q(x)} {_q(x_0)}) {_q(float(env[var]))}'))
    body = ('From Coq Require Import ZArith QArith List Bool String.\n'
            'From PV Require Import lib.Cases lib.PyGen gen.Gen_bbox gen.Gen_apcore gen.Gen_round gen.Gen_psf gen.Gen_isophote gen.Gen_bkg.\n'
            'Import ListNotations.\n'
            'Definition z2_eqb (a b : Z * Z) := ((fst a =? fst b) && (snd a =? snd b))%Z.\n'
            'Definition sl_eqb (a b : option ((Z * Z) * (Z * Z))) := match a, b with None, None => true '
            '| Some x, Some y => z2_eqb (fst x) (fst y) && z2_eqb (snd x) (snd y) | _, _ => false end.\n'
            'Definition slices_eqb (a b : option ((Z * Z) * (Z * Z)) * option ((Z * Z) * (Z * Z))) := '
            'sl_eqb (fst a) (fst b) && sl_eqb (snd a) (snd b).\n'
            'Definition qlist_eqb := list_eqb Qeq_bool.\n'
            'Definition checks : list bool :=\n [ ' + '\n ; '.join(c for _, c in checks) + ' ].\n'
            'Eval vm_compute in (bad_indices (fun b => b) checks).\n')
    (coqd / 'diff.v').write_text(body)
    rc, out = coqc(coqd, 'diff.v')
    if rc != 0:
        return len(checks), ['coqc failed: ' + out[-400:]]
    m = re.search(r'=\s*(\[.*?\])\s*:\s*list', out, re.S)
    bad = [int(x) for x in re.findall(r'\d+', m.group(1))]
    return len(checks), [checks[i][0] for i in bad]


# ---------------- (e) fail-closed: constructs outside the subset ----------------
REFUSED = [
    ('while loop', 'def f(a):\n    while a > 0:\n        a -= 1\n    return a\n'),
    ('for over range', 'def f(a):\n    s = 0\n    for i in range(a):\n        s += i\n    return s\n'),
    ('comprehension', 'def f(a):\n    return [a + i for i in (1, 2)]\n'),
    ('lambda', 'def f(a):\n    g = lambda x: x + 1\n    return g(a)\n'),
    ('try/except', 'def f(a):\n    try:\n        return a + 1\n    except ValueError:\n        return 0\n'),
    ('unknown call', 'def f(a):\n    return helper(a)\n'),
    ('global name', 'def f(a):\n    return a + OFFSET\n'),
    ('side effect (print)', 'def f(a):\n    print(a)\n    return a\n'),
    ('attribute write', 'def f(a):\n    a.x = 1\n    return 0\n'),
    ('int() of a float', 'def f(x):\n    return int(x)\n'),
    ('// on floats', 'def f(x):\n    return x // 2\n'),
    ('round()', 'def f(x):\n    return round(x)\n'),
    ('division inside a short-circuit operand', 'def f(a, b):\n    return a > 0 and 1 / b > 2\n'),
    ('`and` on integers (value semantics)', 'def f(a, b):\n    return a and b\n'),
    ('truthiness of an integer', 'def f(a):\n    if a:\n        return 1\n    return 0\n'),
    ('non-literal subscript', 'def f(a, t):\n    return t[a]\n'),
    ('star arguments', 'def f(*a):\n    return 0\n'),
    ('decorator', '@cache\ndef f(a):\n    return a\n'),
    ('string formatting', 'def f(a):\n    return f"{a}"\n'),
    ('with statement', 'def f(a):\n    with ctx():\n        return a\n'),
    ('incompatible return sorts', 'def f(a):\n    if a > 0:\n        return "x"\n    return 1\n'),
    ('raise of an unknown exception', 'def f(a):\n    raise CustomError("x")\n'),
    ('math.sqrt', 'def f(x):\n    return math.sqrt(x)\n'),
    ('slice with a step', 'def f(a):\n    return slice(0, a, 2)\n'),
]


def refused():
    """every snippet must raise Untranslatable; returns the labels that were (wrongly) translated"""
    import ast
    from harness.py2coq import Q, TUP, Translator, Untranslatable, Z
    wrong = []
    for label, src in REFUSED:
        tree = ast.parse(src)
        fdef = tree.body[0]
        sorts = {'a': Z, 'b': Z, 'x': Q, 't': TUP(Z, Z)}
        try:
            Translator('<snippet>', {}, {}).function(fdef, src.splitlines(), 'gen_f', None,
                                                     {k: v for k, v in sorts.items()
                                                      if k in [x.arg for x in fdef.args.args]})
            wrong.append(label)
        except Untranslatable:
            pass
    return wrong


def prepare_coq(d):
    (d / 'lib').mkdir(parents=True, exist_ok=True)
    for vo in list((COQ / 'lib').glob('*.vo')) + list(COQ.glob('C*_Model.vo')) + list(COQ.glob('C*_Proofs*.vo')):
        dst = d / vo.relative_to(COQ)
        if not dst.exists():
            dst.symlink_to(vo)
    for eq in ALL_EQ:
        shutil.copy(COQ / eq, d / eq)


def coqc(d, rel, timeout=600):
    p = subprocess.run(['timeout', str(timeout), 'coqc', '-Q', '.', 'PV', rel], cwd=d, capture_output=True, text=True)
    return p.returncode, (p.stdout + p.stderr)


def run_scenario(idx, sc):
    name, kind, file, old, new, expect = sc
    t0 = time.time()
    root = SCRATCH / f's{idx:02d}'
    if root.exists():
        shutil.rmtree(root)
    repo, coqd = root / 'repo', root / 'coq'
    for f in FILES:
        (repo / f).parent.mkdir(parents=True, exist_ok=True)
        shutil.copy(REPO / f, repo / f)
    if file is not None:
        src = (repo / file).read_text()
        if old.startswith('re:'):
            src2, n = re.subn(old[3:], new, src)
            if n == 0:
                return dict(name=name, kind=kind, ok=False, result='PATTERN not found', detail='', secs=0)
        else:
            if src.count(old) != 1:
                return dict(name=name, kind=kind, ok=False, result=f'PATTERN occurs {src.count(old)} times', detail='', secs=0)
            src2 = src.replace(old, new)
        (repo / file).write_text(src2)
    prepare_coq(coqd)
    env = dict(os.environ, VERIF_REPO=str(repo), PYTHONDONTWRITEBYTECODE='1')
    t1 = time.time()
    p = subprocess.run([sys.executable, '-m', 'harness.translate_all', str(coqd)], cwd=VERIF, env=env,
                       capture_output=True, text=True)
    tgen = time.time() - t1
    untrans = [l for l in p.stdout.splitlines() if 'UNTRANSLATABLE' in l]
    eqs = ALL_EQ if file is None else DEPENDS[file]
    status, times = {}, {}
    for g in sorted((coqd / 'gen').glob('*.v')):
        rc, out = coqc(coqd, f'gen/{g.name}')
        if rc != 0:
            status['gen/' + g.name] = 'GEN-FAIL: ' + out.strip().splitlines()[-1][:100]
    for eq in eqs:
        t2 = time.time()
        rc, out = coqc(coqd, eq)
        times[eq] = round(time.time() - t2, 1)
        if rc == 0:
            status[eq] = 'compiles'
        else:
            err = [l for l in out.splitlines() if l.startswith('File ')]
            thm = ''
            if err:
                try:
                    ln = int(err[-1].split('line ')[1].split(',')[0])
                    text = (coqd / eq).read_text().splitlines()[:ln]
                    for l in reversed(text):
                        if l.startswith(('Theorem', 'Lemma')):
                            thm = l.split()[1]
                            break
                except (IndexError, ValueError):
                    pass
            status[eq] = f'FAILS at {thm or "?"}'
    diff = None
    if kind == 'baseline':
        diff = differential(coqd)
    if kind == 'mutation':
        must_fail = expect or eqs
        ok = all(status[e].startswith('FAILS') for e in must_fail)
    elif kind == 'rewrite':
        allpass = all(status[e] == 'compiles' for e in eqs)
        ok = allpass if expect == 'pass' else True
    else:
        ok = all(status[e] == 'compiles' for e in eqs) and not diff[1]
    return dict(diff=diff, name=name, kind=kind, ok=ok, status=status, times=times, tgen=round(tgen, 2), untrans=untrans,
                expect=expect, secs=round(time.time() - t0, 1))


def main():
    ap = argparse.ArgumentParser()
    ap.add_argument('-j', type=int, default=min(8, os.cpu_count() or 2))
    ap.add_argument('-k', default='')
    ap.add_argument('--keep', action='store_true')
    a = ap.parse_args()
    scen = [('unchanged source', 'baseline', None, None, None, None)] + S
    scen = [(i, s) for i, s in enumerate(scen) if a.k in s[0] or (i == 0 and not a.k)]
    SCRATCH.mkdir(parents=True, exist_ok=True)
    t0 = time.time()
    with cf.ThreadPoolExecutor(max_workers=a.j) as ex:
        res = list(ex.map(lambda t: run_scenario(*t), scen))
    bad = 0
    for kind, title in (('baseline', '(a) unchanged source'), ('mutation', '(b) behaviour-changing mutations: GenEq must FAIL'),
                        ('rewrite', '(c) harmless rewrites: GenEq should still compile')):
        rows = [r for r in res if r['kind'] == kind]
        if not rows:
            continue
        print(f'\n{title}')
        for r in rows:
            if 'status' not in r:
                print(f"  [BAD ] {r['name']}: {r['result']}")
                bad += 1
                continue
            st = '; '.join(f'{k}: {v}' + (f" ({r['times'][k]}s)" if k in r['times'] else '') for k, v in r['status'].items())
            if r['untrans']:
                st += '  {' + '; '.join(u.split('translate: ')[1].split('  [')[0][:110] for u in r['untrans']) + '}'
            tag = 'ok' if r['ok'] else 'BAD'
            if kind == 'rewrite' and r['ok'] and any(v.startswith('FAILS') for v in r['status'].values()):
                tag = 'closed'
            print(f"  [{tag:6s}] {r['name']}\n           -> {st}   [regen {r['tgen']}s]")
            if r.get('diff'):
                print(f"           differential check (real Python functions vs regenerated definitions evaluated in Coq): "
                      f"{r['diff'][0]} cases, {len(r['diff'][1])} disagree {r['diff'][1][:5]}")
            bad += 0 if r['ok'] else 1
    wrong = refused()
    print(f'\n(e) fail-closed: {len(REFUSED)} snippets outside the subset ({", ".join(l for l, _ in REFUSED)}): '
          f'{len(REFUSED) - len(wrong)} refused with Untranslatable, {len(wrong)} wrongly translated {wrong}')
    bad += len(wrong)
    print(f'\n{len(res)} scenarios, {bad} unexpected, wall {round(time.time() - t0, 1)}s')
    if not a.keep:
        shutil.rmtree(SCRATCH, ignore_errors=True)
    return 1 if bad else 0


if __name__ == '__main__':
    sys.exit(main())
