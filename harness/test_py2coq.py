"""Self-test of the translator tie (run by hand):

    cd /verif && PYTHONDONTWRITEBYTECODE=1 /venv/bin/python -m harness.test_py2coq [-j N] [-k substring]

For every scenario a scratch copy of the translated source files (under /tmp/agent_T/selftest, never /repo)
is edited, harness.translate_all regenerates coq/gen/*.v from it, and the generated files plus the committed
CNN_GenEq.v files that depend on the edited source are compiled in a scratch Coq directory (the .vo files of
the hand-written models are linked from /verif/coq, which must have been built: bin/setup).
  (a) unchanged source            -> every GenEq file must compile
  (b) behaviour-changing mutation -> the GenEq files listed for it must FAIL to compile
  (c) harmless rewrite            -> should still compile; the ones marked 'closed' are known to fail closed
  (d) differential check of the translator itself (in the baseline scenario): the real functions of $VERIF_REPO are run
      on seeded inputs and Coq evaluates the regenerated definitions on the same inputs -- they must agree
  (e) fail-closed: snippets with constructs outside the subset must raise Untranslatable
Prints a table and exits 1 if an expectation is not met.
"""
import argparse
import concurrent.futures as cf
import os
import re
import shutil
import subprocess
import sys
import time
from pathlib import Path

VERIF = Path(__file__).resolve().parent.parent
COQ = VERIF / 'coq'
REPO = Path(os.environ.get('VERIF_REPO', '/repo'))
SCRATCH = Path('/tmp/agent_T/selftest')

BBOX = 'photutils/aperture/bounding_box.py'
CORE = 'photutils/aperture/core.py'
RND = 'photutils/utils/_round.py'
GRID = 'photutils/psf/gridded_models.py'
IMG = 'photutils/psf/image_models.py'
ISO = 'photutils/isophote/geometry.py'
BKG = 'photutils/background/background_2d.py'
DCORE = 'photutils/detection/core.py'
PEAK = 'photutils/detection/peakfinder.py'
SEG = 'photutils/segmentation/core.py'
SUTIL = 'photutils/segmentation/utils.py'
SDET = 'photutils/segmentation/detect.py'
PPHOT = 'photutils/psf/photometry.py'
CIRC = 'photutils/aperture/circle.py'
ELL = 'photutils/aperture/ellipse.py'
RECT = 'photutils/aperture/rectangle.py'
STATS = 'photutils/aperture/stats.py'
CUT = 'photutils/utils/cutouts.py'
DIMG = 'photutils/datasets/images.py'
PROF = 'photutils/profiles/core.py'
RPROF = 'photutils/profiles/radial_profile.py'
DEBL = 'photutils/segmentation/deblend.py'
CAT = 'photutils/segmentation/catalog.py'
FILES = [BBOX, CORE, RND, GRID, IMG, ISO, BKG, DCORE, PEAK, SEG, SUTIL, SDET, PPHOT, CIRC, ELL, RECT, STATS,
         CUT, DIMG, PROF, RPROF, DEBL, CAT]
DEPENDS = {BBOX: ['C01_GenEq.v', 'C02_GenEq.v', 'C16_GenEq.v'], CORE: ['C01_GenEq.v', 'C01_Shape_GenEq.v'], RND: ['C17_GenEq.v'],
           GRID: ['C13_GenEq.v'], IMG: ['C13_GenEq.v'], ISO: ['C20_GenEq.v'], BKG: ['C11_GenEq.v'],
           DCORE: ['C14_GenEq.v'], PEAK: ['C14_GenEq.v'], SEG: ['C05_GenEq.v'], SUTIL: ['C04_GenEq.v'],
           SDET: ['C04_GenEq.v'], PPHOT: ['C12_GenEq.v'], CIRC: ['C01_Shape_GenEq.v'], ELL: ['C01_Shape_GenEq.v'],
           RECT: ['C01_Shape_GenEq.v'], STATS: ['C16_GenEq.v'], CUT: ['C18_GenEq.v'], DIMG: ['C18_GenEq.v'],
           PROF: ['C19_GenEq.v'], RPROF: ['C19_GenEq.v'], DEBL: ['C06_GenEq.v'], CAT: ['C07_GenEq.v', 'C08_GenEq.v']}
ALL_EQ = ['C01_GenEq.v', 'C01_Shape_GenEq.v', 'C02_GenEq.v', 'C04_GenEq.v', 'C05_GenEq.v', 'C06_GenEq.v', 'C07_GenEq.v',
          'C08_GenEq.v', 'C11_GenEq.v', 'C12_GenEq.v', 'C18_GenEq.v', 'C19_GenEq.v',
          'C13_GenEq.v', 'C14_GenEq.v', 'C16_GenEq.v', 'C17_GenEq.v', 'C20_GenEq.v']

# (name, kind, file, old, new, expectation)
#   kind 'mutation': expectation = list of GenEq files that must fail (default: all that depend on the file)
#   kind 'rewrite' : expectation = 'pass' or 'closed' (known to fail closed)
S = []


def mut(name, file, old, new, fail=None):
    S.append((name, 'mutation', file, old, new, fail))


def rew(name, file, old, new, expect='pass'):
    S.append((name, 'rewrite', file, old, new, expect))


# ---------------- (b) behaviour-changing mutations ----------------
mut('overlap: `xmin >= shape[1]` -> `>`', BBOX, 'if (xmin >= shape[1] or', 'if (xmin > shape[1] or')
mut('overlap: `ymax <= 0` -> `< 0`', BBOX, 'xmax <= 0 or ymax <= 0', 'xmax <= 0 or ymax < 0')
mut('overlap: zero-size clause dropped (reverts fix C01-1)', BBOX,
    'xmax <= 0 or ymax <= 0\n                or shape[0] <= 0 or shape[1] <= 0):', 'xmax <= 0 or ymax <= 0):',
    fail=['C01_GenEq.v', 'C02_GenEq.v'])    # C16's own model copy has no zero-size clause: its tie assumes 0 < ny, nx
mut('overlap: small slice `shape[0] - ymin` -> `shape[0]`', BBOX,
    'min(ymax - ymin, shape[0] - ymin)', 'min(ymax - ymin, shape[0])')
mut('overlap: large slice max/min swapped', BBOX, 'slice(max(ymin, 0), min(ymax, shape[0]))',
    'slice(min(ymin, 0), max(ymax, shape[0]))')
mut('overlap: wrong field (xmin = self.iymin)', BBOX, 'xmin = self.ixmin\n', 'xmin = self.iymin\n')
mut('from_float: floor -> ceil', BBOX, 'ixmin = math.floor(xmin + 0.5)', 'ixmin = math.ceil(xmin + 0.5)',
    fail=['C01_GenEq.v'])
mut('from_float: `+ 0.5` dropped', BBOX, 'iymax = math.ceil(ymax + 0.5)', 'iymax = math.ceil(ymax)', fail=['C01_GenEq.v'])
mut('__init__: `ixmin > ixmax` -> `>=`', BBOX, 'if ixmin > ixmax:', 'if ixmin >= ixmax:', fail=['C01_GenEq.v'])
mut('union: min -> max', BBOX, 'ixmin = min((self.ixmin, other.ixmin))', 'ixmin = max((self.ixmin, other.ixmin))',
    fail=['C01_GenEq.v'])
mut('intersection: wrong field (other.ixmax for iymax)', BBOX, 'iymax = min(self.iymax, other.iymax)',
    'iymax = min(self.iymax, other.ixmax)', fail=['C01_GenEq.v'])
mut('intersection: `<` -> `<=` in the emptiness test', BBOX, 'if ixmax < ixmin or iymax < iymin:',
    'if ixmax <= ixmin or iymax < iymin:', fail=['C01_GenEq.v'])
mut('shape: (ny, nx) swapped', BBOX, 'return self.iymax - self.iymin, self.ixmax - self.ixmin',
    'return self.ixmax - self.ixmin, self.iymax - self.iymin', fail=['C01_GenEq.v', 'C02_GenEq.v'])
mut('extent: `- 0.5` -> `+ 0.5` on ixmax', BBOX, 'return (self.ixmin - 0.5, self.ixmax - 0.5,',
    'return (self.ixmin - 0.5, self.ixmax + 0.5,', fail=['C01_GenEq.v'])
mut('mask mode: rectangle exact -> 16 subpixels', CORE, "            subpixels = 32\n", "            subpixels = 16\n", fail=['C01_GenEq.v'])
mut('mask mode: `subpixels <= 0` -> `< 0`', CORE, 'or subpixels <= 0)):', 'or subpixels < 0)):', fail=['C01_GenEq.v'])
mut('mask mode: center keeps the caller\'s subpixels', CORE,
    "            use_exact = 0\n            subpixels = 1\n        elif mode == 'subpixel':",
    "            use_exact = 0\n        elif mode == 'subpixel':", fail=['C01_GenEq.v'])
mut('py2intround: floor <-> ceil', RND, 'np.where(data >= 0, np.floor(data + 0.5),\n                     np.ceil(data - 0.5))',
    'np.where(data >= 0, np.ceil(data + 0.5),\n                     np.floor(data - 0.5))')
mut('py2intround: `- 0.5` -> `+ 0.5`', RND, 'np.ceil(data - 0.5)', 'np.ceil(data + 0.5)')
mut('bilinear: weights of the two x ends swapped', GRID, 'return np.array([(x1 - xi) * (y1 - yi), (xi - x0) * (y1 - yi),',
    'return np.array([(xi - x0) * (y1 - yi), (x1 - xi) * (y1 - yi),')
mut('bilinear: zero-width guard removed (reverts fix C13-1)', GRID, '        if x1 == x0:\n            x1 = x0 + 1.0\n', '')
mut('bilinear: clip dropped', GRID, '        xi = np.clip(xi, x0, x1)\n', '')
mut('ImagePSF: xi uses oversampling[0] (wrong axis)', IMG, 'xi = self.oversampling[1] * (np.asarray(x, dtype=float) - x_0)',
    'xi = self.oversampling[0] * (np.asarray(x, dtype=float) - x_0)')
mut('ImagePSF: invalid `xi > nx - 1` -> `>=`', IMG, 'invalid = (xi < 0) | (xi > nx - 1)', 'invalid = (xi < 0) | (xi >= nx - 1)')
mut('GriddedPSF: invalid `yi > ny - 1` -> `yi > ny`', GRID, '(yi < 0) | (yi > ny - 1)', '(yi < 0) | (yi > ny)')
mut('GriddedPSF: yi += origin[0] (wrong component)', GRID, 'yi += self.origin[1]', 'yi += self.origin[0]')
mut('update_sma: `1.0 + step` -> `1.0 - step`', ISO, 'sma = self.sma * (1.0 + step)', 'sma = self.sma * (1.0 - step)')
mut('reset_sma: `step = aux - 1.0` -> `1.0 - aux`', ISO, 'step = aux - 1.0', 'step = 1.0 - aux')
mut('reset_sma: linear `step = -step` dropped', ISO, '            sma = self.sma - step\n            step = -step\n',
    '            sma = self.sma - step\n')
mut('bkg: `ngood <` -> `<=` (the unrepaired rule)', BKG, 'box_mask = (ngood < self._good_npixels_threshold)',
    'box_mask = (ngood <= self._good_npixels_threshold)')
mut('bkg: `/ 100.0` -> `/ 10.0`', BKG, 'self.exclude_percentile / 100.0', 'self.exclude_percentile / 10.0')
mut('bkg: `| (ngood == 0)` dropped', BKG, 'box_mask = (ngood < self._good_npixels_threshold) | (ngood == 0)',
    'box_mask = (ngood < self._good_npixels_threshold)')
mut('untranslatable construct (while loop) in get_overlap_slices', BBOX, '        xmin = self.ixmin\n        xmax = self.ixmax\n',
    '        xmin = self.ixmin\n        while xmin < 0:\n            xmin += 1\n        xmax = self.ixmax\n')
mut('side effect (print) in from_float', BBOX, '        ixmin = math.floor(xmin + 0.5)\n',
    '        print(xmin)\n        ixmin = math.floor(xmin + 0.5)\n', fail=['C01_GenEq.v'])

# ---- round 2: C14 ----
mut('find_stars border: `(shape[0] - 1) // 2` -> `shape[0] // 2`', DCORE, 'yborder = (kernel.shape[0] - 1) // 2', 'yborder = kernel.shape[0] // 2')
mut('find_stars border: xborder from the wrong axis', DCORE, 'xborder = (kernel.shape[1] - 1) // 2', 'xborder = (kernel.shape[0] - 1) // 2')
mut('find_stars border: (yborder, xborder) swapped', DCORE, 'border_width = (yborder, xborder)', 'border_width = (xborder, yborder)')
mut('find_stars border (kernel object): yborder = kernel.xradius', DCORE, 'yborder = kernel.yradius', 'yborder = kernel.xradius')
mut('find_stars border (kernel object): xradius + 1', DCORE, 'xborder = kernel.xradius', 'xborder = kernel.xradius + 1')
mut('find_stars footprint: size = int(ms) + 1', DCORE, 'size = int(min_separation)', 'size = int(min_separation) + 1')
mut('find_stars footprint: size = ceil(ms)', DCORE, 'size = int(min_separation)', 'size = math.ceil(min_separation)')
mut('find_stars footprint: `<=` -> `<` (open disk)', DCORE, '(xx**2 + yy**2) <= min_separation**2', '(xx**2 + yy**2) < min_separation**2')
mut('find_stars footprint: yy**2 -> yy', DCORE, '(xx**2 + yy**2) <= min_separation**2', '(xx**2 + yy) <= min_separation**2')
mut('find_peaks border: `if ny > 0` -> `>= 0` (the [-0:] pitfall)', PEAK, '        if ny > 0:\n', '        if ny >= 0:\n')
mut('find_peaks border: `[-ny:, :]` -> `[-ny + 1:, :]`', PEAK, 'peak_goodmask[-ny:, :] = False', 'peak_goodmask[-ny + 1:, :] = False')
mut('find_peaks border: `[:, :nx]` -> `[:nx, :]` (wrong axis)', PEAK, 'peak_goodmask[:, :nx] = False', 'peak_goodmask[:nx, :] = False')
# ---- C05 ----
mut('remove_border_labels: `[n - w:]` -> `[-w:]` (reverts fix C05-1)', SEG,
    'border_mask[border_mask.shape[0] - border_width:] = True', 'border_mask[-border_width:] = True')
mut('remove_border_labels: `[:w]` -> `[:w + 1]`', SEG, 'border_mask[:border_width] = True', 'border_mask[:border_width + 1] = True')
mut('remove_border_labels guard: `>=` -> `>`', SEG, 'if border_width >= min(self.shape) / 2:', 'if border_width > min(self.shape) / 2:')
mut('remove_border_labels guard: min -> max', SEG, 'if border_width >= min(self.shape) / 2:', 'if border_width >= max(self.shape) / 2:')
mut('reassign_labels guard: `< 0` -> `<= 0`', SEG, '        if new_label < 0:\n', '        if new_label <= 0:\n')
mut('reassign_labels guard: `< 0` -> `< -1`', SEG, '        if new_label < 0:\n', '        if new_label < -1:\n')
mut('relabel_consecutive: `start_label <= 0` -> `< 0`', SEG, '        if start_label <= 0:\n', '        if start_label < 0:\n')
mut('relabel_consecutive: `start_label <= 0` -> `<= 1`', SEG, '        if start_label <= 0:\n', '        if start_label <= 1:\n')
mut('relabel_consecutive overflow: `- 1` dropped', SEG, 'if start_label + self.nlabels - 1 > np.iinfo', 'if start_label + self.nlabels > np.iinfo')
mut('relabel_consecutive overflow: `>` -> `>=`', SEG, 'self.nlabels - 1 > np.iinfo(self.data.dtype).max', 'self.nlabels - 1 >= np.iinfo(self.data.dtype).max')
mut('relabel_consecutive early return: `== start_label` -> `>=`', SEG, 'if ((self.labels[0] == start_label)', 'if ((self.labels[0] >= start_label)')
mut('relabel_consecutive early return: `+ 1` dropped', SEG, 'and (self.labels[-1] - self.labels[0] + 1) == self.nlabels):', 'and (self.labels[-1] - self.labels[0]) == self.nlabels):')
# ---- C12 ----
mut('flags bit 1: `<` -> `<=`', PPHOT, "if row['npixfit'] < np.prod(self.fit_shape):", "if row['npixfit'] <= np.prod(self.fit_shape):")
mut('flags bit 2: x compared with shape[0]', PPHOT, 'or row[xcolname] > shape[1] or row[ycolname] > shape[0]):', 'or row[xcolname] > shape[0] or row[ycolname] > shape[0]):')
mut('flags bit 4: `<= 0` -> `< 0`', PPHOT, 'if row[fluxcolname] <= 0:', 'if row[fluxcolname] < 0:')
mut('flags bit 2 adds 3', PPHOT, '                flags[index] += 2\n', '                flags[index] += 3\n')
mut('invalid positions: `max_idx <= 0` -> `< 0`', PPHOT, 'np.any(max_idx <= 0, axis=1)', 'np.any(max_idx < 0, axis=1)')
mut('invalid positions: ceil -> floor for min_idx', PPHOT, 'min_idx = np.ceil(positions - delta)', 'min_idx = np.floor(positions - delta)')
mut('invalid positions: delta = fit_shape (not half)', PPHOT, 'delta = self.fit_shape / 2', 'delta = self.fit_shape / 1')
# ---- C04 ----
mut('binary structure: cross gets a corner', SUTIL, '((0, 1, 0), (1, 1, 1), (0, 1, 0))', '((1, 1, 0), (1, 1, 1), (0, 1, 0))')
mut('binary structure: connectivity 8 -> 6', SUTIL, 'elif connectivity == 8:', 'elif connectivity == 6:')
mut('detect: `data > threshold` -> `>=`', SDET, 'segment_img = data > threshold', 'segment_img = data >= threshold')
mut('detect: `&= inverse_mask` -> `|=`', SDET, 'segment_img &= inverse_mask', 'segment_img |= inverse_mask')
mut('detect: `count < npixels` -> `<=`', SDET, 'if np.count_nonzero(segment_mask) < npixels:', 'if np.count_nonzero(segment_mask) <= npixels:')
mut('detect: `count < npixels - 1`', SDET, 'if np.count_nonzero(segment_mask) < npixels:', 'if np.count_nonzero(segment_mask) < npixels - 1:')
mut('detect_sources: `npixels <= 0` -> `< 0`', SDET, 'if (npixels <= 0) or (int(npixels) != npixels):', 'if (npixels < 0) or (int(npixels) != npixels):')
mut('detect_sources: `int(npixels) != npixels` -> `==`', SDET, 'if (npixels <= 0) or (int(npixels) != npixels):', 'if (npixels <= 0) or (int(npixels) == npixels):')
# ---- C01 part 2 ----
mut('centered_edges: `- 0.5` -> `+ 0.5` in xmin', CORE, 'xmin = bbox.ixmin - 0.5 - position[0]', 'xmin = bbox.ixmin + 0.5 - position[0]', fail=['C01_Shape_GenEq.v'])
mut('centered_edges: ymax uses position[0]', CORE, 'ymax = bbox.iymax - 0.5 - position[1]', 'ymax = bbox.iymax - 0.5 - position[0]', fail=['C01_Shape_GenEq.v'])
mut('circle extents: (r, 2r)', CIRC, '        return self.r, self.r\n', '        return self.r, 2 * self.r\n')
mut('circle extents: (r + 1, r)', CIRC, '        return self.r, self.r\n', '        return self.r + 1, self.r\n')
mut('circular annulus extents: r_out / 2', CIRC, 'return self.r_out, self.r_out', 'return self.r_out, self.r_out / 2')
mut('circular annulus extents: inner radius (undeclared field -> untranslatable)', CIRC, 'return self.r_out, self.r_out', 'return self.r_in, self.r_out')
mut('ellipse extents: semiminor_x uses cos', ELL, 'semiminor_x = semiminor_axis * -sin_theta', 'semiminor_x = semiminor_axis * cos_theta')
mut('ellipse extents: x_extent mixes semiminor_y', ELL, 'x_extent = np.sqrt(semimajor_x**2 + semiminor_x**2)', 'x_extent = np.sqrt(semimajor_x**2 + semiminor_y**2)')
mut('rectangle extents: half_width = width (not halved)', RECT, 'cos_theta = math.cos(theta_rad)\n        x_extent1 = abs(',
    'cos_theta = math.cos(theta_rad)\n        half_width = width\n        x_extent1 = abs(')
mut('rectangle extents: max -> min', RECT, 'x_extent = max(x_extent1, x_extent2)', 'x_extent = min(x_extent1, x_extent2)')
# ---- C16 ----
mut('centroid origin: maximum -> minimum', STATS, 'origin = np.transpose((np.maximum(self.bbox_xmin, 0),', 'origin = np.transpose((np.minimum(self.bbox_xmin, 0),')
mut('centroid origin: y not clipped (reverts fix C16-1)', STATS, 'np.maximum(self.bbox_ymin, 0)))', 'self.bbox_ymin))')

# ---- round 3: C18 ----
mut('overlap patch: `== 0` -> `< 0` (zero-size slices pass)', CUT, 'if slc_lg[i].stop - slc_lg[i].start == 0:', 'if slc_lg[i].stop - slc_lg[i].start < 0:')
mut('overlap patch: only axis 0 checked', CUT, '    for i in (0, 1):\n', '    for i in (0, 0):\n')
mut('overlap patch: returns (slc_sm, slc_lg)', CUT, '    return slc_lg, slc_sm\n', '    return slc_sm, slc_lg\n')
mut('mod_shape: bbox used although model_shape given (branches swapped)', DIMG, '        elif model_shape is None:', '        elif model_shape is not None:')
mut('mod_shape: variable_shape ignored', DIMG, '        if variable_shape:\n            mod_shape = model_shape[i]', '        if False:\n            mod_shape = model_shape[i]')
mut('shape_from_bbox: ceil -> floor', DIMG, 'return (int(np.ceil(bbox[0][1] - bbox[0][0])),', 'return (int(np.floor(bbox[0][1] - bbox[0][0])),')
mut('shape_from_bbox: x extent from the y interval', DIMG, 'int(np.ceil(bbox[1][1] - bbox[1][0])))', 'int(np.ceil(bbox[0][1] - bbox[1][0])))')
mut('discretize ranges: x_range from slc_lg[0]', DIMG, 'x_range = (slc_lg[1].start, slc_lg[1].stop)', 'x_range = (slc_lg[0].start, slc_lg[1].stop)')
mut('discretize ranges: y_range stop + 1', DIMG, 'y_range = (slc_lg[0].start, slc_lg[0].stop)', 'y_range = (slc_lg[0].start, slc_lg[0].stop + 1)')
# ---- C19 ----
mut('normalize: `== 0` -> `<= 0`', PROF, 'if normalization == 0 or not np.isfinite(normalization):', 'if normalization <= 0 or not np.isfinite(normalization):')
mut('normalize: normalization_value set instead of accumulated', PROF, 'self.normalization_value *= normalization', 'self.normalization_value = normalization')
mut('normalize: profile_error multiplied', PROF, "self.__dict__['profile_error'] = self.profile_error / normalization", "self.__dict__['profile_error'] = self.profile_error * normalization")
mut('unnormalize: normalization_value not reset', PROF, '* self.normalization_value)\n        self.normalization_value = 1.0\n',
    '* self.normalization_value)\n        self.normalization_value = self.normalization_value\n')
mut('unnormalize: profile divided', PROF, "self.__dict__['profile'] = self.profile * self.normalization_value", "self.__dict__['profile'] = self.profile / self.normalization_value")
mut('zero radius: `<= 0.0` -> `< 0.0`', PROF, '            if radius <= 0.0:', '            if radius < 0.0:')
mut('zero-radius photometry: area 1.0', PROF, '                area = 0.0\n', '                area = 1.0\n')
mut('zero-radius photometry: `is None` -> `is not None`', PROF, '            if aperture is None:\n                flux, fluxerr', '            if aperture is not None:\n                flux, fluxerr')
mut('radial profile: area / flux', RPROF, '            return self._flux / self.area', '            return self.area / self._flux')
mut('radial profile_error: not divided by area', RPROF, '            return self._fluxerr / self.area', '            return self._fluxerr * 1.0')
# ---- C06 ----
mut('deblend: `nlevels < 1` -> `<= 1`', DEBL, '    if nlevels < 1:', '    if nlevels <= 1:')
mut('deblend: `contrast > 1` -> `>= 1`', DEBL, '    if contrast < 0 or contrast > 1:', '    if contrast < 0 or contrast >= 1:')
mut('deblend: `contrast == 1` -> `== 0`', DEBL, '    if contrast == 1:  # no deblending', '    if contrast == 0:  # no deblending')
mut('deblend: mode list loses sinh', DEBL, "    if mode not in ('exponential', 'linear', 'sinh'):", "    if mode not in ('exponential', 'linear'):")
mut('deblend: `>= npixels * 2` -> `> npixels * 2`', DEBL, '            >= (npixels * 2))', '            > (npixels * 2))')
mut('deblend: `npixels * 2` -> `npixels`', DEBL, '            >= (npixels * 2))', '            >= (npixels * 1))')
mut('deblend: serial max_label += len + 1', DEBL, '                max_label += len(new_labels)\n\n    else:', '                max_label += len(new_labels) + 1\n\n    else:')
mut('deblend: parallel max_label not advanced by len', DEBL, '                max_label += len(new_labels)\n\n    if max_label >', '                max_label += 1\n\n    if max_label >')
mut('deblend: overflow `>` -> `>=`', DEBL, '    if max_label > np.iinfo(segm_deblended.dtype).max:', '    if max_label >= np.iinfo(segm_deblended.dtype).max:')
mut('relabel map: `len(labels) == 0` -> `== 1`', DEBL, '    if len(labels) == 0:', '    if len(labels) == 1:')
mut('relabel map: consecutive test without `+ 1`', DEBL, 'and (labels[-1] - start_label + 1) == len(labels)):', 'and (labels[-1] - start_label) == len(labels)):')
mut('deblend_source: single-marker test `== 1` -> `<= 2`', DEBL, '        if len(_get_labels(markers)) == 1:  # no deblending', '        if len(_get_labels(markers)) <= 2:  # no deblending')
# ---- C08 ----
mut('getitem: scalar catalogs not rejected', CAT, "        if self.isscalar:\n            raise TypeError(f'A scalar", "        if not self.isscalar:\n            raise TypeError(f'A scalar", fail=['C08_GenEq.v'])
mut('getitem keys: `|` -> `&` (only keys that are both lazy and extra)', CAT, '& (set(self._lazyproperties) | set(self._extra_properties)))', '& (set(self._lazyproperties) & set(self._extra_properties)))', fail=['C08_GenEq.v'])
mut('getitem keys: __dict__ membership dropped', CAT, 'keys = (set(self.__dict__.keys())\n                & (set(self._lazyproperties)', 'keys = (set(self._lazyproperties)\n                & (set(self._lazyproperties)', fail=['C08_GenEq.v'])
mut('getitem value form: `and` -> `or`', CAT, "if newcls.isscalar and key.startswith('_'):", "if newcls.isscalar or key.startswith('_'):", fail=['C08_GenEq.v'])
mut('getitem value form: ndarray branch gets the list form', CAT, '                        val = value[:, np.newaxis][index]', '                        val = [value[index]]', fail=['C08_GenEq.v'])
# ---- C07 ----
mut('cutout_centroid: x and y moments swapped', CAT, 'ycentroid = moments[:, 1, 0] / moments[:, 0, 0]', 'ycentroid = moments[:, 0, 1] / moments[:, 0, 0]', fail=['C07_GenEq.v'])
mut('cutout_centroid: returns (y, x)', CAT, '        return np.transpose((xcentroid, ycentroid))', '        return np.transpose((ycentroid, xcentroid))', fail=['C07_GenEq.v'])
mut('centroid: origin (ymin, xmin)', CAT, 'origin = np.transpose((self.bbox_xmin, self.bbox_ymin))\n        return self.cutout_centroid + origin',
    'origin = np.transpose((self.bbox_ymin, self.bbox_xmin))\n        return self.cutout_centroid + origin', fail=['C07_GenEq.v'])
mut('centroid: origin subtracted', CAT, '        return self.cutout_centroid + origin', '        return self.cutout_centroid - origin', fail=['C07_GenEq.v'])
mut('minval_index: both coordinates use slc[0]', CAT, "re:out\\.append\\(\\(idx\\[0\\] \\+ slc\\[0\\]\\.start, idx\\[1\\] \\+ slc\\[1\\]\\.start\\)\\)",
    'out.append((idx[0] + slc[0].start, idx[1] + slc[0].start))', fail=['C07_GenEq.v'])
mut('covariance: delta = 1/10', CAT, '        delta = 1.0 / 12\n', '        delta = 1.0 / 10\n', fail=['C07_GenEq.v'])
mut('covariance: delta2 = delta', CAT, '        delta2 = delta**2\n', '        delta2 = delta\n', fail=['C07_GenEq.v'])

# ---------------- (c) harmless rewrites ----------------
rew('overlap: disjuncts reordered', BBOX,
    'if (xmin >= shape[1] or ymin >= shape[0] or xmax <= 0 or ymax <= 0\n                or shape[0] <= 0 or shape[1] <= 0):',
    'if (shape[1] <= 0 or ymax <= 0 or xmin >= shape[1] or shape[0] <= 0\n                or xmax <= 0 or ymin >= shape[0]):')
rew('overlap: `a >= b` written `not a < b`, `xmax <= 0` written `0 >= xmax`', BBOX,
    'if (xmin >= shape[1] or ymin >= shape[0] or xmax <= 0', 'if (not xmin < shape[1] or not (ymin < shape[0]) or 0 >= xmax')
rew('overlap: shape unpacked into new locals ny_, nx_', BBOX,
    '        ymax = self.iymax\n\n        if (xmin >= shape[1] or ymin >= shape[0] or xmax <= 0 or ymax <= 0\n',
    '        ymax = self.iymax\n        ny_, nx_ = shape\n\n        if (xmin >= nx_ or ymin >= ny_ or xmax <= 0 or ymax <= 0\n')
rew('locals/parameters renamed everywhere (xmin -> x_lo, ymax -> y_hi)', BBOX, 're:\\b(xmin|ymax)\\b',
    lambda m: {'xmin': 'x_lo', 'ymax': 'y_hi'}[m.group(1)])
rew('overlap: extra parentheses, max/min argument order, early-return turned into if/else', BBOX,
    '        slices_large = (slice(max(ymin, 0), min(ymax, shape[0])),',
    '        slices_large = (slice(max(0, (ymin)), min(shape[0], ymax)),')
rew('overlap: the fields read directly (no xmin/xmax/ymin/ymax locals)', BBOX,
    '        slices_small = (slice(max(-ymin, 0),\n                              min(ymax - ymin, shape[0] - ymin)),',
    '        slices_small = (slice(max(-self.iymin, 0),\n                              min(self.iymax - self.iymin, shape[0] - self.iymin)),')
rew('from_float: `0.5 + xmin`, `ymax + 1/2`', BBOX, 'ixmin = math.floor(xmin + 0.5)', 'ixmin = math.floor(0.5 + xmin)')
rew('__init__: the two range checks swapped', BBOX,
    "        if ixmin > ixmax:\n            raise ValueError('ixmin must be <= ixmax')\n        if iymin > iymax:\n            raise ValueError('iymin must be <= iymax')\n",
    "        if iymin > iymax:\n            raise ValueError('iymin must be <= iymax')\n        if not ixmin <= ixmax:\n            raise ValueError('ixmin must be <= ixmax')\n")
rew('union: builtin min/max with two arguments', BBOX, 'ixmin = min((self.ixmin, other.ixmin))', 'ixmin = min(other.ixmin, self.ixmin)')
rew('intersection: disjuncts swapped, explicit else', BBOX, 'if ixmax < ixmin or iymax < iymin:', 'if iymax < iymin or ixmin > ixmax:')
rew('docstring edited only', BBOX, 'def get_overlap_slices(self, shape):\n        """',
    'def get_overlap_slices(self, shape):\n        """(edited docstring) ')
rew('mask mode: final `elif mode == \'exact\'` -> `else`', CORE, "        elif mode == 'exact':\n            use_exact = 1",
    "        else:\n            use_exact = 1")
rew('mask mode: membership test as a chain of !=', CORE, "if mode not in ('center', 'subpixel', 'exact'):",
    "if mode != 'center' and mode != 'subpixel' and mode != 'exact':")
rew('py2intround: branches swapped under `data < 0`', RND,
    'np.where(data >= 0, np.floor(data + 0.5),\n                     np.ceil(data - 0.5))',
    'np.where(data < 0, np.ceil(data - 0.5),\n                     np.floor(0.5 + data))')
rew('py2intround: `data >= 0` -> `data > 0` (same value at 0)', RND, 'np.where(data >= 0,', 'np.where(data > 0,', 'closed')
rew('bilinear: products commuted, norm commuted', GRID, 'norm = (x1 - x0) * (y1 - y0)', 'norm = (y1 - y0) * (x1 - x0)')
rew('bilinear: clip written with min/max', GRID, 'xi = np.clip(xi, x0, x1)', 'xi = min(max(xi, x0), x1)')
rew('ImagePSF: invalid disjuncts reordered, `xi > nx - 1` as `nx - 1 < xi`', IMG,
    'invalid = (xi < 0) | (xi > nx - 1) | (yi < 0) | (yi > ny - 1)', 'invalid = (yi > ny - 1) | (yi < 0) | (nx - 1 < xi) | (xi < 0)')
rew('ImagePSF: xi in one expression', IMG, 'xi = self.oversampling[1] * (np.asarray(x, dtype=float) - x_0)',
    'xi = (np.asarray(x, dtype=float) - x_0) * self.oversampling[1] + 0.0')
rew('update_sma: `(step + 1.0) * self.sma`', ISO, 'sma = self.sma * (1.0 + step)', 'sma = (step + 1.0) * self.sma')
rew('reset_sma: `sma = self.sma / (1.0 + step)`', ISO, 'sma = self.sma * aux', 'sma = self.sma / (1.0 + step)')
rew('bkg: disjuncts swapped, threshold factors commuted', BKG, 'box_mask = (ngood < self._good_npixels_threshold) | (ngood == 0)',
    'box_mask = (0 == ngood) | (self._good_npixels_threshold > ngood)')
rew('bkg: threshold `npix * (1 - p / 100)`', BKG, 'return (1 - (self.exclude_percentile / 100.0)) * self._box_npixels',
    'return self._box_npixels * (1.0 - self.exclude_percentile / 100.0)')


# ---------------- (d) differential check of the translator itself ----------------
def _z(n):
    n = int(n)
    return f'({n})%Z' if n < 0 else f'{n}%Z'


def _q(x):
    from fractions import Fraction
    fr = Fraction(x)
    return f'({fr.numerator} # {fr.denominator})%Q'


def _zt(t):
    return '(' + ', '.join(_z(v) for v in t) + ')'


def math_mod():
    import math
    return math


def differential(coqd, seed=20261001, n=40):
    """Run the REAL functions of $VERIF_REPO on seeded inputs (dyadic floats, so float arithmetic is exact) and let
    Coq evaluate the regenerated definitions on the same inputs; returns (number of checks, failing labels)."""
    import random
    import types
    sys.path.insert(0, str(REPO))
    import warnings
    warnings.simplefilter('ignore')
    import numpy as np
    from photutils.aperture.bounding_box import BoundingBox
    from photutils.aperture.core import PixelAperture
    from photutils.background import Background2D
    from photutils.isophote.geometry import EllipseGeometry
    from photutils.psf import GriddedPSFModel
    from photutils.utils._round import py2intround
    rng = random.Random(seed)
    checks = []          # (label, Coq bool term)
    from harness import translate_all
    os.environ['VERIF_REPO'] = str(REPO)
    translate_all.generate_all()
    spans = {name: (file, span) for _, name, st, file, span, _ in translate_all.LAST_REPORT if st == 'ok'}

    def stmts_of(gen_name, var):
        """the source lines of the `var` target gen_name (statements assigning var inside its span)"""
        file, (lo, hi) = spans[gen_name]
        lines = (REPO / file).read_text().splitlines()[lo - 1:hi]
        return [l.strip() for l in lines if l.strip().startswith((f'{var} = ', f'{var} += '))]

    def dy(lo, hi, den=8):
        return rng.randint(lo * den, hi * den) / den

    def res4(call):
        try:
            b = call()
        except ValueError:
            return 'Raise ValueError', None
        except TypeError:
            return 'Raise TypeError', None
        if b is None:
            return 'Ok None', None
        return b, (b.ixmin, b.ixmax, b.iymin, b.iymax)

    def eq_res4(term, r, t, opt=False):
        if t is None:
            pat = {'Raise ValueError': 'Raise ValueError => true', 'Raise TypeError': 'Raise TypeError => true',
                   'Ok None': 'Ok None => true'}[r]
            return f'match {term} with {pat} | _ => false end'
        inner = '(a, b, c, d)'
        pat = f'Ok (Some {inner})' if opt else f'Ok {inner}'
        return (f'match {term} with {pat} => (a =? {_z(t[0])})%Z && (b =? {_z(t[1])})%Z && (c =? {_z(t[2])})%Z '
                f'&& (d =? {_z(t[3])})%Z | _ => false end')

    for i in range(n):
        v = [rng.randint(-6, 12) for _ in range(4)]
        r, t = res4(lambda: BoundingBox(*v))
        checks.append((f'init{v}', eq_res4('gen_bbox_init ' + ' '.join(_z(x) for x in v), r, t)))
        f = [dy(-5, 9), 0, dy(-5, 9), 0]
        f[1] = f[0] + rng.choice([-2.0, 0.0, 0.5, dy(0, 7)])
        f[3] = f[2] + rng.choice([0.0, 0.5, dy(0, 7)])
        r, t = res4(lambda: BoundingBox.from_float(*f))
        checks.append((f'from_float{f}', eq_res4('gen_from_float ' + ' '.join(_q(x) for x in f), r, t)))
    boxes = []
    while len(boxes) < n:
        a, c = rng.randint(-8, 10), rng.randint(-8, 10)
        boxes.append(BoundingBox(a, a + rng.randint(0, 7), c, c + rng.randint(0, 7)))
    for i, b in enumerate(boxes):
        bt = ' '.join(_z(x) for x in (b.ixmin, b.ixmax, b.iymin, b.iymax))
        o = boxes[(i * 7 + 3) % n]
        ot = ' '.join(_z(x) for x in (o.ixmin, o.ixmax, o.iymin, o.iymax))
        shp = (rng.randint(-1, 9), rng.randint(0, 9))
        sl, ss = b.get_overlap_slices(shp)

        def sl2(s):
            return 'None' if s is None else \
                f'Some (({_z(s[0].start)}, {_z(s[0].stop)}), ({_z(s[1].start)}, {_z(s[1].stop)}))'
        checks.append((f'slices{b}{shp}',
                       f'slices_eqb (gen_get_overlap_slices {bt} {_z(shp[0])} {_z(shp[1])}) ({sl2(sl)}, {sl2(ss)})'))
        r, t = res4(lambda: b | o)
        checks.append((f'or{b}{o}', eq_res4(f'gen_bbox_or {bt} {ot}', r, t)))
        r, t = res4(lambda: b.union(o))
        checks.append((f'union{b}{o}', eq_res4(f'gen_bbox_union {bt} {ot}', r, t)))
        for nm, call in (('gen_bbox_and', lambda: b & o), ('gen_bbox_intersection', lambda: b.intersection(o))):
            r, t = res4(call)
            checks.append((f'{nm}{b}{o}', eq_res4(f'{nm} {bt} {ot}', r, t, opt=True)))
        checks.append((f'shape{b}', f'(let \'(h, w) := gen_bbox_shape {bt} in (h =? {_z(b.shape[0])})%Z && (w =? {_z(b.shape[1])})%Z)'))
        e = b.extent
        checks.append((f'extent{b}', f'(let \'(a, b, c, d) := gen_bbox_extent {bt} in Qeq_bool a {_q(e[0])} && Qeq_bool b {_q(e[1])} '
                                     f'&& Qeq_bool c {_q(e[2])} && Qeq_bool d {_q(e[3])})'))
        c = b.center
        checks.append((f'center{b}', f'(let \'(y, x) := gen_bbox_center {bt} in Qeq_bool y {_q(c[0])} && Qeq_bool x {_q(c[1])})'))
    for mode in ('center', 'subpixel', 'exact', 'bogus', ''):
        for sub in (-1, 0, 1, 5, 32):
            for rect in (False, True):
                try:
                    u, sp = PixelAperture._translate_mask_mode(mode, sub, rectangle=rect)
                    exp = f'Ok (a, b) => (a =? {_z(u)})%Z && (b =? {_z(sp)})%Z'
                except ValueError:
                    exp = 'Raise ValueError => true'
                checks.append((f'mode{mode, sub, rect}',
                               f'match gen_translate_mask_mode "{mode}"%string {_z(sub)} {"true" if rect else "false"} with {exp} | _ => false end'))
    for i in range(n):
        a = rng.choice([dy(-9, 9, 4), rng.randint(-5, 5) + 0.5, float(rng.randint(-5, 5)), dy(-9, 9, 1024)])
        checks.append((f'round{a}', f'(gen_py2intround {_q(a)} =? {_z(py2intround(a))})%Z'))
        x0, y0 = dy(-4, 4, 2), dy(-4, 4, 2)
        x1, y1 = x0 + rng.choice([0.0, 1.0, 2.0, 4.0]), y0 + rng.choice([0.0, 0.5, 2.0])
        xi, yi = dy(-6, 8, 16), dy(-6, 8, 16)
        w = GriddedPSFModel._calc_bilinear_weights(None, xi, yi, np.array((x0, x1, y0, y1)))
        checks.append((f'bilinear{xi, yi, x0, x1, y0, y1}',
                       f'qlist_eqb (gen_calc_bilinear_weights {_q(xi)} {_q(yi)} {_q(x0)} {_q(x1)} {_q(y0)} {_q(y1)}) '
                       '[' + '; '.join(_q(float(v)) for v in w) + ']'))
        # 1 + step a power of two, so that 1 / (1 + step) is exact in floating point
        sma, step, lin = dy(1, 40, 4), rng.choice([1.0, 3.0, 7.0, 15.0]), rng.random() < 0.5
        g = EllipseGeometry(10.0, 10.0, sma, 0.2, 0.3, astep=step, linear_growth=lin)
        lt = 'true' if lin else 'false'
        checks.append((f'update_sma{sma, step, lin}', f'Qeq_bool (gen_update_sma {_q(sma)} {lt} {_q(step)}) {_q(g.update_sma(step))}'))
        rs = g.reset_sma(step)
        checks.append((f'reset_sma{sma, step, lin}', f'match gen_reset_sma {_q(sma)} {lt} {_q(step)} with Ok (a, b) => '
                                                     f'Qeq_bool a {_q(rs[0])} && Qeq_bool b {_q(rs[1])} | _ => false end'))
        p, npix, ngood = rng.choice([0.0, 25.0, 50.0, 75.0, 100.0]), rng.choice([1, 4, 16, 64, 100]), None
        ngood = rng.choice([0, npix, npix // 2, npix // 4, 3 * npix // 4, rng.randint(0, npix)])
        ns = types.SimpleNamespace(exclude_percentile=p, _box_npixels=np.int64(npix))
        thr = Background2D.__dict__['_good_npixels_threshold'].fget(ns)
        checks.append((f'good_thr{p, npix}', f'Qeq_bool (gen_good_npixels_threshold {_q(p)} {_z(npix)}) {_q(float(thr))}'))
        # the `var` targets: execute the statements' own source text
        env = dict(self=types.SimpleNamespace(_good_npixels_threshold=thr), ngood=np.int64(ngood), np=np)
        for l in stmts_of('gen_box_mask', 'box_mask'):
            exec(l, env)
        checks.append((f'box_mask{p, npix, ngood}',
                       f'Bool.eqb (gen_box_mask {_q(p)} {_z(npix)} {_z(ngood)}) {"true" if bool(env["box_mask"]) else "false"}'))
        nx, ny = rng.randint(1, 9), rng.randint(1, 9)
        xi, yi = rng.choice([0.0, nx - 1.0, dy(-2, 10, 4)]), rng.choice([0.0, ny - 1.0, dy(-2, 10, 4)])
        for file, nm in ((IMG, 'gen_imagepsf_invalid'), (GRID, 'gen_gridded_invalid')):
            env = dict(xi=np.float64(xi), yi=np.float64(yi), nx=nx, ny=ny, np=np)
            for l in stmts_of(nm, 'invalid'):
                exec(l, env)
            checks.append((f'{nm}{nx, ny, xi, yi}', f'Bool.eqb ({nm} {_z(nx)} {_z(ny)} {_q(xi)} {_q(yi)}) '
                                                    f'{"true" if bool(env["invalid"]) else "false"}'))
        osy, osx, ox, oy, x, x_0 = rng.randint(1, 4), rng.randint(1, 4), dy(0, 9, 2), dy(0, 9, 2), dy(-9, 9), dy(-9, 9)
        for file, nm, org in ((IMG, 'gen_imagepsf', '_origin'), (GRID, 'gen_gridded', 'origin')):
            for var in ('xi', 'yi'):
                env = dict(self=types.SimpleNamespace(oversampling=np.array((osy, osx)), **{org: np.array((ox, oy))}),
                           np=np, x=x, y=x, x_0=x_0, y_0=x_0)
                for l in stmts_of(f'{nm}_{var}', var):
                    exec(l, env)
                checks.append((f'{nm}_{var}{osy, osx, ox, oy, x, x_0}',
                               f'Qeq_bool ({nm}_{var} {_z(osy)} {_z(osx)} {_q(ox)} {_q(oy)} {_q(x)} {_q(x_0)}) {_q(float(env[var]))}'))
    # ---------------- round 2 targets ----------------
    import textwrap
    from photutils.aperture import CircularAnnulus, CircularAperture, EllipticalAperture, RectangularAperture
    from photutils.psf import PSFPhotometry
    from photutils.segmentation.utils import _make_binary_structure
    import astropy.units as u

    def span_src(gen_name):
        file, (lo, hi) = spans[gen_name]
        return textwrap.dedent('\n'.join((REPO / file).read_text().splitlines()[lo - 1:hi]))

    def test_src(gen_name):
        t = ' '.join(l.strip() for l in span_src(gen_name).splitlines()).strip()
        assert t.startswith('if ') and t.endswith(':'), t
        return t[3:-1]

    def b(x):
        return 'true' if bool(x) else 'false'
    NS = types.SimpleNamespace
    for eb in (True, False):
        for shp in ((1, 1), (3, 5), (4, 7), (8, 2), (9, 9)):
            env = dict(exclude_border=eb, kernel=np.ones(shp), np=np)
            exec(span_src('gen_find_stars_border'), env)
            bw = env['border_width']
            exp = 'None => true | _ => false' if bw is None else f'Some (a, c) => (a =? {_z(bw[0])})%Z && (c =? {_z(bw[1])})%Z | _ => false'
            checks.append((f'stars_border{eb, shp}', f'match gen_find_stars_border {b(eb)} {_z(shp[0])} {_z(shp[1])} with {exp} end'))
            env = dict(exclude_border=eb, kernel=NS(yradius=shp[0], xradius=shp[1]), np=np)
            exec(span_src('gen_find_stars_border_kernel'), env)
            bw = env['border_width']
            exp = 'None => true | _ => false' if bw is None else f'Some (a, c) => (a =? {_z(bw[0])})%Z && (c =? {_z(bw[1])})%Z | _ => false'
            checks.append((f'stars_border_kernel{eb, shp}', f'match gen_find_stars_border_kernel {b(eb)} {_z(shp[0])} {_z(shp[1])} with {exp} end'))
    for ms in (0.25, 0.5, 1.0, 1.75, 2.0, 2.5, 3.0, 4.75, -1.5):
        env = dict(min_separation=ms, math=math_mod(), np=np)
        exec(span_src('gen_find_stars_size'), env)
        checks.append((f'size{ms}', f'(gen_find_stars_size {_q(ms)} =? {_z(env["size"])})%Z'))
        if ms > 0:
            for xx in range(-3, 4):
                for yy in (-2, 0, 1, 3):
                    env = dict(min_separation=ms, xx=np.int64(xx), yy=np.int64(yy), np=np)
                    exec(span_src('gen_find_stars_fp_elem'), env)
                    checks.append((f'fp_elem{ms, xx, yy}', f'(gen_find_stars_fp_elem {_z(xx)} {_z(yy)} {_q(ms)} =? {_z(int(env["footprint"]))})%Z'))
    for (H, W, by_, bx) in ((4, 5, 0, 0), (4, 5, 1, 0), (4, 5, 0, 2), (5, 4, 2, 1), (3, 3, 3, 3), (1, 6, 1, 2), (5, 5, 2, 2)):
        env = dict(peak_goodmask=np.ones((H, W), dtype=bool), ny=by_, nx=bx, np=np)
        exec(span_src('gen_find_peaks_border_hit'), env)
        for y in range(H):
            for x in range(W):
                checks.append((f'peaks_border{H, W, by_, bx, y, x}',
                               f'Bool.eqb (gen_find_peaks_border_hit {_z(by_)} {_z(bx)} {_z(H)} {_z(W)} {_z(y)} {_z(x)}) {b(not env["peak_goodmask"][y, x])}'))
    for n in (1, 4, 7):
        for w in range(-3, n + 3):
            env = dict(border_mask=np.zeros(n, dtype=bool), border_width=w, np=np)
            exec(span_src('gen_border_axis_hit'), env)
            for i in range(n):
                checks.append((f'border_axis{n, w, i}', f'Bool.eqb (gen_border_axis_hit {_z(w)} {_z(n)} {_z(i)}) {b(env["border_mask"][i])}'))
    for shp in ((4, 4), (5, 9), (10, 3), (1, 1)):
        for w in range(0, 6):
            r = eval(test_src('gen_border_width_guard'), dict(self=NS(shape=shp), border_width=w))
            checks.append((f'border_guard{shp, w}', f'Bool.eqb (gen_border_width_guard {_z(shp[0])} {_z(shp[1])} {_z(w)}) {b(r)}'))
    for v in (-2, -1, 0, 1, 7):
        checks.append((f'reassign_guard{v}', f'Bool.eqb (gen_reassign_new_label_guard {_z(v)}) {b(eval(test_src("gen_reassign_new_label_guard"), dict(new_label=v)))}'))
        checks.append((f'relabel_start{v}', f'Bool.eqb (gen_relabel_start_guard {_z(v)}) {b(eval(test_src("gen_relabel_start_guard"), dict(start_label=v)))}'))
    for dt in (np.uint8, np.int16):
        mx = int(np.iinfo(dt).max)
        for nl in (1, 3, 10):
            for st in (1, mx - nl, mx - nl + 1, mx - nl + 2, mx):
                r = eval(test_src('gen_relabel_overflow_guard'), dict(self=NS(nlabels=nl, data=np.zeros(1, dtype=dt)), start_label=st, np=np))
                checks.append((f'relabel_overflow{dt.__name__, nl, st}', f'Bool.eqb (gen_relabel_overflow_guard {_z(nl)} {_z(st)} {_z(mx)}) {b(r)}'))
    for labels in ([1, 2, 3], [2, 3, 4], [1, 3, 4], [5], [2, 4]):
        for st in (1, 2, 5):
            r = eval(test_src('gen_relabel_already_consecutive'), dict(self=NS(nlabels=len(labels), labels=np.array(labels)), start_label=st))
            checks.append((f'relabel_consec{labels, st}', f'Bool.eqb (gen_relabel_already_consecutive {_z(len(labels))} {_z(st)} {_z(labels[0])} {_z(labels[-1])}) {b(r)}'))
    for i in range(n_cases := 40):
        fy, fx, H, W = rng.choice([3, 5]), rng.choice([3, 5, 7]), rng.randint(4, 9), rng.randint(4, 9)
        npix = rng.choice([fy * fx, fy * fx - 1, 1, fy * fx + 1])
        x = rng.choice([-0.25, 0.0, float(W), W + 0.5, dy(0, W)])
        y = rng.choice([-0.25, 0.0, float(H), H + 0.5, dy(0, H)])
        fl = rng.choice([-1.5, 0.0, 2.25])
        env = dict(flags=np.zeros(1, dtype=int), index=0, row={'npixfit': npix, 'x': x, 'y': y, 'f': fl}, xcolname='x',
                   ycolname='y', fluxcolname='f', shape=(H, W), self=NS(fit_shape=np.array((fy, fx))), np=np)
        exec(span_src('gen_flags_1_2_4'), env)
        checks.append((f'flags{fy, fx, npix, x, y, fl, H, W}',
                       f'(gen_flags_1_2_4 {_z(fy)} {_z(fx)} 0%Z {_z(npix)} {_q(x)} {_q(y)} {_q(fl)} {_z(H)} {_z(W)} =? {_z(int(env["flags"][0]))})%Z'))
        px, py_ = rng.choice([dy(-6, W + 6, 4), -fx / 2, W + fx / 2, W - 0.5]), rng.choice([dy(-6, H + 6, 4), -fy / 2, H + fy / 2])
        fake = NS(_param_maps={'init_cols': {'x': 'x', 'y': 'y'}}, fit_shape=np.array((fy, fx)))
        r = PSFPhotometry._get_invalid_positions(fake, {'x': np.array([px]), 'y': np.array([py_])}, (H, W))
        checks.append((f'invalid_pos{fy, fx, H, W, px, py_}', f'Bool.eqb (gen_invalid_position {_z(fy)} {_z(fx)} {_z(H)} {_z(W)} {_q(px)} {_q(py_)}) {b(r[0])}'))
    for c in (4, 8, 5, 0):
        try:
            fp = _make_binary_structure(2, c)
            exp = 'PyGen.Ok fp => list_eqb (list_eqb Z.eqb) fp [' + '; '.join('[' + '; '.join(_z(v) for v in row) + ']' for row in fp) + '] | _ => false'
        except ValueError:
            exp = 'Raise ValueError => true | _ => false'
        checks.append((f'structure{c}', f'match gen_binary_structure_2d {_z(c)} with {exp} end'))
    for d in (-1, 0, 3):
        for t in (-1, 0, 3, 5):
            for im in (None, True, False):
                env = dict(data=d, threshold=t, inverse_mask=im, warnings=__import__('warnings'), np=np)
                exec(span_src('gen_segment_pixel'), env)
                imt = 'None' if im is None else f'(Some {b(im)})'
                checks.append((f'segment_pixel{d, t, im}', f'Bool.eqb (gen_segment_pixel {_z(d)} {_z(t)} {imt}) {b(env["segment_img"])}'))
    for cnt in (0, 3, 5, 6):
        r = eval(test_src('gen_segment_too_small'), dict(np=NS(count_nonzero=lambda m, c=cnt: c), segment_mask=None, npixels=5))
        checks.append((f'too_small{cnt}', f'Bool.eqb (gen_segment_too_small 5%Z {_z(cnt)}) {b(r)}'))
    for v in (5.0, 2.5, 0.0, -1.0, 0.5, 1.0, -2.5):
        checks.append((f'npixels_invalid{v}', f'Bool.eqb (gen_npixels_invalid {_q(v)}) {b(eval(test_src("gen_npixels_invalid"), dict(npixels=v)))}'))
    for bx_ in boxes[:12]:
        pos = (dy(-5, 9), dy(-5, 9))
        env = dict(bbox=bx_, position=pos)
        exec(span_src('gen_centered_edges'), env)
        bt = ' '.join(_z(v) for v in (bx_.ixmin, bx_.ixmax, bx_.iymin, bx_.iymax))
        checks.append((f'centered_edges{bx_, pos}',
                       f"(let '(a, b, c, d) := gen_centered_edges {_q(pos[0])} {_q(pos[1])} {bt} in Qeq_bool a {_q(env['xmin'])} && "
                       f"Qeq_bool b {_q(env['xmax'])} && Qeq_bool c {_q(env['ymin'])} && Qeq_bool d {_q(env['ymax'])})"))
    for r_ in (0.5, 2.25, 7.0):
        e = CircularAperture((1.0, 2.0), r_)._xy_extents
        checks.append((f'circle_extents{r_}', f"(let '(a, b) := gen_circle_extents {_q(r_)} in Qeq_bool a {_q(e[0])} && Qeq_bool b {_q(e[1])})"))
        e = CircularAnnulus((1.0, 2.0), r_, r_ + 1.5)._xy_extents
        checks.append((f'annulus_extents{r_}', f"(let '(a, b) := gen_circular_annulus_extents {_q(r_ + 1.5)} in Qeq_bool a {_q(e[0])} && Qeq_bool b {_q(e[1])})"))
        # theta = 0: cos = 1, sin = 0 exactly; sqrt of a perfect dyadic square is exact, so extent**2 = radicand
        e = EllipticalAperture._calc_extents(r_ + 1.0, r_, 0.0 * u.rad)
        checks.append((f'ellipse_extents{r_}', f"(let '(a, b) := gen_ellipse_extents {_q(r_ + 1.0)} {_q(r_)} 0 (fun _ => 1) (fun _ => 0) (fun x => x) in "
                                               f"Qeq_bool a {_q(float(e[0]) ** 2)} && Qeq_bool b {_q(float(e[1]) ** 2)})"))
        e = RectangularAperture._calc_extents(r_ + 1.0, r_, 0.0 * u.rad)
        checks.append((f'rect_extents{r_}', f"(let '(a, b) := gen_rectangle_extents {_q(r_ + 1.0)} {_q(r_)} 0 (fun _ => 1) (fun _ => 0) in "
                                            f"Qeq_bool a {_q(float(e[0]))} && Qeq_bool b {_q(float(e[1]))})"))
    for vx in (-3, 0, 4):
        for vy in (-1, 0, 2):
            env = dict(self=NS(bbox_xmin=np.array([vx]), bbox_ymin=np.array([vy])), np=np)
            exec(span_src('gen_centroid_origin'), env)
            o = env['origin'][0]
            checks.append((f'centroid_origin{vx, vy}', f"(let '(a, b) := gen_centroid_origin {_z(vx)} {_z(vy)} in (a =? {_z(o[0])})%Z && (b =? {_z(o[1])})%Z)"))

    body = ('From Coq Require Import ZArith QArith List Bool String.\n'
            'From PV Require Import lib.Cases lib.PyGen gen.Gen_bbox gen.Gen_apcore gen.Gen_round gen.Gen_psf gen.Gen_isophote gen.Gen_bkg gen.Gen_detection gen.Gen_segm '
            'gen.Gen_psfphot gen.Gen_detect gen.Gen_apshape gen.Gen_apstats.\n'
            'Import ListNotations.\n'
            'Definition z2_eqb (a b : Z * Z) := ((fst a =? fst b) && (snd a =? snd b))%Z.\n'
            'Definition sl_eqb (a b : option ((Z * Z) * (Z * Z))) := match a, b with None, None => true '
            '| Some x, Some y => z2_eqb (fst x) (fst y) && z2_eqb (snd x) (snd y) | _, _ => false end.\n'
            'Definition slices_eqb (a b : option ((Z * Z) * (Z * Z)) * option ((Z * Z) * (Z * Z))) := '
            'sl_eqb (fst a) (fst b) && sl_eqb (snd a) (snd b).\n'
            'Definition qlist_eqb := list_eqb Qeq_bool.\n'
            'Definition checks : list bool :=\n [ ' + '\n ; '.join(c for _, c in checks) + ' ].\n'
            'Eval vm_compute in (bad_indices (fun b => b) checks).\n')
    (coqd / 'diff.v').write_text(body)
    rc, out = coqc(coqd, 'diff.v')
    if rc != 0:
        return len(checks), ['coqc failed: ' + out[-400:]]
    m = re.search(r'=\s*(\[.*?\])\s*:\s*list', out, re.S)
    bad = [int(x) for x in re.findall(r'\d+', m.group(1))]
    return len(checks), [checks[i][0] for i in bad]


# ---------------- (e) fail-closed: constructs outside the subset ----------------
REFUSED = [
    ('while loop', 'def f(a):\n    while a > 0:\n        a -= 1\n    return a\n'),
    ('for over range', 'def f(a):\n    s = 0\n    for i in range(a):\n        s += i\n    return s\n'),
    ('comprehension', 'def f(a):\n    return [a + i for i in (1, 2)]\n'),
    ('lambda', 'def f(a):\n    g = lambda x: x + 1\n    return g(a)\n'),
    ('try/except', 'def f(a):\n    try:\n        return a + 1\n    except ValueError:\n        return 0\n'),
    ('unknown call', 'def f(a):\n    return helper(a)\n'),
    ('global name', 'def f(a):\n    return a + OFFSET\n'),
    ('side effect (print)', 'def f(a):\n    print(a)\n    return a\n'),
    ('attribute write', 'def f(a):\n    a.x = 1\n    return 0\n'),
    ('int() of a non-number', 'def f(a):\n    return int("3")\n'),
    ('warnings.simplefilter outside a catch_warnings block', 'def f(a):\n    warnings.simplefilter("ignore")\n    return a\n'),
    ('np.ones with a non-literal shape', 'def f(a):\n    return np.ones((a, 3))\n'),
    ('undeclared uninterpreted function', 'def f(x):\n    return np.sqrt(x)\n'),
    ('// on floats', 'def f(x):\n    return x // 2\n'),
    ('round()', 'def f(x):\n    return round(x)\n'),
    ('division inside a short-circuit operand', 'def f(a, b):\n    return a > 0 and 1 / b > 2\n'),
    ('`and` on integers (value semantics)', 'def f(a, b):\n    return a and b\n'),
    ('truthiness of an integer', 'def f(a):\n    if a:\n        return 1\n    return 0\n'),
    ('non-literal subscript', 'def f(a, t):\n    return t[a]\n'),
    ('star arguments', 'def f(*a):\n    return 0\n'),
    ('decorator', '@cache\ndef f(a):\n    return a\n'),
    ('string formatting', 'def f(a):\n    return f"{a}"\n'),
    ('with statement', 'def f(a):\n    with ctx():\n        return a\n'),
    ('incompatible return sorts', 'def f(a):\n    if a > 0:\n        return "x"\n    return 1\n'),
    ('raise of an unknown exception', 'def f(a):\n    raise CustomError("x")\n'),
    ('math.sqrt', 'def f(x):\n    return math.sqrt(x)\n'),
    ('slice with a step', 'def f(a):\n    return slice(0, a, 2)\n'),
]


def refused():
    """every snippet must raise Untranslatable; returns the labels that were (wrongly) translated"""
    import ast
    from harness.py2coq import Q, TUP, Translator, Untranslatable, Z
    wrong = []
    for label, src in REFUSED:
        tree = ast.parse(src)
        fdef = tree.body[0]
        sorts = {'a': Z, 'b': Z, 'x': Q, 't': TUP(Z, Z)}
        try:
            Translator('<snippet>', {}, {}).function(fdef, src.splitlines(), 'gen_f', None,
                                                     {k: v for k, v in sorts.items()
                                                      if k in [x.arg for x in fdef.args.args]})
            wrong.append(label)
        except Untranslatable:
            pass
    return wrong


# ---- round 2 rewrites ----
rew('find_stars border: `(-1 + shape[0]) // 2`', DCORE, 'yborder = (kernel.shape[0] - 1) // 2', 'yborder = (-1 + kernel.shape[0]) // 2')
rew('find_stars size: explicit floor/ceil instead of int()', DCORE, 'size = int(min_separation)',
    'size = math.floor(min_separation) if min_separation >= 0 else math.ceil(min_separation)')
rew('find_stars footprint: comparison mirrored, terms commuted', DCORE, '(xx**2 + yy**2) <= min_separation**2', 'min_separation**2 >= (yy**2 + xx**2)')
rew('find_peaks border: `0 < ny`, `[0:ny, :]`', PEAK, '        if ny > 0:\n            peak_goodmask[:ny, :] = False', '        if 0 < ny:\n            peak_goodmask[0:ny, :] = False')
rew('remove_border_labels: `[0:w]`', SEG, 'border_mask[:border_width] = True', 'border_mask[0:border_width] = True')
rew('remove_border_labels guard: `2 * w >= min(shape)`', SEG, 'if border_width >= min(self.shape) / 2:', 'if 2 * border_width >= min(self.shape):')
rew('reassign_labels guard: `0 > new_label`', SEG, '        if new_label < 0:\n', '        if 0 > new_label:\n')
rew('relabel_consecutive: `not start_label > 0`', SEG, '        if start_label <= 0:\n', '        if not start_label > 0:\n')
rew('relabel_consecutive overflow: mirrored, terms commuted', SEG, 'if start_label + self.nlabels - 1 > np.iinfo(self.data.dtype).max:',
    'if np.iinfo(self.data.dtype).max < self.nlabels + start_label - 1:')
rew('relabel_consecutive early return: conjuncts swapped', SEG,
    'if ((self.labels[0] == start_label)\n                and (self.labels[-1] - self.labels[0] + 1) == self.nlabels):',
    'if ((self.labels[-1] - self.labels[0] + 1) == self.nlabels\n                and (start_label == self.labels[0])):')
rew('flags bit 2: disjuncts reordered', PPHOT, 'if (row[xcolname] < 0 or row[ycolname] < 0\n', 'if (row[ycolname] < 0 or row[xcolname] < 0\n')
rew('flags: bit 4 tested before bit 1 would change nothing -- here: `0 >= flux`', PPHOT, 'if row[fluxcolname] <= 0:', 'if 0 >= row[fluxcolname]:')
rew('invalid positions: the two np.any operands swapped', PPHOT, 'return np.any(max_idx <= 0, axis=1) | np.any(min_idx >= shape, axis=1)',
    'return np.any(min_idx >= shape, axis=1) | np.any(max_idx <= 0, axis=1)')
rew('binary structure: `4 == connectivity`', SUTIL, 'if connectivity == 4:', 'if 4 == connectivity:')
rew('detect: `threshold < data`', SDET, 'segment_img = data > threshold', 'segment_img = threshold < data')
rew('detect: `npixels > count`', SDET, 'if np.count_nonzero(segment_mask) < npixels:', 'if npixels > np.count_nonzero(segment_mask):')
rew('detect_sources: validation disjuncts swapped', SDET, 'if (npixels <= 0) or (int(npixels) != npixels):', 'if (int(npixels) != npixels) or (npixels <= 0):')
rew('centered_edges: `ixmin - (0.5 + position[0])`', CORE, 'xmin = bbox.ixmin - 0.5 - position[0]', 'xmin = bbox.ixmin - (0.5 + position[0])')
rew('circle extents: parenthesised tuple', CIRC, '        return self.r, self.r\n', '        return (self.r, self.r)\n')
rew('circular annulus extents: via a local', CIRC, 'return self.r_out, self.r_out', 'r = self.r_out\n        return r, r')
rew('ellipse extents: `-semiminor_axis * sin_theta`', ELL, 'semiminor_x = semiminor_axis * -sin_theta', 'semiminor_x = -semiminor_axis * sin_theta')
rew('rectangle extents: factors commuted', RECT, 'x_extent1 = abs((half_width * cos_theta) - (half_height * sin_theta))',
    'x_extent1 = abs((cos_theta * half_width) - (sin_theta * half_height))')
rew('rectangle extents: max arguments swapped', RECT, 'x_extent = max(x_extent1, x_extent2)', 'x_extent = max(x_extent2, x_extent1)', 'closed')
rew('centroid origin: `np.maximum(0, bbox_xmin)`', STATS, 'np.maximum(self.bbox_xmin, 0)', 'np.maximum(0, self.bbox_xmin)')


# ---- round 3 rewrites ----
rew('overlap patch: `stop == start`', CUT, 'if slc_lg[i].stop - slc_lg[i].start == 0:', 'if slc_lg[i].stop == slc_lg[i].start:')
rew('mod_shape: if/else restructured', DIMG, '        elif model_shape is None:', '        elif None is model_shape:', 'closed')
rew('shape_from_bbox: math.ceil', DIMG, 'return (int(np.ceil(bbox[0][1] - bbox[0][0])),', 'return (int(np.ceil(-bbox[0][0] + bbox[0][1])),')
rew('normalize: `0 == normalization`', PROF, 'if normalization == 0 or not np.isfinite(normalization):', 'if not np.isfinite(normalization) or 0 == normalization:')
rew('normalize: `*=` written out, factors commuted', PROF, 'self.normalization_value *= normalization', 'self.normalization_value = normalization * self.normalization_value')
rew('unnormalize: factors commuted', PROF, "self.__dict__['profile'] = self.profile * self.normalization_value", "self.__dict__['profile'] = self.normalization_value * self.profile")
rew('zero radius: `0.0 >= radius`', PROF, '            if radius <= 0.0:', '            if 0.0 >= radius:')
rew('deblend: `1 > nlevels`', DEBL, '    if nlevels < 1:', '    if 1 > nlevels:')
rew('deblend: contrast disjuncts swapped', DEBL, '    if contrast < 0 or contrast > 1:', '    if contrast > 1 or 0 > contrast:')
rew('deblend: `2 * npixels`', DEBL, '            >= (npixels * 2))', '            >= (2 * npixels))')
rew('deblend: `max_label = max_label + len(new_labels)` (serial loop)', DEBL, '                max_label += len(new_labels)\n\n    else:', '                max_label = len(new_labels) + max_label\n\n    else:')
rew('relabel map: conjuncts swapped', DEBL, '    if (labels[0] == start_label\n            and (labels[-1] - start_label + 1) == len(labels)):',
    '    if ((labels[-1] - start_label + 1) == len(labels)\n            and start_label == labels[0]):')
rew('getitem keys: operands of & swapped', CAT, 'keys = (set(self.__dict__.keys())\n                & (set(self._lazyproperties) | set(self._extra_properties)))',
    'keys = ((set(self._extra_properties) | set(self._lazyproperties))\n                & set(self.__dict__.keys()))')
rew('getitem value form: nested ifs', CAT, "if newcls.isscalar and key.startswith('_'):", "if key.startswith('_') and newcls.isscalar:")
rew('cutout_centroid: x computed first', CAT, '            ycentroid = moments[:, 1, 0] / moments[:, 0, 0]\n            xcentroid = moments[:, 0, 1] / moments[:, 0, 0]',
    '            xcentroid = moments[:, 0, 1] / moments[:, 0, 0]\n            ycentroid = moments[:, 1, 0] / moments[:, 0, 0]')
rew('centroid: `origin + cutout_centroid`', CAT, '        return self.cutout_centroid + origin', '        return origin + self.cutout_centroid')
rew('covariance: delta2 = delta * delta', CAT, '        delta2 = delta**2\n', '        delta2 = delta * delta\n')


def prepare_coq(d):
    (d / 'lib').mkdir(parents=True, exist_ok=True)
    for vo in list((COQ / 'lib').glob('*.vo')) + list(COQ.glob('C*_Model.vo')) + list(COQ.glob('C*_Proofs*.vo')) + list(COQ.glob('C04_Path*.vo')):
        dst = d / vo.relative_to(COQ)
        if not dst.exists():
            dst.symlink_to(vo)
    for eq in ALL_EQ:
        shutil.copy(COQ / eq, d / eq)


def coqc(d, rel, timeout=600):
    p = subprocess.run(['timeout', str(timeout), 'coqc', '-Q', '.', 'PV', rel], cwd=d, capture_output=True, text=True)
    return p.returncode, (p.stdout + p.stderr)


def run_scenario(idx, sc):
    name, kind, file, old, new, expect = sc
    t0 = time.time()
    root = SCRATCH / f's{idx:02d}'
    if root.exists():
        shutil.rmtree(root)
    repo, coqd = root / 'repo', root / 'coq'
    for f in FILES:
        (repo / f).parent.mkdir(parents=True, exist_ok=True)
        shutil.copy(REPO / f, repo / f)
    if file is not None:
        src = (repo / file).read_text()
        if old.startswith('re:'):
            src2, n = re.subn(old[3:], new, src)
            if n == 0:
                return dict(name=name, kind=kind, ok=False, result='PATTERN not found', detail='', secs=0)
        else:
            if src.count(old) != 1:
                return dict(name=name, kind=kind, ok=False, result=f'PATTERN occurs {src.count(old)} times', detail='', secs=0)
            src2 = src.replace(old, new)
        (repo / file).write_text(src2)
    prepare_coq(coqd)
    env = dict(os.environ, VERIF_REPO=str(repo), PYTHONDONTWRITEBYTECODE='1')
    t1 = time.time()
    p = subprocess.run([sys.executable, '-m', 'harness.translate_all', str(coqd)], cwd=VERIF, env=env,
                       capture_output=True, text=True)
    tgen = time.time() - t1
    untrans = [l for l in p.stdout.splitlines() if 'UNTRANSLATABLE' in l]
    eqs = ALL_EQ if file is None else DEPENDS[file]
    status, times = {}, {}
    for g in sorted((coqd / 'gen').glob('*.v')):
        rc, out = coqc(coqd, f'gen/{g.name}')
        if rc != 0:
            status['gen/' + g.name] = 'GEN-FAIL: ' + out.strip().splitlines()[-1][:100]
    for eq in eqs:
        t2 = time.time()
        rc, out = coqc(coqd, eq)
        times[eq] = round(time.time() - t2, 1)
        if rc == 0:
            status[eq] = 'compiles'
        else:
            err = [l for l in out.splitlines() if l.startswith('File ')]
            thm = ''
            if err:
                try:
                    ln = int(err[-1].split('line ')[1].split(',')[0])
                    text = (coqd / eq).read_text().splitlines()[:ln]
                    for l in reversed(text):
                        if l.startswith(('Theorem', 'Lemma')):
                            thm = l.split()[1]
                            break
                except (IndexError, ValueError):
                    pass
            status[eq] = f'FAILS at {thm or "?"}'
    diff = None
    if kind == 'baseline':
        diff = differential(coqd)
    if kind == 'mutation':
        must_fail = expect or eqs
        ok = all(status[e].startswith('FAILS') for e in must_fail)
    elif kind == 'rewrite':
        allpass = all(status[e] == 'compiles' for e in eqs)
        ok = allpass if expect == 'pass' else True
    else:
        ok = all(status[e] == 'compiles' for e in eqs) and not diff[1]
    return dict(diff=diff, name=name, kind=kind, ok=ok, status=status, times=times, tgen=round(tgen, 2), untrans=untrans,
                expect=expect, secs=round(time.time() - t0, 1))


def main():
    ap = argparse.ArgumentParser()
    ap.add_argument('-j', type=int, default=min(8, os.cpu_count() or 2))
    ap.add_argument('-k', default='')
    ap.add_argument('--keep', action='store_true')
    a = ap.parse_args()
    scen = [('unchanged source', 'baseline', None, None, None, None)] + S
    scen = [(i, s) for i, s in enumerate(scen) if a.k in s[0] or (i == 0 and not a.k)]
    SCRATCH.mkdir(parents=True, exist_ok=True)
    t0 = time.time()
    with cf.ThreadPoolExecutor(max_workers=a.j) as ex:
        res = list(ex.map(lambda t: run_scenario(*t), scen))
    bad = 0
    for kind, title in (('baseline', '(a) unchanged source'), ('mutation', '(b) behaviour-changing mutations: GenEq must FAIL'),
                        ('rewrite', '(c) harmless rewrites: GenEq should still compile')):
        rows = [r for r in res if r['kind'] == kind]
        if not rows:
            continue
        print(f'\n{title}')
        for r in rows:
            if 'status' not in r:
                print(f"  [BAD ] {r['name']}: {r['result']}")
                bad += 1
                continue
            st = '; '.join(f'{k}: {v}' + (f" ({r['times'][k]}s)" if k in r['times'] else '') for k, v in r['status'].items())
            if r['untrans']:
                st += '  {' + '; '.join(u.split('translate: ')[1].split('  [')[0][:110] for u in r['untrans']) + '}'
            tag = 'ok' if r['ok'] else 'BAD'
            if kind == 'rewrite' and r['ok'] and any(v.startswith('FAILS') for v in r['status'].values()):
                tag = 'closed'
            print(f"  [{tag:6s}] {r['name']}\n           -> {st}   [regen {r['tgen']}s]")
            if r.get('diff'):
                print(f"           differential check (real Python functions vs regenerated definitions evaluated in Coq): "
                      f"{r['diff'][0]} cases, {len(r['diff'][1])} disagree {r['diff'][1][:5]}")
            bad += 0 if r['ok'] else 1
    wrong = refused()
    print(f'\n(e) fail-closed: {len(REFUSED)} snippets outside the subset ({", ".join(l for l, _ in REFUSED)}): '
          f'{len(REFUSED) - len(wrong)} refused with Untranslatable, {len(wrong)} wrongly translated {wrong}')
    bad += len(wrong)
    print(f'\n{len(res)} scenarios, {bad} unexpected, wall {round(time.time() - t0, 1)}s')
    if not a.keep:
        shutil.rmtree(SCRATCH, ignore_errors=True)
    return 1 if bad else 0


if __name__ == '__main__':
    sys.exit(main())
