"""C14D (stretch of C14): the per-source statistics that C14 leaves as inputs of the model.

Tie between coq/C14D_Model.v (exact rational arithmetic over Q) and the raw catalogs of the
three finders (`finder._get_raw_catalog(data)`), i.e. `_DAOStarFinderCatalog`,
`_IRAFStarFinderCatalog` and `_StarFinderCatalog`:

  DAO   data_peak, convdata_peak, roundness1, sharpness, flux, npix, dx, hx, dy, hy, roundness2,
        xcentroid, ycentroid
  IRAF  sky, npix, peak, flux, moments M00 M10 M01, cutout centroid, mu_sum, mu_diff,
        moments_central[1,1], roundness (compared squared), xcentroid, ycentroid
  SF    bbox_ymin, bbox_xmin, max_value, flux, moments, cutout centroid, mu_sum, mu_diff, mu11,
        roundness (squared), xcentroid, ycentroid

`run_statistics_correspondence(ctx, n_cases)` is meant to be called from harness/c14.py after
its build (with the C14D files among the built files so that C14D_Model.vo exists).  It
  * generates small images with integer (or quarter-integer) pixels: blobs, noise, negative
    regions, flat / zero / delta / 4-fold-symmetric frames, sources at the frame,
  * runs the REAL finders (peak finding, or `xycoords` at random integer positions incl. the
    frame corners) and reads every statistic from the raw catalog,
  * hands Coq the image, the implementation's convolved image (`cat.convolved_data`), the
    kernel's mask / gaussian_kernel_unmasked / sigma**2 as EXACT dyadic rationals (every
    double is m * 2^-k) and the measured statistics, and
  * `check_case` recomputes every statistic in exact arithmetic inside Coq (vm_compute) and
    compares: equality where the float operations are exact on the lattice (peaks, integer
    sums, pixel counts, exact-sky IRAF moments, StarFinder moments), otherwise
    |impl - model| <= 2^-40 * scale with the scale (magnitude of the operands, computed by the
    model) of a first-order forward error bound.  NaN / +inf / -inf must agree in kind.
  Branches of the DAOFIND marginal fit that rounding decides (hx_numer, hx_denom or
  |dx| - size/2 within the error bound of 0) are not compared; they are counted
  (`rounding_decided_cases`).
"""
import math
import warnings

import numpy as np

IMPORTS = ['C14D_Model']
COQ_FILES = ['C14D_Model.v', 'C14D_Proofs.v', 'C14D_Properties.v']
OBLIGATION_FILES = ['C14D_Properties.v']

DAO_ATTRS = ['data_peak', 'convdata_peak', 'roundness1', 'sharpness', 'flux', 'npix', 'dx', 'hx', 'dy', 'hy',
             'roundness2', 'xcentroid', 'ycentroid']
IRAF_ATTRS = ['sky', 'npix', 'peak', 'flux', 'M00', 'M10', 'M01', 'cutout_ycentroid', 'cutout_xcentroid',
              'mu_sum', 'mu_diff', 'mu11', 'roundness^2', 'xcentroid', 'ycentroid']
SF_ATTRS = ['bbox_ymin', 'bbox_xmin', 'max_value', 'flux', 'M00', 'M10', 'M01', 'cutout_ycentroid',
            'cutout_xcentroid', 'mu_sum', 'mu_diff', 'mu11', 'roundness^2', 'xcentroid', 'ycentroid']
MAX_SRC = 5


# --------------------------------------------------------------------------
# exact literals
# --------------------------------------------------------------------------
def zlit(n):
    n = int(n)
    return f'({n})' if n < 0 else str(n)


def qlit(x):
    """a finite double as an exact Coq rational"""
    num, den = float(x).as_integer_ratio()
    if den == 1:
        return f'(zq {zlit(num)})'
    return f'(dy {zlit(num)} {den.bit_length() - 1})'


def flit(x, square=False):
    x = float(x)
    if math.isnan(x):
        return 'NaN'
    if math.isinf(x):
        return 'PInf' if x > 0 else 'NInf'
    if square:
        from fractions import Fraction
        f = Fraction(x) ** 2
        if x < 0:                      # a negative roundness would square to a positive number: keep the sign visible
            f = -f
        den = f.denominator
        if den == 1:
            return f'(Fin (zq {zlit(f.numerator)}))'
        return f'(Fin (dy {zlit(f.numerator)} {den.bit_length() - 1}))'
    return f'(Fin {qlit(x)})'


def imglit(a):
    return '[' + ';'.join('[' + ';'.join(qlit(v) for v in row) + ']' for row in np.asarray(a, float)) + ']'


def boollit(a):
    return '[' + ';'.join('[' + ';'.join('true' if v else 'false' for v in row) + ']' for row in a) + ']'


def srclit(yp, xp, vals, sq_index=None):
    vs = ';'.join(flit(v, square=(i == sq_index)) for i, v in enumerate(vals))
    return f'({zlit(yp)}, {zlit(xp)}, [{vs}])'


# --------------------------------------------------------------------------
# scenes
# --------------------------------------------------------------------------
def make_scene(rng):
    """small image with integer pixels (sometimes quarter integers) -> (image, kind)"""
    ny = rng.choice([9, 11, 12, 13, 15])
    nx = rng.choice([9, 11, 12, 13, 15])
    yy, xx = np.mgrid[0:ny, 0:nx]
    kind = rng.choice(['blobs', 'blobs', 'blobs', 'noise', 'flat', 'zero', 'delta', 'sym4', 'edge', 'negative'])
    img = np.zeros((ny, nx))
    if kind in ('blobs', 'edge', 'negative'):
        for _ in range(rng.randint(1, 4)):
            if kind == 'edge':
                y = rng.choice([0, 1, ny - 2, ny - 1, rng.randrange(ny)])
                x = rng.choice([0, 1, nx - 2, nx - 1, rng.randrange(nx)])
            else:
                y, x = rng.randint(2, ny - 3), rng.randint(2, nx - 3)
            s = rng.choice([0.7, 1.0, 1.4, 2.0])
            q = rng.choice([1.0, 1.0, 0.6])
            a = rng.choice([20, 50, 100, 300])
            img += np.round(a * np.exp(-((xx - x) ** 2 / (2 * s * s) + (yy - y) ** 2 / (2 * (s * q) ** 2))))
        nz = rng.choice([0, 1, 3])
        if nz:
            img += np.array([[rng.randint(-nz, nz) for _ in range(nx)] for _ in range(ny)], float)
        if kind == 'negative':
            img -= rng.choice([3, 10, 40])
        elif rng.random() < 0.5:
            img += rng.choice([2, 7, 30])
    elif kind == 'noise':
        img = np.array([[rng.randint(-4, 9) for _ in range(nx)] for _ in range(ny)], float)
    elif kind == 'flat':
        img[:] = rng.choice([1, 5, 12])
    elif kind == 'delta':
        for _ in range(rng.randint(1, 2)):
            img[rng.randrange(ny), rng.randrange(nx)] = rng.choice([1, 8, 50])
    elif kind == 'sym4':
        n = min(ny, nx) | 1
        n = n if n <= min(ny, nx) else n - 2
        ny = nx = n
        c = n // 2
        yy, xx = np.mgrid[0:n, 0:n]
        base = np.array([[rng.randint(0, 6) for _ in range(n)] for _ in range(n)], float)
        base = base + base[::-1] + base[:, ::-1] + base[::-1, ::-1]
        base = base + base.T                       # dihedral symmetry about the central pixel
        img = base + np.round(80 * np.exp(-((xx - c) ** 2 + (yy - c) ** 2) / 2.0))
    if rng.random() < 0.15:
        img = img / 4.0                             # quarter-integer lattice
    return img, kind


def positions(rng, ny, nx, n):
    out = []
    for _ in range(n):
        r = rng.random()
        if r < 0.25:
            out.append((rng.choice([0, ny - 1]), rng.choice([0, nx - 1])))
        elif r < 0.5:
            out.append((rng.choice([0, 1, ny - 2, ny - 1]), rng.randrange(nx)))
        else:
            out.append((rng.randrange(ny), rng.randrange(nx)))
    return out


def sf_kernel(ky, kx, s):
    yy, xx = np.mgrid[0:ky, 0:kx]
    return np.exp(-((xx - kx // 2) ** 2 + (yy - ky // 2) ** 2) / (2 * s * s)) * 2.0


def _col(v, n):
    v = np.atleast_1d(np.asarray(v, float))
    assert v.shape == (n,), v.shape
    return v


def run_dao(rng, img, kind, p=None):
    from photutils.detection import DAOStarFinder
    preset = p is not None
    p = p if preset else dict(threshold=rng.choice([0.0, 1.0, 5.0]), fwhm=rng.choice([1.5, 2.0, 3.0, 4.0, 5.0, 6.0]),
             ratio=rng.choice([1.0, 1.0, 0.7, 0.5]), theta=rng.choice([0.0, 0.0, 30.0, 90.0]),
             sigma_radius=rng.choice([1.5, 1.5, 1.0]), exclude_border=rng.random() < 0.3, xy=None)
    ny, nx = img.shape
    if not preset and (kind in ('flat', 'zero') or rng.random() < 0.35):
        p['xy'] = positions(rng, ny, nx, rng.randint(1, MAX_SRC))
    if not preset and kind == 'sym4':
        p['xy'] = [(ny // 2, nx // 2)]
        p['ratio'], p['theta'] = 1.0, 0.0
    xy = None if p['xy'] is None else np.array([(x, y) for y, x in p['xy']], float)
    f = DAOStarFinder(p['threshold'], p['fwhm'], ratio=p['ratio'], theta=p['theta'], sigma_radius=p['sigma_radius'],
                      exclude_border=p['exclude_border'], xycoords=xy)
    with warnings.catch_warnings():
        warnings.simplefilter('ignore')
        cat = f._get_raw_catalog(img.copy())
        if cat is None:
            return p, None
        n = len(cat)
        cols = [_col(getattr(cat, a), n) for a in DAO_ATTRS]
        k = cat.kernel
        s2x, s2y = k.xsigma ** 2, k.ysigma ** 2
    xypos = np.atleast_2d(cat.xypos)
    srcs = []
    for i in range(min(n, MAX_SRC)):
        srcs.append((int(xypos[i][1]), int(xypos[i][0]), [c[i] for c in cols]))
    kny, knx = k.shape
    term = (f'CDao {kny}%nat {knx}%nat {boollit(k.mask.astype(bool))} {imglit(k.gaussian_kernel_unmasked)} '
            f'{qlit(s2x)} {qlit(s2y)} {imglit(img)} {imglit(cat.convolved_data)} '
            f'[{";".join(srclit(*s) for s in srcs)}]')
    return p, dict(term=term, srcs=srcs, shape=(kny, knx), attrs=DAO_ATTRS)


def run_iraf(rng, img, kind, p=None):
    from photutils.detection import IRAFStarFinder
    preset = p is not None
    p = p if preset else dict(threshold=rng.choice([0.0, 1.0, 5.0]), fwhm=rng.choice([2.0, 3.0, 4.0, 4.0, 5.0, 6.0]),
                              exclude_border=rng.random() < 0.3, xy=None)
    ny, nx = img.shape
    if not preset and (kind in ('flat', 'zero') or rng.random() < 0.35):
        p['xy'] = positions(rng, ny, nx, rng.randint(1, MAX_SRC))
    if not preset and kind == 'sym4':
        p['xy'] = [(ny // 2, nx // 2)]
    if not preset:
        p['min_separation'] = rng.choice([None, 0.0, 2.0])
    xy = None if p['xy'] is None else np.array([(x, y) for y, x in p['xy']], float)
    f = IRAFStarFinder(p['threshold'], p['fwhm'], exclude_border=p['exclude_border'], xycoords=xy,
                       min_separation=p.get('min_separation'))
    with warnings.catch_warnings():
        warnings.simplefilter('ignore')
        cat = f._get_raw_catalog(img.copy())
        if cat is None:
            return p, None
        n = len(cat)
        mom = np.asarray(cat.moments, float)
        cen = np.asarray(cat.cutout_centroid, float)
        mc = np.asarray(cat.moments_central, float)
        cols = [_col(cat.sky, n), _col(cat.npix, n), _col(cat.peak, n), _col(cat.flux, n),
                mom[:, 0, 0], mom[:, 1, 0], mom[:, 0, 1], cen[:, 0], cen[:, 1],
                _col(cat.mu_sum, n), _col(cat.mu_diff, n), mc[:, 1, 1], _col(cat.roundness, n),
                _col(cat.xcentroid, n), _col(cat.ycentroid, n)]
        k = cat.kernel
    xypos = np.atleast_2d(cat.xypos)
    srcs = []
    for i in range(min(n, MAX_SRC)):
        srcs.append((int(xypos[i][1]), int(xypos[i][0]), [c[i] for c in cols]))
    kny, knx = k.shape
    term = (f'CIraf {kny}%nat {knx}%nat {boollit(k.mask.astype(bool))} {imglit(img)} {imglit(cat.convolved_data)} '
            f'[{";".join(srclit(*s, sq_index=12) for s in srcs)}]')
    return p, dict(term=term, srcs=srcs, shape=(kny, knx), attrs=IRAF_ATTRS,
                   nsky=int((~k.mask.astype(bool)).sum()))


def run_sf(rng, img, kind, p=None):
    from photutils.detection import StarFinder
    p = p if p is not None else dict(threshold=rng.choice([0.0, 1.0, 5.0]), kernel=(rng.choice([3, 5, 7, 4]), rng.choice([3, 5, 7, 6]),
                                                            rng.choice([0.8, 1.2, 2.0])),
             min_separation=rng.choice([5.0, 0.0, 2.0]), exclude_border=rng.random() < 0.3)
    f = StarFinder(p['threshold'], sf_kernel(*p['kernel']), min_separation=p['min_separation'],
                   exclude_border=p['exclude_border'])
    with warnings.catch_warnings():
        warnings.simplefilter('ignore')
        cat = f._get_raw_catalog(img.copy())
        if cat is None:
            return p, None
        n = len(cat)
        mom = np.asarray(cat.moments, float)
        cen = np.asarray(cat.cutout_centroid, float)
        mc = np.asarray(cat.moments_central, float)
        cols = [_col(cat.bbox_ymin, n), _col(cat.bbox_xmin, n), _col(cat.max_value, n), _col(cat.flux, n),
                mom[:, 0, 0], mom[:, 1, 0], mom[:, 0, 1], cen[:, 0], cen[:, 1],
                _col(cat.mu_sum, n), _col(cat.mu_diff, n), mc[:, 1, 1], _col(cat.roundness, n),
                _col(cat.xcentroid, n), _col(cat.ycentroid, n)]
    xypos = np.atleast_2d(cat.xypos)
    srcs = []
    for i in range(min(n, MAX_SRC)):
        srcs.append((int(xypos[i][1]), int(xypos[i][0]), [c[i] for c in cols]))
    ky, kx = p['kernel'][:2]
    term = f'CSf {ky}%nat {kx}%nat {imglit(img)} [{";".join(srclit(*s, sq_index=12) for s in srcs)}]'
    return p, dict(term=term, srcs=srcs, shape=(ky, kx), attrs=SF_ATTRS)


RUNNERS = {'DAO': run_dao, 'IRAF': run_iraf, 'SF': run_sf}


def _jf(v):
    v = float(v)
    return repr(v) if not math.isfinite(v) else v


def run_statistics_correspondence(ctx, n_cases):
    rng = ctx.rng
    out = {'cases': 0, 'sources': 0, 'no_sources': 0, 'disagreements': 0, 'rounding_decided_cases': 0,
           'nonfinite_statistics': 0}
    terms, meta = [], []
    for i in range(n_cases):
        kind = ('DAO', 'IRAF', 'SF')[i % 3]
        img, scene = make_scene(rng)
        p, res = RUNNERS[kind](rng, img, scene)
        if res is None:
            out['no_sources'] += 1
            ctx.stat('statistics_' + kind, 'no_sources')
            continue
        terms.append(res['term'])
        desc = {'finder': kind, 'scene': scene, 'params': p, 'image': img.tolist(),
                'sources': [{'y': y, 'x': x, 'impl': dict(zip(res['attrs'], map(_jf, v)))}
                            for y, x, v in res['srcs']]}
        meta.append(desc)
        out['cases'] += 1
        out['sources'] += len(res['srcs'])
        ctx.stat('statistics_' + kind, 'cases')
        ctx.stat('statistics_' + kind, 'sources', len(res['srcs']))
        ctx.stat('statistics_' + kind, f'scene={scene}')
        ctx.stat('statistics_' + kind, 'kernel=%dx%d' % res['shape'])
        ctx.stat('statistics_' + kind, 'positions=' + ('xycoords' if p.get('xy') else 'peaks'))
        if kind == 'IRAF':
            ctx.stat('statistics_IRAF', f'nsky={res["nsky"]}')
        ny, nx = img.shape
        hy, hx = res['shape'][0] // 2, res['shape'][1] // 2
        for y, x, v in res['srcs']:
            if y < hy or x < hx or y >= ny - hy or x >= nx - hx:
                ctx.stat('statistics_' + kind, 'sources_with_cutout_over_the_frame')
            nf = [a for a, q in zip(res['attrs'], v) if not math.isfinite(q)]
            if nf:
                out['nonfinite_statistics'] += 1
                ctx.stat('statistics_' + kind, 'sources_with_nonfinite_statistic')
                for a in nf:
                    ctx.stat('statistics_nonfinite', f'{kind}.{a}')
        ctx.count_case(['C14D', kind, scene, str(p), len(res['srcs'])], True)
    if len(ctx.cov['samples']) < 8 and meta:
        ctx.sample({'statistics_case': {k: v for k, v in meta[0].items() if k != 'image'}}, limit=8)
    if not terms:
        return out
    bad = ctx.coq_eval_cases(IMPORTS, 'check_case', terms, case_type='case', tag='c14d')
    # cases in which some comparison was NOT made: a DAOFIND fit branch decided by rounding, or an IRAF /
    # StarFinder quotient whose denominator (M00 with an inexact sky, mu_sum of a one-pixel source) lies within
    # its own error bound of 0, so that no finite error bound exists (exactly 0/0 computed as tiny/tiny)
    amb = ctx.coq_eval_cases(IMPORTS, 'case_unambiguous', terms, case_type='case', tag='c14d_amb')
    out['rounding_decided_cases'] = len(amb)
    for j in amb:
        ctx.stat('statistics_' + meta[j]['finder'], 'rounding_decided:scene=' + meta[j]['scene'])
    out['disagreements'] = len(bad)
    for i in bad[:10]:
        try:
            model = ctx.coq_eval_term(IMPORTS, f'model_out ({terms[i]})', tag='c14d_detail')
        except Exception as e:      # diagnostics only
            model = repr(e)[:300]
        m = meta[i]
        ctx.violation(f'correspondence:C14D_Model.check_case:{m["finder"]}',
                      f'a per-source statistic of the {m["finder"]} raw catalog differs from the exact-arithmetic '
                      'model of its defining formula (beyond the forward error bound)',
                      {'case': m, 'attributes': {'DAO': DAO_ATTRS, 'IRAF': IRAF_ATTRS, 'SF': SF_ATTRS}[m['finder']],
                       'model': model}, found_input=False)
    for k, v in out.items():
        ctx.stat('statistics_totals', k, v)
    return out


def replay(obj):
    """re-run one recorded statistics case (the dict written by ctx.violation) -> 0 agrees / 1 disagrees"""
    from . import core
    case = obj['replay']['case'] if 'replay' in obj else obj['case']
    kind = case['finder']
    p = dict(case['params'])
    if p.get('xy') is not None:
        p['xy'] = [tuple(q) for q in p['xy']]
    if p.get('kernel') is not None:
        p['kernel'] = tuple(p['kernel'])
    img = np.array(case['image'], float)
    core.setup_repo_path()
    ctx = core.Ctx('C14D', 'quick', 0)
    ok, log, missing = core.build_files(['lib/Cases.v', 'C14D_Model.v'])
    _, res = RUNNERS[kind](None, img, case['scene'], p)
    if res is None:
        print('no sources')
        return 0
    bad = ctx.coq_eval_cases(IMPORTS, 'check_case', [res['term']], case_type='case', tag='c14d_replay')
    amb = ctx.coq_eval_cases(IMPORTS, 'case_unambiguous', [res['term']], case_type='case', tag='c14d_replay_amb')
    model = ctx.coq_eval_term(IMPORTS, f'model_out ({res["term"]})', tag='c14d_replay_detail')
    for (y, x, v) in res['srcs']:
        print((y, x), dict(zip(res['attrs'], map(_jf, v))))
    print('model:', model)
    print('comparison skipped somewhere (rounding-decided / unconstrained quotient):', bool(amb))
    print('model and implementation agree' if not bad else 'model and implementation DISAGREE')
    return 1 if bad else 0


def replay_file(path):
    import json
    return replay(json.load(open(path)))


def main(argv=None):
    """Standalone: python -m harness.c14d [n_cases] [seed]  (uses a private work directory)."""
    import json
    import sys
    from . import core
    argv = sys.argv[1:] if argv is None else argv
    if argv and argv[0] == '--replay':
        return replay_file(argv[1])
    n = int(argv[0]) if argv else 150
    seed = int(argv[1]) if len(argv) > 1 else 0
    core.setup_repo_path()
    ctx = core.Ctx('C14D', 'quick', seed)
    ok, log, missing = core.build_files(['lib/Cases.v', 'C14D_Model.v'])
    if missing:
        print(log[-2000:])
        return 2
    out = run_statistics_correspondence(ctx, n)
    print(json.dumps({'result': out, 'distribution': ctx.cov['correspondence']}, indent=1))
    for sig, what, path, found in ctx.violations:
        print('VIOLATION', sig, what, path)
    return 1 if ctx.violations else 0


if __name__ == '__main__':
    raise SystemExit(main())
