"""C11E (stretch of C11): the estimator classes that C11 leaves as the Section variables `est` / `rms`.

Tie between the Coq models of photutils.background.core's estimator classes (coq/C11E_Model.v: exact
arithmetic over Q of the code AFTER sigma clipping) and the real classes called with sigma_clip=None.

`run_estimator_correspondence(ctx, n_cases)` is meant to be called from the C11 harness after its
`ctx.build_with_translator(..., after_files=[... C11S files ..., 'C11E_Model.v', 'C11E_Proofs.v',
'C11E_Properties.v'])`:
  * generates `n_cases` lists of small dyadic rationals (n = 1..60: noise with outliers, few distinct
    values (ties), constants (dyadic, and full-mantissa ones with n <= 2), clusters, MAD = 0 with std != 0, one-off, ramps, lists tuned so that
    |mean - median|/std is close to SExtractor's 0.3 switch),
  * runs EVERY estimator class on each list through up to three call paths: the 1-D array (axis=None), a
    NaN-padded 2-D array with axis=1 / axis=0 (the vectorised path: np.where / boolean-mask assignment
    instead of the scalar early returns), and an int64 array when the values are integers (the numpy
    side of the bottleneck dispatch in photutils.utils._stats),
  * decides SExtractor's switch with Fractions; a list whose exact ratio^2 is within 2^-30 (relative)
    of 0.09 is MARGINAL for that class: skipped and counted (the float ratio may fall on either side);
    likewise a biweight-scale case whose exact denominator sum is 0 (the float sum need not be),
  * evaluates `check_est_case` inside Coq (vm_compute): exact equality where the float computation is
    exact on the lattice (median, constant lists, zero RMS), otherwise |impl - model| <= 2^-40 * scale
    by cross-multiplication on the exact binary expansion of the float (squares for the RMS classes),
  * checks the theorems on the implementation itself: est(2^k v + b) = 2^k est(v) + b and
    rms(2^k v + b) = 2^k rms(v) (to 2^-40 of the scale), est within [min, max] for mean / median /
    biweight location.
"""
import hashlib
import math
import random
import warnings
from fractions import Fraction

import numpy as np

from .core import Some, coq

IMPORTS = ['C11_Model', 'C11S_Model', 'C11E_Model']
COQ_FILES = ['C11E_Model.v', 'C11E_Proofs.v', 'C11E_Properties.v']   # after the C11 and C11S files
MADSTD_K = Fraction(1.482602218505602)        # the constant of astropy.stats.mad_std, as the double it is
MARGIN = Fraction(1, 2**30)
TOL = Fraction(1, 2**40)

# what the Coq development covers, for the evidence file (ctx.cov['estimator_classes'])
EVIDENCE = {
    'model': 'coq/C11E_Model.v: exact arithmetic over Q of calc_background / calc_background_rms after sigma clipping '
             '(sigma_clip=None path), M=None for the biweight classes; RMS classes as SQUARED statistics',
    'proved_for_every_class': {
        'MeanBackground': ['est_affine (any a)', 'est_constant', 'est_within_hull', 'constant_image_exact_mean',
                           'shift_scale_equivariant_sigma_clip_mean'],
        'MedianBackground': ['est_affine (a > 0)', 'est_constant', 'est_within_hull', 'constant_image_exact_median',
                             'shift_scale_equivariant_sigma_clip_median'],
        'ModeEstimatorBackground': ['est_affine iff median_factor - mean_factor = 1 (general factors: shift picks up '
                                    '(mf - nf)*b; refuted otherwise)', 'est_constant (same condition)',
                                    'NOT within hull', 'constant_image_exact_mode', 'shift_scale_equivariant_sigma_clip_mode'],
        'MMMBackground': ['est_affine', 'est_constant', 'NOT within hull (witness [0,0,1] -> -2/3)',
                          'constant_image_exact_mmm', 'shift_scale_equivariant_sigma_clip_mmm'],
        'SExtractorBackground': ['est_affine (std == 0 test and 0.3 switch are scale-free)',
                                 'est_constant (through the std == 0 branch)', 'NOT within hull (witness 12 x 0, 1)',
                                 'switch on squares = ratio test', 'constant_image_exact_sextractor',
                                 'shift_scale_equivariant_sigma_clip_sextractor'],
        'BiweightLocationBackground': ['est_affine (every c)', 'est_constant (through the MAD == 0 branch)',
                                       'est_within_hull (every c)', 'quotient defined for c > 1 (c = 1: NaN witness)',
                                       '|u| >= 1 vs > 1 immaterial', 'constant_image_exact_biweight',
                                       'shift_scale_equivariant_sigma_clip_biweight'],
        'StdBackgroundRMS^2': ['rms2_affine (a^2, shift-invariant)', 'rms2_constant (0)', 'rms2_nonneg'],
        'MADStdBackgroundRMS^2': ['rms2_affine', 'rms2_constant', 'rms2_nonneg', 'MAD affine / non-negative'],
        'BiweightScaleBackgroundRMS^2': ['rms2_affine (every c)', 'rms2_constant (through mad**2)', 'rms2_nonneg',
                                         '|u| < 1 vs <= 1 immaterial'],
    },
    'still_premises': [
        'the square root: C11 states its RMS premise for the RMS (scales by k), which is not a function Q -> Q; the '
        'C11E corollaries take rt : Q -> Q with rt(k^2 x) = k rt(x) and == compatibility (constant image: rt 0 = 0; pure '
        'shift k = 1: compatibility only) and prove the premise for rt o rms2; the squared statistics scale by k^2 (proved)',
        'library numerics of C11 (Shepard fill, window median, upscaling) unchanged',
        'user-supplied M, modify_sample_size, masked arrays, units: not modelled',
    ],
}

# (name, code, constructor kwargs, p1, p2)
BKG_DEFAULTS = [
    ('MeanBackground', 0, {}, None, None),
    ('MedianBackground', 1, {}, None, None),
    ('MMMBackground', 3, {}, None, None),
    ('SExtractorBackground', 4, {}, None, None),
]
MODE_FACTORS = [(Fraction(3), Fraction(2)), (Fraction(3), Fraction(2)), (Fraction(5, 2), Fraction(3, 2)),
                (Fraction(2), Fraction(1)), (Fraction(3), Fraction(1)), (Fraction(1), Fraction(0)),
                (Fraction(7, 4), Fraction(3, 4))]
BW_LOC_C = [Fraction(6), Fraction(6), Fraction(6), Fraction(9), Fraction(3), Fraction(2), Fraction(3, 2), Fraction(1)]
BW_SCALE_C = [Fraction(9), Fraction(9), Fraction(9), Fraction(6), Fraction(3), Fraction(2), Fraction(1)]


# --------------------------------------------------------------------------
# exact reference pieces (Fractions) used for decision margins
# --------------------------------------------------------------------------
def _median(vals):
    s = sorted(vals)
    n = len(s)
    return s[n // 2] if n % 2 else (s[n // 2 - 1] + s[n // 2]) / 2


def exact_stats(vals):
    n = len(vals)
    mean = sum(vals) / n
    med = _median(vals)
    var = sum((x - mean) ** 2 for x in vals) / n
    mad = _median([abs(x - med) for x in vals])
    return mean, med, var, mad


def sext_margin(vals):
    """None if SExtractor's switch is safely decided, else 'exact' / 'near'."""
    mean, med, var, _ = exact_stats(vals)
    if var == 0:
        return None
    lhs, rhs = (mean - med) ** 2, Fraction(9, 100) * var
    if lhs == rhs:
        return 'exact'
    if abs(lhs - rhs) <= MARGIN * rhs:
        return 'near'
    return None


def midvar_singular(vals, c):
    """True when the exact denominator sum of biweight_midvariance is 0 although MAD != 0."""
    _, med, _, mad = exact_stats(vals)
    if mad == 0:
        return False
    s = Fraction(0)
    for x in vals:
        u = (x - med) / (c * mad)
        if abs(u) < 1:
            s += (1 - u * u) * (1 - 5 * u * u)
    return s == 0


# --------------------------------------------------------------------------
# the implementation
# --------------------------------------------------------------------------
def _make(name, kwargs):
    import photutils.background.core as core
    return getattr(core, name)(sigma_clip=None, **kwargs)


def _fl(x):
    """float -> Coq `fl`: Some (m, e) with x = m * 2^e exactly, None for NaN / inf."""
    x = float(x)
    if not math.isfinite(x):
        return None
    if x == 0.0:
        return Some((0, 0))
    m, e = math.frexp(x)
    m = int(m * (1 << 53))
    e -= 53
    while m % 2 == 0:
        m //= 2
        e += 1
    return Some((m, e))


def _frac(x):
    x = float(x)
    return Fraction(x) if math.isfinite(x) else None


def call_1d(est, fvals, dtype=float):
    with warnings.catch_warnings():
        warnings.simplefilter('ignore')
        with np.errstate(all='ignore'):
            return float(est(np.array(fvals, dtype=dtype)))


def call_axis(est, rows, axis):
    """rows: list of float lists; NaN-padded to a rectangle; the statistic along each row."""
    w = max(len(r) for r in rows)
    a = np.full((len(rows), w), np.nan)
    for i, r in enumerate(rows):
        a[i, :len(r)] = r
    with warnings.catch_warnings():
        warnings.simplefilter('ignore')
        with np.errstate(all='ignore'):
            r = est(a if axis == 1 else np.ascontiguousarray(a.T), axis=axis)
    r = np.asarray(r, dtype=float)
    assert r.shape == (len(rows),), r.shape
    return [float(v) for v in r]


# --------------------------------------------------------------------------
# generators
# --------------------------------------------------------------------------
KINDS = ['noise+outliers', 'few-values', 'constant', 'clusters', 'uniform', 'symmetric', 'ramp', 'one-off',
         'mad0', 'skew', 'sext-near', 'constant-full-mantissa']
KINDS_W = [8, 5, 2, 3, 4, 2, 2, 2, 3, 4, 7, 3]
FULL_DEN = 2 ** 52


def _ratio2(vals):
    mean, med, var, _ = exact_stats(vals)
    return None if var == 0 else (mean - med) ** 2 / var


def tune_sext(rng, z):
    """hill-climb integer values so that (mean - median)^2 / var approaches 0.09"""
    z = list(z)
    target = Fraction(9, 100)
    best = _ratio2([Fraction(v) for v in z])
    for _ in range(rng.randint(10, 60)):
        i = rng.randrange(len(z))
        old = z[i]
        z[i] = old + rng.choice([-1, 1]) * rng.choice([1, 1, 2, 3, 7, 20, 60])
        r = _ratio2([Fraction(v) for v in z])
        if r is not None and (best is None or abs(r - target) < abs(best - target)):
            best = r
        else:
            z[i] = old
    return z


def gen_values(rng):
    kind = rng.choices(KINDS, KINDS_W)[0]
    if kind == 'constant-full-mantissa':
        # a constant c in [1, 2) with all 53 mantissa bits in use, n <= 2 (c + c and (c + c)/2 are exact, so the
        # float mean is c, std and MAD are 0): the special-case branches must return c itself, whereas e.g.
        # 2.5*c - 1.5*c is rounded
        z = FULL_DEN + rng.randrange(FULL_DEN) | 1
        return kind, FULL_DEN, [z] * rng.randint(1, 2)
    n = rng.randint(1, 10) if rng.random() < 0.35 else rng.randint(1, 60)
    den = rng.choice([1, 1, 2, 4, 8, 16])
    off = rng.choice([0, 0, 0, 3, -7, 100, 1000, -250]) * den + rng.randint(0, den - 1)
    if kind == 'noise+outliers':
        z = [rng.randint(-8, 8) + rng.randint(-8, 8) for _ in range(n)]
        for _ in range(rng.randint(0, max(1, n // 6))):
            z[rng.randrange(n)] = rng.choice([-1, 1]) * rng.randint(30, 2000)
    elif kind == 'few-values':
        pool = [rng.randint(-20, 20) for _ in range(rng.randint(2, 4))]
        z = [rng.choice(pool) for _ in range(n)]
    elif kind == 'constant':
        z = [rng.randint(-50, 50)] * n
    elif kind == 'clusters':
        c1, c2 = rng.randint(-100, 0), rng.randint(1, 300)
        w = rng.randint(0, 4)
        z = [rng.choice([c1, c2]) + rng.randint(-w, w) for _ in range(n)]
    elif kind == 'uniform':
        r = rng.choice([3, 10, 100, 2000])
        z = [rng.randint(-r, r) for _ in range(n)]
    elif kind == 'symmetric':
        a = rng.randint(1, 30)
        z = [rng.choice([-a, 0, 0, a]) for _ in range(n)]
    elif kind == 'ramp':
        s = rng.randint(1, 5)
        z = [s * i for i in range(n)]
        rng.shuffle(z)
    elif kind == 'one-off':
        z = [rng.randint(-10, 10)] * n
        z[rng.randrange(n)] += rng.choice([-1, 1]) * rng.choice([1, 2, 50, 1000])
    elif kind == 'mad0':          # more than half of the values equal: MAD = 0, std != 0 (mostly)
        n = max(n, 3)
        c0 = rng.randint(-10, 10)
        z = [c0] * n
        for i in rng.sample(range(n), rng.randint(1, (n - 1) // 2)):
            z[i] = c0 + rng.choice([-1, 1]) * rng.randint(1, 40)
    elif kind == 'skew':          # long one-sided tail: mean pulled away from the median
        z = [rng.randint(0, 6) for _ in range(n)]
        for i in range(n):
            if rng.random() < 0.2:
                z[i] += rng.randint(5, 60)
    else:                         # sext-near
        n = max(n, 5)
        n = min(n, 32)
        z = [rng.randint(0, 10) for _ in range(n)]
        z[rng.randrange(n)] += rng.randint(5, 40)
        z = tune_sext(rng, z)
    return kind, den, [v + off for v in z]


LANDMARKS = [   # the measure-zero behaviours named in C11E_Model.v / C11E_Properties.v
    dict(den=1, zs=[0] * 12 + [1]),            # mode / MMM / SExtractor extrapolate below the minimum
    dict(den=1, zs=[0, 0, 1]),                 # MMM = -2/3 < min; SExtractor switches to the median
    dict(den=1, zs=[0, 2]),                    # biweight c = 1: every weight 0 -> NaN
    dict(den=1, zs=[0, 0, 0, 5]),              # MAD = 0, std != 0: biweight -> median, scale -> 0
    dict(den=1, zs=[7]),
    dict(den=4, zs=[-3, -3]),
    dict(den=2, zs=[5, 5, 5, 5, 5, 5]),
    dict(den=1, zs=[1, 2]),
    dict(den=1, zs=[1, 2, 3, 4, 100]),
    dict(den=8, zs=[3, 1, 4, 1, 5, 9, 2, 6, 5, 3, 5, 8, 9, 7, 9, 3, 2, 3, 8, 4]),
    dict(den=1, zs=[-1, 0, 1]),                # mean = median
    dict(den=1, zs=[0, 0, 0, 0, 0, 0, 0, 0, 0, 0, 0, 0, 0, 0, 0, 0, 0, 0, 0, 10, 10, 10]),
    # (mean - median)^2 = 0.09 * var EXACTLY: marginal for SExtractor (skipped and counted for that class)
    dict(den=1, zs=[0] * 9 + [1] * 13 + [19] * 3),
    dict(den=2, zs=[0] * 17 + [1] * 14 + [18] * 3),
    # the double 0.1, once and twice: std == 0 / MAD == 0 must return 0.1 itself (2.5*0.1 - 1.5*0.1 does not)
    dict(den=2 ** 55, zs=[3602879701896397]),
    dict(den=2 ** 55, zs=[3602879701896397, 3602879701896397]),
]


def _zq(fr):
    return (int(fr.numerator), int(fr.denominator))


def choose_entries(rng):
    mf, nf = rng.choice(MODE_FACTORS)
    cl = rng.choice(BW_LOC_C)
    cs = rng.choice(BW_SCALE_C)
    ents = list(BKG_DEFAULTS)
    ents.append(('ModeEstimatorBackground', 2, {'median_factor': float(mf), 'mean_factor': float(nf)}, mf, nf))
    ents.append(('BiweightLocationBackground', 5, {'c': float(cl)}, cl, None))
    ents.append(('StdBackgroundRMS', 10, {}, None, None))
    ents.append(('MADStdBackgroundRMS', 11, {}, MADSTD_K, None))
    ents.append(('BiweightScaleBackgroundRMS', 12, {'c': float(cs)}, cs, None))
    return ents


# --------------------------------------------------------------------------
def _implementation_relations(ctx, out, rng, c, ents, base):
    """The theorems, on the implementation: affine behaviour and the hull."""
    den = c['den']
    vals = [Fraction(z, den) for z in c['zs']]
    k = rng.choice([-2, -1, 1, 2, 3, 8])
    a = Fraction(2) ** k
    b = Fraction(rng.randint(-64, 64), den)
    vals2 = [a * v + b for v in vals]
    scale = max([abs(v) for v in vals] + [abs(v) for v in vals2])
    lo, hi = min(vals), max(vals)
    for (name, code, kw, p1, p2), r0 in zip(ents, base):
        if r0 is None:
            continue
        if code == 4 and (sext_margin(vals) is not None or sext_margin(vals2) is not None):
            continue
        if code == 12 and midvar_singular(vals, p1):
            continue
        est = _make(name, kw)
        r1 = _frac(call_1d(est, [float(v) for v in vals2]))
        if r1 is None:
            continue
        cond = Fraction(1)
        if code in (5, 12):     # conditioning of the biweight quotients, as in check_bkg / check_rms
            _, med, _, mad = exact_stats(vals)
            if mad != 0:
                us = [(x - med) / (p1 * mad) for x in vals]
                if code == 5:
                    cond = min(Fraction(1), sum((1 - u * u) ** 2 for u in us if abs(u) < 1))
                else:
                    cond = min(Fraction(1), abs(sum((1 - u * u) * (1 - 5 * u * u) for u in us if abs(u) < 1)))
        out['affine_runs'] += 1
        if code < 10:
            shift = b if (code != 2 or p1 - p2 == 1) else (p1 - p2) * b
            ok = abs(r1 - (a * r0 + shift)) * cond <= 8 * TOL * scale
        else:
            ok = abs(r1 - a * r0) * cond <= 8 * TOL * max(a * r0, r1)
        if not ok:
            out['affine_failures'] += 1
            ctx.violation('correspondence:C11E:affine:' + name,
                          'estimator of 2^k*v + b differs from 2^k*est(v) + b (RMS: 2^k*rms(v)) beyond 2^-37 of the scale',
                          {'class': name, 'kwargs': kw, 'den': den, 'zs': c['zs'], 'a': str(a), 'b': str(b),
                           'est': str(r0), 'est_transformed': str(r1)}, found_input=False)
        if code in (0, 1, 5):
            out['hull_runs'] += 1
            if not (lo - 8 * TOL * scale <= r0 <= hi + 8 * TOL * scale):
                out['hull_failures'] += 1
                ctx.violation('correspondence:C11E:hull:' + name, 'estimator outside [min, max] of its sample',
                              {'class': name, 'kwargs': kw, 'den': den, 'zs': c['zs'], 'est': str(r0)},
                              found_input=False)


def run_estimator_correspondence(ctx, n_cases, rng=None):
    """Returns a dict of counts; disagreements are reported through ctx.violation.
    Random choices come from a PRNG derived from ctx.seed (deterministic per seed and tier) unless `rng` is
    given (e.g. rng=ctx.rng): a derived stream keeps the case stream of the calling C11 harness unchanged."""
    if rng is None:
        rng = random.Random(int(hashlib.sha1(f'C11E:{ctx.seed}:{ctx.tier}'.encode()).hexdigest()[:12], 16))
    cases = [dict(c, kind='landmark') for c in LANDMARKS]
    while len(cases) < n_cases:
        kind, den, zs = gen_values(rng)
        cases.append({'kind': kind, 'den': den, 'zs': zs})
    out = {'lists': 0, 'entries': 0, 'coq_cases': 0, 'disagreements': 0,
           'skipped_sext_exact_tie': 0, 'skipped_sext_near_tie': 0, 'skipped_midvar_singular': 0,
           'sext_branch_mean(std=0)': 0, 'sext_branch_median': 0, 'sext_branch_2.5med-1.5mean': 0,
           'sext_within_10pct_of_switch': 0, 'nonfinite_results': 0, 'axis_calls': 0, 'int_dtype_calls': 0,
           'affine_runs': 0, 'affine_failures': 0, 'hull_runs': 0, 'hull_failures': 0}
    # batches share one choice of class parameters so that the 2-D call covers several lists at once
    terms, kept, details = [], [], []
    i = 0
    while i < len(cases):
        bsize = rng.randint(1, 6)
        batch = cases[i:i + bsize]
        i += bsize
        ents = choose_entries(rng)
        axis = rng.choice([0, 1])
        rows = [[z / c['den'] for z in c['zs']] for c in batch]
        per_list = [[[] for _ in ents] for _ in batch]       # impl results per list per entry
        for ei, (name, code, kw, p1, p2) in enumerate(ents):
            est = _make(name, kw)
            for li, row in enumerate(rows):
                per_list[li][ei].append(call_1d(est, row))
                if batch[li]['den'] == 1:
                    per_list[li][ei].append(call_1d(est, [int(v) for v in row], dtype=np.int64))
                    out['int_dtype_calls'] += 1
            if len(batch) > 1 or rng.random() < 0.5:
                for li, v in enumerate(call_axis(est, rows, axis)):
                    per_list[li][ei].append(v)
                out['axis_calls'] += 1
        for li, c in enumerate(batch):
            out['lists'] += 1
            den = c['den']
            vals = [Fraction(z, den) for z in c['zs']]
            ctx.stat('estimators', 'kind:' + c['kind'])
            ctx.stat('estimators', 'n:' + ('1' if len(vals) == 1 else '2' if len(vals) == 2 else
                                           '3-10' if len(vals) <= 10 else '11-60'))
            mean, med, var, mad = exact_stats(vals)
            ctx.stat('estimators', 'std:' + ('0' if var == 0 else '>0') + ',mad:' + ('0' if mad == 0 else '>0'))
            margin = sext_margin(vals)
            if var == 0:
                out['sext_branch_mean(std=0)'] += 1
            else:
                r2 = (mean - med) ** 2 / var
                if Fraction(81, 1000) <= r2 <= Fraction(1089, 10000):
                    out['sext_within_10pct_of_switch'] += 1
                if margin is None:
                    out['sext_branch_median' if r2 >= Fraction(9, 100) else 'sext_branch_2.5med-1.5mean'] += 1
            entries, base = [], []
            for ei, (name, code, kw, p1, p2) in enumerate(ents):
                res = per_list[li][ei]
                base.append(_frac(res[0]))
                if code == 4 and margin is not None:
                    out['skipped_sext_exact_tie' if margin == 'exact' else 'skipped_sext_near_tie'] += 1
                    ctx.stat('estimators', 'skipped:sextractor-' + margin + '-tie')
                    base[-1] = None
                    continue
                if code == 12 and midvar_singular(vals, p1):
                    out['skipped_midvar_singular'] += 1
                    ctx.stat('estimators', 'skipped:midvariance-singular')
                    base[-1] = None
                    continue
                if any(not math.isfinite(v) for v in res):
                    out['nonfinite_results'] += 1
                entries.append((code, _zq(p1 if p1 is not None else Fraction(0)),
                                _zq(p2 if p2 is not None else Fraction(0)), [_fl(v) for v in res]))
                out['entries'] += 1
                ctx.stat('estimators', 'class:' + name)
            ctx.count_case(('estimators', c['kind'], den, tuple(c['zs']), tuple(str(e[:3]) for e in entries)),
                           nontrivial=len(set(vals)) > 1)
            terms.append(coq((int(den), [int(z) for z in c['zs']], entries)))
            kept.append(c)
            details.append({'den': den, 'zs': c['zs'], 'kind': c['kind'],
                            'classes': [(n_, kw_, [repr(v) for v in per_list[li][ei]])
                                        for ei, (n_, _, kw_, _, _) in enumerate(ents)]})
            if rng.random() < 0.5 and den < 2 ** 40:      # (a*v + b is not a double for the full-mantissa constants)
                _implementation_relations(ctx, out, rng, c, ents, base)
    if kept and len(ctx.cov['samples']) < 8:
        ctx.sample({'estimator_case': details[-1]}, limit=8)
    bad = ctx.coq_eval_cases(IMPORTS, 'check_est_case', terms, case_type='est_case', tag='estim')
    out['coq_cases'] = len(terms)
    out['disagreements'] = len(bad)
    for j in bad[:10]:
        try:
            model = ctx.coq_eval_term(IMPORTS, f'est_model_out {terms[j]}', tag='estim_detail')
        except Exception as e:      # diagnostics only
            model = repr(e)[:300]
        ctx.violation('correspondence:C11E_Model.check_est_case',
                      'an estimator class (sigma_clip=None) differs from the exact-arithmetic model of its arithmetic '
                      '(beyond 2^-40 of the scale; SExtractor lists near the 0.3 switch excluded)',
                      {'case': details[j], 'model(stats=(median,mean,var,mad); per entry: code, ok, value, defined)': model},
                      found_input=False)
    for k, v in out.items():
        ctx.stat('estimator_totals', k, v)
    ctx.support('estimator_affine_on_implementation', out['affine_runs'])
    ctx.support('estimator_within_hull_on_implementation', out['hull_runs'])
    ctx.cov['estimator_classes'] = dict(EVIDENCE, correspondence=dict(out))
    ctx.assumptions.append(
        'C11E: the estimator classes are tied to their exact-arithmetic model on dyadic samples (n <= 60) to 2^-40 of '
        'the scale (squares for the RMS classes; exact for the median, zero RMS and the constant-sample branches); '
        'SExtractor samples with |mean - median|/std within 2^-30 of 0.3 are skipped and counted; the square root is '
        'a parameter of the C11 corollaries (homogeneity of degree 1/2)')
    return out


def main(argv=None):
    """Standalone: python -m harness.c11e [n_cases] [seed]  (uses a private work directory)."""
    import json
    import sys
    from . import core
    argv = sys.argv[1:] if argv is None else argv
    n = int(argv[0]) if argv else 300
    seed = int(argv[1]) if len(argv) > 1 else 0
    core.setup_repo_path()
    ctx = core.Ctx('C11E', 'quick', seed)
    ok, log, missing = core.build_files(['lib/Cases.v', 'C11_Model.v', 'C11S_Model.v', 'C11E_Model.v'])
    if missing:
        print(log[-2000:])
        return 2
    out = run_estimator_correspondence(ctx, n)
    print(json.dumps({'result': out, 'distribution': ctx.cov['correspondence']}, indent=1))
    for sig, what, path, found in ctx.violations:
        print('VIOLATION', sig, what, path)
    return 1 if ctx.violations else 0


if __name__ == '__main__':
    raise SystemExit(main())
