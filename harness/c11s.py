"""C11S (stretch of C11): the sigma clip that C11 leaves as a Section variable.

Tie between the Coq model of astropy.stats.SigmaClip (coq/C11S_Model.v: exact arithmetic over
Q, cenfunc in {median, mean}, stdfunc='std', maxiters as fuel) and the installed implementation
(both code paths: `_sigmaclip_noaxis` for axis=None, the C loop `_sigma_clip_fast` for axis=0).

`run_sigma_clip_correspondence(ctx, n_cases)` is meant to be called from the C11 harness after
its `ctx.build(...)` (with the C11S files among FILES so that C11S_Model.vo exists):
  * generates lists of small dyadic rationals (n = 1..40; ties, constants, outliers, clusters),
  * runs SigmaClip(sigma, sigma_lower, sigma_upper, maxiters, cenfunc, stdfunc='std') on them,
  * recomputes the algorithm with Fractions to find the DECISION MARGIN of every comparison of
    every iteration; a case where some value sits on (or within 1e-9 relative of) a clipping
    bound is skipped and counted, because the rounding of mean / sqrt may flip it,
  * evaluates `check_clip_case` (the model's keep-mask and iteration count against the
    implementation's) inside Coq with vm_compute, exactly,
  * also checks the theorem itself on the implementation: the keep-mask of 2^k * v + b equals
    the keep-mask of v (cases with a near-tie on either side are skipped and counted).
Nothing here is float-compared: masks are booleans, the iteration count an integer.
"""
import math
import warnings
from fractions import Fraction

import numpy as np

from .core import Some

IMPORTS = ['C11_Model', 'C11S_Model']
COQ_FILES = ['C11S_Model.v', 'C11S_Proofs.v', 'C11S_Properties.v']   # after the C11 files
EPS = Fraction(1, 10**9)


# --------------------------------------------------------------------------
# exact reference (Fractions) with decision margins
# --------------------------------------------------------------------------
def _median(vals):
    s = sorted(vals)
    n = len(s)
    return s[n // 2] if n % 2 else (s[n // 2 - 1] + s[n // 2]) / 2


def _gt_sqrt(x, s, var, scale2):
    """Decide x > s*sqrt(var) exactly; second result: kind of tie
    (None = safely decided, 'exact' = x equals the bound, 'near' = within EPS)."""
    t2 = s * s * var
    st = (s > 0) - (s < 0) if var > 0 else 0
    sx = (x > 0) - (x < 0)
    if st == 0 and sx == 0:
        return False, None          # 0 > 0: computed without any rounding (see module doc)
    if st == 0:
        dec = x > 0
    elif st > 0:
        dec = x > 0 and x * x > t2
    else:
        dec = x >= 0 or x * x < t2
    if sx * st > 0:                 # same sign: |x - t| (|x| + |t|) = |x^2 - t^2|
        if x * x == t2:
            return dec, 'exact'
        if abs(x * x - t2) <= EPS * (x * x + t2 + scale2):
            return dec, 'near'
    else:                           # |x - t| = |x| + |t|
        if x * x + t2 <= EPS * scale2:
            return dec, 'near'
    return dec, None


def exact_clip(vals, med, sl, su, maxiters):
    """vals: list of Fraction.  Returns (keep-mask, iterations, tie kind or None)."""
    scale2 = max([abs(v) for v in vals] + [Fraction(1, 2**30)]) ** 2
    tie = [None]

    def note(k):
        if k == 'exact' or (k == 'near' and tie[0] is None):
            tie[0] = k

    def keep(cur, v):
        if not cur:
            return True
        n = len(cur)
        mean = sum(cur) / n
        cen = _median(cur) if med else mean
        var = sum((x - mean) ** 2 for x in cur) / n
        lo, k1 = _gt_sqrt(cen - v, sl, var, scale2)
        hi, k2 = _gt_sqrt(v - cen, su, var, scale2)
        note(k1)
        note(k2)
        return not (lo or hi)

    cur = list(vals)
    it = 0
    nchanged = 1
    src = None
    while nchanged != 0 and (maxiters is None or it < maxiters):
        it += 1
        src = cur
        nxt = [v for v in cur if keep(cur, v)]
        nchanged = len(cur) - len(nxt)
        cur = nxt
    return [keep(src, v) for v in vals], it, tie[0]


# --------------------------------------------------------------------------
# the implementation
# --------------------------------------------------------------------------
def impl_clip(fvals, med, sigma, sigma_lower, sigma_upper, maxiters, fast):
    from astropy.stats import SigmaClip
    sc = SigmaClip(sigma=sigma, sigma_lower=sigma_lower, sigma_upper=sigma_upper, maxiters=maxiters,
                   cenfunc='median' if med else 'mean', stdfunc='std')
    a = np.array(fvals, dtype=float)
    with warnings.catch_warnings():
        warnings.simplefilter('ignore')
        if fast:
            r = sc(a, axis=0, masked=True)
            nit = None
        else:
            r = sc(a, masked=True)
            nit = int(sc._niterations)
    return [bool(b) for b in ~np.ma.getmaskarray(r)], nit


# --------------------------------------------------------------------------
# generators
# --------------------------------------------------------------------------
SIGMAS = [Fraction(0), Fraction(1, 2), Fraction(1), Fraction(3, 2), Fraction(2), Fraction(5, 2),
          Fraction(3), Fraction(5), Fraction(3, 4), Fraction(-1)]
SIGMA_W = [1, 3, 5, 5, 6, 5, 8, 3, 2, 1]
MAXITERS = [None, 0, 1, 2, 3, 5, 10, 50]
MAXITERS_W = [5, 1, 4, 3, 3, 6, 3, 1]
KINDS = ['noise+outliers', 'few-values', 'constant', 'clusters', 'uniform', 'symmetric', 'ramp', 'one-off']
KINDS_W = [8, 4, 1, 3, 4, 2, 2, 2]


def gen_values(rng):
    kind = rng.choices(KINDS, KINDS_W)[0]
    n = rng.choice([1, 2, 3, 4, 5, 6, 7, 8, 9, 10]) if rng.random() < 0.4 else rng.randint(1, 40)
    den = rng.choice([1, 2, 4, 8, 16])
    off = rng.choice([0, 0, 0, 3, -7, 100, 1000, -250]) * den + rng.randint(0, den - 1)
    if kind == 'noise+outliers':
        z = [rng.randint(-8, 8) + rng.randint(-8, 8) for _ in range(n)]
        for _ in range(rng.randint(0, max(1, n // 6))):
            z[rng.randrange(n)] = rng.choice([-1, 1]) * rng.randint(30, 2000)
    elif kind == 'few-values':
        pool = [rng.randint(-20, 20) for _ in range(rng.randint(2, 4))]
        z = [rng.choice(pool) for _ in range(n)]
    elif kind == 'constant':
        z = [rng.randint(-50, 50)] * n
    elif kind == 'clusters':
        c1, c2 = rng.randint(-100, 0), rng.randint(1, 300)
        w = rng.randint(0, 4)
        z = [rng.choice([c1, c2]) + rng.randint(-w, w) for _ in range(n)]
    elif kind == 'uniform':
        r = rng.choice([3, 10, 100, 5000])
        z = [rng.randint(-r, r) for _ in range(n)]
    elif kind == 'symmetric':
        a = rng.randint(1, 30)
        z = [rng.choice([-a, 0, 0, a]) for _ in range(n)]
    elif kind == 'ramp':
        s = rng.randint(1, 5)
        z = [s * i for i in range(n)]
        rng.shuffle(z)
    else:   # one value off a constant
        z = [rng.randint(-10, 10)] * n
        z[rng.randrange(n)] += rng.choice([-1, 1]) * rng.choice([1, 2, 50, 1000])
    return kind, den, [v + off for v in z]


def gen_case(rng):
    kind, den, zs = gen_values(rng)
    sg = rng.choices(SIGMAS, SIGMA_W)[0]
    slo = rng.choices(SIGMAS, SIGMA_W)[0] if rng.random() < 0.3 else None
    shi = rng.choices(SIGMAS, SIGMA_W)[0] if rng.random() < 0.3 else None
    mi = rng.choices(MAXITERS, MAXITERS_W)[0]
    return {'kind': kind, 'den': den, 'zs': zs, 'med': rng.random() < 0.5, 'sigma': sg, 'sigma_lower': slo,
            'sigma_upper': shi, 'maxiters': mi, 'fast': rng.random() < 0.5}


LANDMARKS = [   # the measure-zero behaviours named in C11S_Model.v / C11S_Properties.v
    dict(den=1, zs=[0, 10], med=True, sigma=Fraction(1, 2), maxiters=1),        # everything rejected and masked
    dict(den=1, zs=[0, 10], med=True, sigma=Fraction(1, 2), maxiters=None),     # ... then NaN bounds: nothing masked
    dict(den=1, zs=[0, 10], med=False, sigma=Fraction(1, 2), maxiters=5),
    dict(den=1, zs=[0, 10, 5], med=True, sigma=Fraction(-1), maxiters=5),       # negative sigma
    dict(den=1, zs=[3, 3, 3], med=True, sigma=Fraction(0), maxiters=5),         # std = 0
    dict(den=1, zs=[1, 2, 3], med=False, sigma=Fraction(0), maxiters=5),        # sigma = 0 keeps the centre only
    dict(den=1, zs=[1, 2, 3, 100], med=False, sigma=Fraction(1), sigma_lower=Fraction(0), maxiters=0),
    dict(den=1, zs=[7], med=True, sigma=Fraction(3), maxiters=5),
    dict(den=4, zs=[-2, -2, -1, 0, 0, 0, 0, 400], med=True, sigma=Fraction(3), maxiters=None),
    # re-admission: the 60s are rejected in iteration 1 but inside the last bounds (not an accumulated mask)
    dict(den=1, zs=[2, 78, 49, 49, 119, 85, 60, 60], med=True, sigma=Fraction(3), sigma_lower=Fraction(3),
         sigma_upper=Fraction(1, 2), maxiters=None),
]


def _sig(x):
    return None if x is None else float(x)


def _resolved(c):
    sg = c['sigma']
    sl = c.get('sigma_lower') or sg        # `sigma_lower or sigma`
    su = c.get('sigma_upper') or sg
    mi = c.get('maxiters') or None         # `maxiters or np.inf`
    return sl, su, mi


def _zq(fr):
    return (fr.numerator, fr.denominator)


def to_coq(c, keep, nit):
    from .core import coq
    return coq((bool(c['med']), _zq(c['sigma']),
                None if c.get('sigma_lower') is None else Some(_zq(c['sigma_lower'])),
                None if c.get('sigma_upper') is None else Some(_zq(c['sigma_upper'])),
                None if c.get('maxiters') is None else Some(int(c['maxiters'])),
                int(c['den']), [int(z) for z in c['zs']], [bool(k) for k in keep],
                None if nit is None else Some(int(nit))))


def describe(c):
    return {k: (str(v) if isinstance(v, Fraction) else v) for k, v in c.items()}


# --------------------------------------------------------------------------
def run_sigma_clip_correspondence(ctx, n_cases):
    """Returns a dict of counts; disagreements are reported through ctx.violation."""
    rng = ctx.rng
    cases = [dict(c, kind='landmark', fast=f) for c in LANDMARKS for f in (False, True)]
    while len(cases) < n_cases:
        cases.append(gen_case(rng))
    out = {'cases': 0, 'skipped_exact_tie': 0, 'skipped_near_tie': 0, 'coq_cases': 0, 'disagreements': 0,
           'reference_disagreements': 0, 'equivariance_runs': 0, 'equivariance_skipped_tie': 0,
           'equivariance_failures': 0}
    terms, kept_cases, impl_out = [], [], []
    for c in cases:
        out['cases'] += 1
        den = c['den']
        vals = [Fraction(z, den) for z in c['zs']]
        fvals = [z / den for z in c['zs']]
        sl, su, mi = _resolved(c)
        ref_keep, ref_nit, tie = exact_clip(vals, c['med'], sl, su, mi)
        ctx.stat('sigma_clip', 'kind:' + c['kind'])
        ctx.stat('sigma_clip', 'path:' + ('fast-C' if c.get('fast') else 'noaxis'))
        ctx.stat('sigma_clip', 'cenfunc:' + ('median' if c['med'] else 'mean'))
        if tie is not None:
            out['skipped_exact_tie' if tie == 'exact' else 'skipped_near_tie'] += 1
            ctx.stat('sigma_clip', 'skipped:' + tie + '-tie')
            continue
        keep, nit = impl_clip(fvals, c['med'], _sig(c['sigma']), _sig(c.get('sigma_lower')),
                              _sig(c.get('sigma_upper')), c.get('maxiters'), c.get('fast'))
        nrej = keep.count(False)
        ctx.stat('sigma_clip', 'rejected:' + ('none' if nrej == 0 else 'all' if nrej == len(keep) else 'some'))
        ctx.stat('sigma_clip', 'iterations:' + str(min(ref_nit, 6)) + ('+' if ref_nit >= 6 else ''))
        ctx.count_case(('sigma_clip', describe(c)), nontrivial=len(vals) > 1)
        # the independent Fraction reference must agree too (three-way)
        if keep != ref_keep or (nit is not None and nit != ref_nit):
            out['reference_disagreements'] += 1
        terms.append(to_coq(c, keep, nit))
        kept_cases.append(c)
        impl_out.append((keep, nit))
        # the theorem on the implementation: mask(2^k v + b) = mask(v)
        k = rng.choice([-2, -1, 1, 2, 3, 10])
        b = Fraction(rng.randint(-64, 64), den)
        a = Fraction(2) ** k
        vals2 = [a * v + b for v in vals]
        _, _, tie2 = exact_clip(vals2, c['med'], sl, su, mi)
        if tie2 is not None:
            out['equivariance_skipped_tie'] += 1
        else:
            keep2, nit2 = impl_clip([float(v) for v in vals2], c['med'], _sig(c['sigma']),
                                    _sig(c.get('sigma_lower')), _sig(c.get('sigma_upper')),
                                    c.get('maxiters'), c.get('fast'))
            out['equivariance_runs'] += 1
            if keep2 != keep or nit2 != nit:
                out['equivariance_failures'] += 1
                ctx.violation('correspondence:SigmaClip:affine-mask',
                              'astropy SigmaClip keep-mask of a*v+b differs from that of v (a = 2^k > 0) away from '
                              'any clipping-bound tie', {'case': describe(c), 'a': str(a), 'b': str(b),
                                                         'mask': keep, 'mask_transformed': keep2},
                              found_input=False)
    if len(ctx.cov['samples']) < 6 and kept_cases:
        ctx.sample({'sigma_clip_case': describe(kept_cases[-1]), 'impl_keep': impl_out[-1][0],
                    'impl_niterations': impl_out[-1][1]}, limit=6)
    bad = ctx.coq_eval_cases(IMPORTS, 'check_clip_case', terms, case_type='clip_case', tag='sigclip')
    out['coq_cases'] = len(terms)
    out['disagreements'] = len(bad)
    for i in bad[:10]:
        c = kept_cases[i]
        try:
            model = ctx.coq_eval_term(IMPORTS, f'clip_model_out {terms[i]}', tag='sigclip_detail')
        except Exception as e:      # diagnostics only
            model = repr(e)[:300]
        ctx.violation('correspondence:C11S_Model.check_clip_case',
                      'astropy SigmaClip keep-mask / iteration count differs from the exact-arithmetic model '
                      '(no value near a clipping bound)',
                      {'case': describe(c), 'impl_keep': impl_out[i][0], 'impl_niterations': impl_out[i][1],
                       'model': model}, found_input=False)
    if out['reference_disagreements']:
        ctx.violation('correspondence:C11S:fraction-reference',
                      'the harness\'s Fraction reference of the sigma clip disagrees with astropy',
                      {'n': out['reference_disagreements']}, found_input=False)
    for k, v in out.items():
        ctx.stat('sigma_clip_totals', k, v)
    ctx.support('sigma_clip_affine_mask_on_implementation', out['equivariance_runs'])
    return out


def main(argv=None):
    """Standalone: python -m harness.c11s [n_cases] [seed]  (uses a private work directory)."""
    import json
    import sys
    from . import core
    argv = sys.argv[1:] if argv is None else argv
    n = int(argv[0]) if argv else 400
    seed = int(argv[1]) if len(argv) > 1 else 0
    core.setup_repo_path()
    ctx = core.Ctx('C11S', 'quick', seed)
    ok, log, missing = core.build_files(['lib/Cases.v', 'C11_Model.v', 'C11S_Model.v'])
    if missing:
        print(log[-2000:])
        return 2
    out = run_sigma_clip_correspondence(ctx, n)
    print(json.dumps({'result': out, 'distribution': ctx.cov['correspondence']}, indent=1))
    for sig, what, path, found in ctx.violations:
        print('VIOLATION', sig, what, path)
    return 1 if ctx.violations else 0


if __name__ == '__main__':
    raise SystemExit(main())
