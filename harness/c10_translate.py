"""Fail-closed translator: Python source of photutils functions / classes  ->  array-effects IR
of coq/C10_Model.v.

The IR abstracts a value by the set of buffers reachable (writable) through it, so

 * reading an attribute or an element of x yields (at most) a view of x        -> EView / EMaybeView
 * a display / constructor call / object that stores its arguments reaches them   -> EJoin
 * arithmetic, comparisons, copies, reductions yield new buffers                 -> EFresh
 * x[...] = v, x op= v, x.attr = v (x not self), x.sort(), out=x write through x  -> InPlace
 * calls of photutils functions whose source is available are INLINED (Scope); calls of
   numpy/astropy/scipy/builtins are looked up in the operation table below (K-checked against
   the real library by harness/c10.py); anything else raises Untranslatable.

Nothing here decides whether a function is safe: that is `accepts` in Coq, proved sound in
C10_Proofs.v.  A wrong row of the table or a wrong rule below would make the theorem speak
about different code (trusted base, mitigated by the K checks and by the dynamic sweep).
"""
import ast
import hashlib
import os
from pathlib import Path


class Untranslatable(Exception):
    def __init__(self, msg, node=None, file=None):
        self.msg, self.node, self.file = msg, node, file
        line = getattr(node, 'lineno', '?')
        super().__init__(f'{file or "?"}:{line}: {msg}')


# --------------------------------------------------------------------------
# operation tables
# --------------------------------------------------------------------------
# result kinds: 'fresh' | 'scalar' | 'view' (of arg 0 / receiver) | 'maybe' (view or copy of
# arg 0 / receiver) | 'join' (new object reaching every argument) | 'maybeall'
# (may alias any argument).  `mut`: positional indices / keyword names written through.
# `probe`: Python source of a lambda over sample arrays used by the K check (None = not probed).
def _row(ret, probe=None, mut=()):
    return {'ret': ret, 'probe': probe, 'mut': tuple(mut)}


FRESH_NP = '''isfinite isnan isinf any all sum nansum nanmax nanmin nanmean nanmedian nanstd nanvar mean median std var
min max amin amax sqrt exp log log10 log2 abs absolute hypot floor ceil round rint sign square power
cos sin tan arctan2 arctan arccos arcsin deg2rad rad2deg radians degrees
ones zeros empty full arange linspace indices mgrid ogrid eye identity
ones_like zeros_like empty_like full_like
unravel_index ravel_multi_index nanargmax nanargmin argmax argmin argsort sort lexsort searchsorted unique
vstack hstack dstack stack concatenate column_stack tile repeat
count_nonzero prod cumsum cumprod diff gradient ptp percentile nanpercentile quantile
logical_not logical_or logical_and logical_xor invert bitwise_or bitwise_and
maximum minimum fmax fmin clip where nonzero argwhere flatnonzero
array_equal allclose isclose isscalar issubdtype ndim shape size iterable result_type can_cast
add subtract multiply divide true_divide floor_divide mod negative reciprocal
dot matmul inner outer cross tensordot einsum trace
interp polyfit polyval histogram histogram2d bincount digitize
pad roll delete insert append
isin in1d intersect1d union1d setdiff1d
copy
linalg.lstsq linalg.eigvals linalg.eigvalsh linalg.eig linalg.inv linalg.det linalg.norm linalg.solve
ma.sum ma.count ma.mean ma.median ma.std ma.var ma.min ma.max ma.masked_invalid ma.masked_where ma.masked_equal
ma.masked_greater ma.masked_less ma.is_masked ma.isMaskedArray ma.isMA ma.sqrt ma.average
ma.zeros ma.ones ma.empty ma.masked_all ma.concatenate ma.count_masked
random.default_rng'''.split()

EXT = {}
for _n in FRESH_NP:
    EXT['numpy.' + _n] = _row('fresh')
# probes for the rows used by the scoped functions (the K check reports unprobed rows)
for _n, _p in {
    'isfinite': 'lambda a: np.isfinite(a)', 'isnan': 'lambda a: np.isnan(a)', 'any': 'lambda a: np.any(a)',
    'all': 'lambda a: np.all(a)', 'sum': 'lambda a: np.sum(a, axis=0)', 'nansum': 'lambda a: np.nansum(a, axis=0)',
    'min': 'lambda a: np.min(a, axis=0)', 'max': 'lambda a: np.max(a, axis=0)', 'sqrt': 'lambda a: np.sqrt(a)',
    'abs': 'lambda a: np.abs(a)', 'ptp': 'lambda a: np.ptp(a, axis=0)', 'maximum': 'lambda a: np.maximum(a, 0)',
    'minimum': 'lambda a: np.minimum(a, 0)', 'where': 'lambda a: np.where(a > 0, a, 0)',
    'logical_not': 'lambda a: np.logical_not(a)', 'logical_or': 'lambda a: np.logical_or(a, a)',
    'ones_like': 'lambda a: np.ones_like(a)', 'zeros_like': 'lambda a: np.zeros_like(a)',
    'count_nonzero': 'lambda a: np.count_nonzero(a)', 'vstack': 'lambda a: np.vstack((a, a))',
    'copy': 'lambda a: np.copy(a)', 'diff': 'lambda a: np.diff(a)', 'hypot': 'lambda a: np.hypot(a, a)',
    'clip': 'lambda a: np.clip(a, 0, 1)', 'sort': 'lambda a: np.sort(a)', 'argsort': 'lambda a: np.argsort(a)',
    'concatenate': 'lambda a: np.concatenate((a, a))', 'log10': 'lambda a: np.log10(np.abs(a) + 1)',
    'nanmax': 'lambda a: np.nanmax(a, axis=0)', 'multiply': 'lambda a: np.multiply(a, 1)',
    'add': 'lambda a: np.add(a, 0)', 'round': 'lambda a: np.round(a)', 'floor': 'lambda a: np.floor(a)',
    'ma.masked_invalid': 'lambda a: np.ma.masked_invalid(a)', 'ma.sum': 'lambda a: np.ma.sum(a, axis=0)',
    'ma.count': 'lambda a: np.ma.count(a)',
    'ma.masked_where': 'lambda a: np.ma.masked_where(a > 0, a)',
    'unique': 'lambda a: np.unique(a)', 'prod': 'lambda a: np.prod(a, axis=0)', 'mean': 'lambda a: np.mean(a, axis=0)',
    'median': 'lambda a: np.median(a, axis=0)', 'nanmedian': 'lambda a: np.nanmedian(a, axis=0)',
    'std': 'lambda a: np.std(a, axis=0)', 'rad2deg': 'lambda a: np.rad2deg(a)', 'arctan2': 'lambda a: np.arctan2(a, a)',
    'log': 'lambda a: np.log(np.abs(a) + 1)', 'exp': 'lambda a: np.exp(-np.abs(a))', 'square': 'lambda a: np.square(a)',
    'stack': 'lambda a: np.stack((a, a))', 'hstack': 'lambda a: np.hstack((a, a))', 'tile': 'lambda a: np.tile(a, 2)',
    'pad': 'lambda a: np.pad(a, 1)', 'cumsum': 'lambda a: np.cumsum(a)', 'nonzero': 'lambda a: np.nonzero(a)',
    'array_equal': 'lambda a: np.array_equal(a, a)', 'isscalar': 'lambda a: np.isscalar(a)',
    'full': 'lambda a: np.full(a.shape, 1.0)', 'size': 'lambda a: np.size(a)',
    'searchsorted': 'lambda a: np.searchsorted(np.sort(a.ravel()), 0.5)', 'random.default_rng': 'lambda a: np.random.default_rng(0)',
    'ndim': 'lambda a: np.ndim(a)', 'arange': 'lambda a: np.arange(a.size)', 'ones': 'lambda a: np.ones(a.shape)', 'zeros': 'lambda a: np.zeros(a.shape)',
    'allclose': 'lambda a: np.allclose(np.sum(a), 1.0)', 'issubdtype': 'lambda a: np.issubdtype(a.dtype, np.integer)',
    'argmax': 'lambda a: np.argmax(a)', 'nanargmax': 'lambda a: np.nanargmax(a)', 'ceil': 'lambda a: np.ceil(a)',
    'dot': 'lambda a: np.dot(a.ravel(), a.ravel())', 'indices': 'lambda a: np.indices(a.shape)',
    'unravel_index': 'lambda a: np.unravel_index(np.nanargmax(a), a.shape)',
    'linalg.lstsq': 'lambda a: np.linalg.lstsq(np.vstack((np.ones(a.size), np.arange(a.size))).T, a.ravel(), rcond=None)[0]',
    'nanmin': 'lambda a: np.nanmin(a, axis=0)', 'nanmean': 'lambda a: np.nanmean(a, axis=0)',
    'nanstd': 'lambda a: np.nanstd(a, axis=0)', 'power': 'lambda a: np.power(a, 2)', 'sign': 'lambda a: np.sign(a)',
    'subtract': 'lambda a: np.subtract(a, 1)', 'divide': 'lambda a: np.divide(a, 2)', 'negative': 'lambda a: np.negative(a)',
    'full_like': 'lambda a: np.full_like(a, 1)', 'empty_like': 'lambda a: np.empty_like(a)',
    'logical_and': 'lambda a: np.logical_and(a, a)', 'isinf': 'lambda a: np.isinf(a)', 'cos': 'lambda a: np.cos(a)',
    'sin': 'lambda a: np.sin(a)', 'deg2rad': 'lambda a: np.deg2rad(a)', 'percentile': 'lambda a: np.percentile(a, 50)',
    'repeat': 'lambda a: np.repeat(a, 2)', 'roll': 'lambda a: np.roll(a, 1)', 'delete': 'lambda a: np.delete(a, 0)',
    'append': 'lambda a: np.append(a, a)', 'insert': 'lambda a: np.insert(a, 0, 0)', 'cumprod': 'lambda a: np.cumprod(a)',
    'var': 'lambda a: np.var(a, axis=0)', 'nanvar': 'lambda a: np.nanvar(a, axis=0)', 'trace': 'lambda a: np.trace(a)',
    'outer': 'lambda a: np.outer(a, a)', 'argmin': 'lambda a: np.argmin(a)', 'amax': 'lambda a: np.amax(a, axis=0)',
    'amin': 'lambda a: np.amin(a, axis=0)', 'absolute': 'lambda a: np.absolute(a)', 'gradient': 'lambda a: np.gradient(a)',
    'column_stack': 'lambda a: np.column_stack((a, a))', 'dstack': 'lambda a: np.dstack((a, a))',
    'ma.mean': 'lambda a: np.ma.mean(a, axis=0)', 'ma.median': 'lambda a: np.ma.median(a, axis=0)',
    'ma.std': 'lambda a: np.ma.std(a, axis=0)', 'ma.min': 'lambda a: np.ma.min(a)', 'ma.max': 'lambda a: np.ma.max(a)',
    'ma.masked_equal': 'lambda a: np.ma.masked_equal(a, 0)', 'ma.masked_greater': 'lambda a: np.ma.masked_greater(a, 0)',
    'ma.masked_less': 'lambda a: np.ma.masked_less(a, 0)', 'ma.is_masked': 'lambda a: np.ma.is_masked(a)',
    'ma.concatenate': 'lambda a: np.ma.concatenate((a, a))', 'ma.count_masked': 'lambda a: np.ma.count_masked(a)',
    'ma.sqrt': 'lambda a: np.ma.sqrt(np.abs(a))', 'ma.average': 'lambda a: np.ma.average(a, axis=0)',
}.items():
    EXT['numpy.' + _n]['probe'] = _p

EXT.update({
    # ---- view / maybe-view producers ----
    'numpy.asarray': _row('maybe', 'lambda a: np.asarray(a)'),
    'numpy.asanyarray': _row('maybe', 'lambda a: np.asanyarray(a)'),
    'numpy.ascontiguousarray': _row('maybe', 'lambda a: np.ascontiguousarray(a)'),
    'numpy.array': _row('fresh', 'lambda a: np.array(a)'),                 # copy=False handled in code
    'numpy.atleast_1d': _row('maybe', 'lambda a: np.atleast_1d(a)'),
    'numpy.atleast_2d': _row('maybe', 'lambda a: np.atleast_2d(a)'),
    'numpy.atleast_3d': _row('maybe', 'lambda a: np.atleast_3d(a)'),
    'numpy.transpose': _row('maybeall', 'lambda a: np.transpose(a)'),     # of a tuple of arrays: new array
    'numpy.ravel': _row('maybe', 'lambda a: np.ravel(a)'),
    'numpy.reshape': _row('maybe', 'lambda a: np.reshape(a, -1)'),
    'numpy.squeeze': _row('maybe', 'lambda a: np.squeeze(a)'),
    'numpy.broadcast_to': _row('maybe', 'lambda a: np.broadcast_to(a, (2,) + a.shape)'),
    'numpy.broadcast_arrays': _row('maybeall', 'lambda a: np.broadcast_arrays(a, a)'),
    'numpy.expand_dims': _row('maybe', 'lambda a: np.expand_dims(a, 0)'),
    'numpy.swapaxes': _row('maybe', 'lambda a: np.swapaxes(a, 0, -1)'),
    'numpy.moveaxis': _row('maybe', 'lambda a: np.moveaxis(a, 0, -1)'),
    'numpy.flip': _row('maybe', 'lambda a: np.flip(a)'),
    'numpy.flipud': _row('maybe', 'lambda a: np.flipud(a)'),
    'numpy.fliplr': _row('maybe', None),
    'numpy.rot90': _row('maybe', None),
    'numpy.real': _row('maybe', 'lambda a: np.real(a)'),
    'numpy.imag': _row('maybe', None),
    'numpy.diagonal': _row('maybe', None),
    'numpy.meshgrid': _row('fresh', 'lambda a: np.meshgrid(a.ravel()[:3], a.ravel()[:2])'),   # copy=True default
    'numpy.nan_to_num': _row('fresh', 'lambda a: np.nan_to_num(a)'),      # copy=False handled in code
    'numpy.ma.asanyarray': _row('maybe', 'lambda a: np.ma.asanyarray(a)'),
    'numpy.ma.asarray': _row('maybe', 'lambda a: np.ma.asarray(a)'),
    'numpy.ma.array': _row('join', 'lambda a: np.ma.array(a)'),           # copy=True handled in code
    'numpy.ma.masked_array': _row('join', 'lambda a: np.ma.masked_array(a)'),
    'numpy.ma.MaskedArray': _row('join', 'lambda a: np.ma.MaskedArray(a)'),
    'numpy.ma.getdata': _row('maybe', 'lambda a: np.ma.getdata(a)'),
    'numpy.ma.getmask': _row('maybe', 'lambda a: np.ma.getmask(a)'),
    'numpy.ma.filled': _row('maybe', 'lambda a: np.ma.filled(a, 0)'),
    'numpy.ma.fix_invalid': _row('fresh', None),
    'numpy.ma.getmaskarray': _row('maybe', 'lambda a: np.ma.getmaskarray(a)'),    # the mask itself if there is one
    'numpy.ma.compressed': _row('maybe', 'lambda a: np.ma.compressed(a)'),        # a view when nothing is masked
    # ---- in-place ----
    'numpy.copyto': _row('scalar', 'lambda a: np.copyto(a, 0)', mut=(0,)),
    'numpy.put': _row('scalar', None, mut=(0,)),
    'numpy.place': _row('scalar', None, mut=(0,)),
    'numpy.putmask': _row('scalar', 'lambda a: np.putmask(a, a == a, 0)', mut=(0,)),
    'numpy.fill_diagonal': _row('scalar', None, mut=(0,)),
    'numpy.random.shuffle': _row('scalar', None, mut=(0,)),
    # ---- scalars / bookkeeping ----
    'warnings.warn': _row('scalar'), 'warnings.catch_warnings': _row('scalar'),
    'warnings.simplefilter': _row('scalar'), 'warnings.filterwarnings': _row('scalar'),
    'inspect.signature': _row('scalar'), 'inspect.getmembers': _row('scalar'),
    'math.sqrt': _row('scalar'), 'math.floor': _row('scalar'), 'math.ceil': _row('scalar'),
    'math.pi': _row('scalar'), 'math.isnan': _row('scalar'), 'math.log': _row('scalar'),
    'math.cos': _row('scalar'), 'math.sin': _row('scalar'), 'math.exp': _row('scalar'),
    'astropy.utils.misc.isiterable': _row('scalar'),
    'numpy.errstate': _row('scalar'), 'numpy.dtype': _row('scalar'), 'numpy.finfo': _row('scalar'),
    'numpy.float64': _row('scalar'), 'numpy.int64': _row('scalar'),
    # ---- builtins ----
    'builtins.len': _row('scalar'), 'builtins.int': _row('scalar'), 'builtins.float': _row('scalar'),
    'builtins.bool': _row('scalar'), 'builtins.str': _row('scalar'), 'builtins.abs': _row('fresh', 'lambda a: abs(a)'),
    'builtins.min': _row('maybeall'), 'builtins.max': _row('maybeall'), 'builtins.sum': _row('fresh'),
    'builtins.range': _row('scalar'), 'builtins.isinstance': _row('scalar'), 'builtins.hasattr': _row('scalar'),
    'builtins.issubclass': _row('scalar'), 'builtins.callable': _row('scalar'), 'builtins.repr': _row('scalar'),
    'builtins.round': _row('scalar'), 'builtins.type': _row('scalar'), 'builtins.id': _row('scalar'),
    'builtins.print': _row('scalar'), 'builtins.any': _row('scalar'), 'builtins.all': _row('scalar'),
    'builtins.getattr': _row('maybeall'), 'builtins.zip': _row('join'), 'builtins.enumerate': _row('join'),
    'builtins.list': _row('join'), 'builtins.tuple': _row('join'), 'builtins.dict': _row('join'),
    'builtins.set': _row('join'), 'builtins.sorted': _row('join'), 'builtins.reversed': _row('join'),
    'builtins.slice': _row('scalar'), 'builtins.iter': _row('join'), 'builtins.next': _row('maybeall'),
    'builtins.ValueError': _row('scalar'), 'builtins.TypeError': _row('scalar'),
    'builtins.NotImplementedError': _row('scalar'), 'builtins.IndexError': _row('scalar'),
    'builtins.KeyError': _row('scalar'), 'builtins.RuntimeError': _row('scalar'),
    'builtins.AttributeError': _row('scalar'), 'builtins.object.__new__': _row('fresh'),
    # ---- astropy ----
    'astropy.units.Quantity': _row('fresh', 'lambda a: u.Quantity(a, u.adu)'),   # copy=True default
    'astropy.units.Unit': _row('scalar'),
    'astropy.units.UnitsError': _row('scalar'),
    'astropy.table.QTable': _row('join', None), 'astropy.table.Table': _row('join', None),
    'astropy.modeling.fitting.TRFLSQFitter': _row('scalar'),
    'astropy.modeling.fitting.TRFLSQFitter.__call__': _row(               # fits a copy of the model
        'fresh', 'lambda a: TRFLSQFitter()(Gaussian1D(1.0, 3.0, 2.0), np.arange(a.size, dtype=float), a.ravel(), '
                 'weights=np.abs(a.ravel()) + 1).parameters'),
    'astropy.modeling.models.Gaussian1D': _row('fresh', 'lambda a: Gaussian1D(*a.ravel()[:3]).parameters'),
    'astropy.modeling.models.Gaussian2D': _row('fresh', 'lambda a: Gaussian2D(*a.ravel()[:5]).parameters'),
    'astropy.modeling.models.Gaussian1D.__call__': _row('fresh'),
    'scipy.ndimage.convolve': _row('fresh', 'lambda a: ndi.convolve(a.astype(float), np.ones((3,) * a.ndim))'),
    'scipy.ndimage.zoom': _row('fresh', 'lambda a: ndi.zoom(a.astype(float), 2, order=1)'),
    'scipy.ndimage.binary_dilation': _row('fresh', 'lambda a: ndi.binary_dilation(a > 0)'),
    'scipy.ndimage.generic_filter': _row('fresh', 'lambda a: ndi.generic_filter(a.astype(float), np.nanmedian, size=3)'),
    'scipy.ndimage.median_filter': _row('fresh', 'lambda a: ndi.median_filter(a.astype(float), size=3)'),
    'scipy.ndimage.map_coordinates': _row('fresh', 'lambda a: ndi.map_coordinates(a.astype(float), np.zeros((a.ndim, 3)))'),
    'numpy.fft.fft2': _row('fresh', 'lambda a: np.fft.fft2(a)'), 'numpy.fft.ifft2': _row('fresh', 'lambda a: np.fft.ifft2(a)'),
    'numpy.fft.fftshift': _row('fresh', 'lambda a: np.fft.fftshift(a)'),
    'numpy.fft.ifftshift': _row('fresh', 'lambda a: np.fft.ifftshift(a)'),
    'copy.deepcopy': _row('fresh', 'lambda a: copy.deepcopy(a)'), 'copy.copy': _row('join', 'lambda a: copy.copy(a)'),
    'contextlib.suppress': _row('scalar'),
    'astropy.nddata.NDData': _row('join', 'lambda a: NDData(a).data'),
    'astropy.nddata.StdDevUncertainty': _row('join', 'lambda a: StdDevUncertainty(a, copy=False).array'),
    'itertools.chain.from_iterable': _row('join'), 'itertools.chain': _row('join'), 'itertools.product': _row('join'),
    'astropy.table.vstack': _row('fresh', None), 'astropy.table.hstack': _row('fresh', None),
    'astropy.convolution.Gaussian2DKernel': _row('fresh', 'lambda a: Gaussian2DKernel(1.0).array'),
    'astropy.stats.gaussian_fwhm_to_sigma': _row('scalar'), 'astropy.stats.gaussian_sigma_to_fwhm': _row('scalar'),
    'scipy.interpolate.NearestNDInterpolator': _row('join', None),
    'scipy.interpolate.NearestNDInterpolator.__call__': _row(
        'fresh', 'lambda a: NearestNDInterpolator(np.arange(6.).reshape(3, 2), np.arange(3.))(np.abs(a.ravel()[:4]).reshape(2, 2).astype(float))'),
    'photutils.extern.biweight.biweight_location': _row('fresh', 'lambda a: biweight_location(a.astype(float), axis=0)'),
    'photutils.extern.biweight.biweight_scale': _row('fresh', 'lambda a: biweight_scale(a.astype(float), axis=0)'),
    'astropy.stats.mad_std': _row('fresh', 'lambda a: mad_std(a, axis=0)'),
    'astropy.stats.SigmaClip': _row('scalar'),
    'scipy.interpolate.CloughTocher2DInterpolator': _row('join', None),
    'scipy.interpolate.CloughTocher2DInterpolator.__call__': _row(
        'fresh', 'lambda a: CloughTocher2DInterpolator(np.array([[0., 0], [1, 0], [0, 1], [1, 1]]), np.arange(4.))(np.abs(a.ravel()[:4]).reshape(2, 2).astype(float) % 1)'),
    'scipy.spatial.KDTree': _row('join', None),
    'scipy.spatial.KDTree.query': _row('fresh', 'lambda a: KDTree(np.abs(a).reshape(-1, 1).astype(float)).query(np.zeros((2, 1)), k=2)'),
    'scipy.spatial.cKDTree': _row('join', None),
    'scipy.spatial.cKDTree.query': _row('fresh', 'lambda a: cKDTree(np.abs(a).reshape(-1, 1).astype(float)).query(np.zeros((2, 1)), k=2)'),
    'scipy.ndimage.maximum_filter': _row('fresh', 'lambda a: ndi.maximum_filter(a.astype(float), size=3)'),
    'scipy.ndimage.generate_binary_structure': _row('fresh', 'lambda a: ndi.generate_binary_structure(2, 1)'),
    'scipy.ndimage.label': _row('fresh', 'lambda a: ndi.label(a > 0)'),
    'scipy.ndimage.find_objects': _row('fresh', 'lambda a: ndi.find_objects((a > 0).astype(int))'),
    'tqdm.tqdm': _row('maybe'), 'tqdm.auto.tqdm': _row('maybe'), 'tqdm.notebook.tqdm': _row('maybe'),
    'scipy.interpolate.RectBivariateSpline': _row('join'),
    'scipy.interpolate.RectBivariateSpline.__call__': _row(
        'fresh', 'lambda a: RectBivariateSpline(np.arange(6.), np.arange(7.), np.arange(42.).reshape(6, 7))('
                 'np.abs(a.ravel()[:5].astype(float)), np.abs(a.ravel()[:5].astype(float)), grid=False)'),
    'scipy.interpolate.PchipInterpolator': _row('join'),
    'scipy.interpolate.PchipInterpolator.__call__': _row('fresh', 'lambda a: PchipInterpolator(np.arange(a.size), a.ravel())(a.ravel())'),
    'photutils.utils._stats.nansum': _row('fresh', 'lambda a: pstats.nansum(a, axis=0)'),
    'photutils.utils._stats.nanmin': _row('fresh', 'lambda a: pstats.nanmin(a, axis=0)'),
    'photutils.utils._stats.nanmax': _row('fresh', 'lambda a: pstats.nanmax(a, axis=0)'),
    'photutils.utils._stats.nanmean': _row('fresh', 'lambda a: pstats.nanmean(a, axis=0)'),
    'photutils.utils._stats.nanmedian': _row('fresh', 'lambda a: pstats.nanmedian(a, axis=0)'),
    'photutils.utils._stats.nanstd': _row('fresh', 'lambda a: pstats.nanstd(a, axis=0)'),
    'photutils.utils._stats.nanvar': _row('fresh', 'lambda a: pstats.nanvar(a, axis=0)'),
    'builtins.setattr': _row('scalar'),         # handled in code: writes arg 0, which then reaches arg 2
    'astropy.nddata.reshape_as_blocks': _row('maybe', 'lambda a: reshape_as_blocks(a, (1,) * a.ndim)'),
    'astropy.nddata.block_replicate': _row('fresh', 'lambda a: block_replicate(a, 2)'),
    'numpy.float32': _row('scalar'),
    'astropy.nddata.overlap_slices': _row('scalar'), 'astropy.nddata.NoOverlapError': _row('scalar'),
    'astropy.nddata.extract_array': _row('maybe', "lambda a: extract_array(a, (3,) * a.ndim, (2,) * a.ndim, mode='trim')"),
    'photutils.utils.exceptions.NoDetectionsWarning': _row('scalar'),
    'astropy.utils.exceptions.AstropyUserWarning': _row('scalar'),
})

# photutils-internal callees that are NOT inlined (too deep for the translator): hand summaries,
# reported as assumptions in the evidence and exercised by the dynamic sweep
SUMMARIES = {
    # builds a SourceCatalog over the whole cutout: the result holds references to data/mask
    'photutils.morphology.core.data_properties': _row('join'),
    # version / date metadata dictionary, takes no array
    'photutils.utils._misc._get_meta': _row('fresh'),
    # returns a new table of peak positions (fancy-indexed copies); its own IR is rejected only
    # because `data[y_peaks, x_peaks]` (fancy indexing = copy) is abstracted as a possible view
    'photutils.detection.peakfinder.find_peaks': _row('fresh'),
}

# methods of photutils objects reached through containers / attributes (receiver class unknown to
# the translator): hand summaries by method name, reported as assumptions, exercised by the sweep
SUMMARY_METHODS = {
    'do_photometry': _row('fresh'), 'area_overlap': _row('fresh'), 'to_mask': _row('fresh'),
    # ApertureMask methods (the ApertureMask life cycle is its own obligation): no write; the result
    # may be a view of the receiver's weights or of the data argument
    'get_values': _row('join'), '_get_overlap_cutouts': _row('join'), 'cutout': _row('join'), 'multiply': _row('fresh'),
    # SegmentationImage.check_labels only raises
    'check_labels': _row('scalar'), 'check_label': _row('scalar'), 'get_indices': _row('fresh'),
    'get_index': _row('scalar'),
}

# methods on values of unknown type, by name
METHODS = {
    # fresh results
    'copy': _row('fresh', 'lambda a: a.copy()'), 'flatten': _row('fresh', 'lambda a: a.flatten()'),
    'tolist': _row('fresh', 'lambda a: a.tolist()'), 'sum': _row('fresh', 'lambda a: a.sum(axis=0)'),
    'min': _row('fresh', 'lambda a: a.min(axis=0)'), 'max': _row('fresh', 'lambda a: a.max(axis=0)'),
    'mean': _row('fresh', 'lambda a: a.mean(axis=0)'), 'std': _row('fresh', 'lambda a: a.std(axis=0)'),
    'any': _row('fresh', 'lambda a: a.any()'), 'all': _row('fresh', 'lambda a: a.all()'),
    'clip': _row('fresh', 'lambda a: a.clip(min=0)'), 'round': _row('fresh', 'lambda a: a.round()'),
    'argsort': _row('fresh', 'lambda a: a.argsort()'), 'nonzero': _row('fresh', 'lambda a: a.nonzero()'),
    'astype': _row('fresh', 'lambda a: a.astype(a.dtype)'),              # copy=False handled in code
    'to': _row('fresh', 'lambda a: u.Quantity(a, u.Jy).to(u.mJy)'), 'to_value': _row('maybe', None), 'item': _row('scalar', None),
    'count': _row('scalar', None), 'index': _row('scalar', None), 'keys': _row('scalar', None),
    'startswith': _row('scalar', None), 'format': _row('scalar', None), 'join': _row('scalar', None),
    'poisson': _row('fresh', 'lambda a: np.random.default_rng(0).poisson(np.abs(a))'),
    'normal': _row('fresh', 'lambda a: np.random.default_rng(0).normal(0.0, 1.0, a.shape)'),
    'uniform': _row('fresh', 'lambda a: np.random.default_rng(0).uniform(0.0, 1.0, a.shape)'),
    'world_to_pixel': _row('fresh', None),
    'choice': _row('fresh', 'lambda a: np.random.default_rng(0).choice(a.ravel(), 3)'),
    'query': _row('fresh', 'lambda a: cKDTree(np.abs(a).reshape(-1, 1).astype(float)).query(np.zeros((2, 1)), k=2)'),
    'normalize': _row('scalar', None, mut=('self',)),      # Kernel.normalize(): in place on the receiver
    'represent_as': _row('fresh', 'lambda a: StdDevUncertainty(np.abs(a).astype(float)).represent_as(VarianceUncertainty).array'),
    'compressed': _row('maybe', 'lambda a: np.ma.asanyarray(a).compressed()'),
    # views
    'filled': _row('maybe', 'lambda a: np.ma.asanyarray(a).filled()'),
    'ravel': _row('maybe', 'lambda a: a.ravel()'), 'reshape': _row('maybe', 'lambda a: a.reshape(-1)'),
    'view': _row('view', 'lambda a: a.view()'), 'squeeze': _row('maybe', 'lambda a: a.squeeze()'),
    'transpose': _row('maybe', 'lambda a: a.transpose()'), 'swapaxes': _row('maybe', None),
    'get_overlap_slices': _row('fresh', None), 'pixel_to_world': _row('fresh', None),
    'items': _row('view', None), 'values': _row('view', None), 'get': _row('maybeall', None),
    # in place on the receiver
    'fill': _row('scalar', 'lambda a: a.fill(0)', mut=('self',)),
    'sort': _row('scalar', 'lambda a: a.sort()', mut=('self',)),
    'itemset': _row('scalar', None, mut=('self',)), 'resize': _row('scalar', None, mut=('self',)),
    'setflags': _row('scalar', None, mut=('self',)), 'partition': _row('scalar', None, mut=('self',)),
    'put': _row('scalar', None, mut=('self',)),
    'rename_column': _row('scalar', None, mut=('self',)), 'remove_column': _row('scalar', None, mut=('self',)),
    'remove_columns': _row('scalar', None, mut=('self',)), 'add_column': _row('scalar', None, mut=('self',)),
    'remove_rows': _row('scalar', None, mut=('self',)), 'add_row': _row('scalar', None, mut=('self',)),
    'sort_values': _row('scalar', None, mut=('self',)),
}
# container methods (receiver is mutated as a container and then reaches the arguments)
CONTAINER_MUT = {'append', 'extend', 'update', 'add', 'insert', 'setdefault'}
CONTAINER_POP = {'pop', 'popitem'}

SCALAR_ATTRS = {'shape', 'ndim', 'size', 'dtype', 'unit', 'start', 'stop', 'step', 'isscalar', 'colnames',
                'itemsize', 'nbytes', 'names', 'parameters_names', 'param_names', 'fill_value', 'hardmask',
                'name', '__class__', '__name__', 'n_inputs'}
VIEW_ATTRS = {'T', 'value', 'data', 'mask', 'real', 'imag', 'array', 'flat', 'base', '_data', '_mask',
              'uncertainty', 'recordmask'}


# --------------------------------------------------------------------------
# source index
# --------------------------------------------------------------------------
class Module:
    def __init__(self, name, path):
        self.name, self.path = name, path
        self.src = path.read_text()
        self.tree = ast.parse(self.src)
        self.imports = {}           # local name -> qualified name
        self.funcs, self.classes, self.globals = {}, {}, set()
        for n in self.tree.body:
            self._top(n)

    def _top(self, n):
        if isinstance(n, ast.Import):
            for a in n.names:
                self.imports[a.asname or a.name.split('.')[0]] = a.name if a.asname else a.name.split('.')[0]
        elif isinstance(n, ast.ImportFrom):
            base = n.module or ''
            if n.level:
                pkg = self.name.split('.')
                pkg = pkg[:len(pkg) - n.level] if not self.path.name == '__init__.py' else pkg[:len(pkg) - n.level + 1]
                base = '.'.join(pkg + ([n.module] if n.module else []))
            for a in n.names:
                self.imports[a.asname or a.name] = base + '.' + a.name
        elif isinstance(n, (ast.FunctionDef,)):
            self.funcs[n.name] = n
        elif isinstance(n, ast.ClassDef):
            self.classes[n.name] = n
        elif isinstance(n, (ast.Assign, ast.AnnAssign)):
            for t in (n.targets if isinstance(n, ast.Assign) else [n.target]):
                if isinstance(t, ast.Name):
                    self.globals.add(t.id)
        elif isinstance(n, (ast.If, ast.Try)):
            for b in ast.iter_child_nodes(n):
                if isinstance(b, ast.stmt):
                    self._top(b)


class Index:
    def __init__(self, repo):
        self.repo = Path(repo)
        self.mods = {}
        self.defs = {}     # bare name -> [(module name, node)]
        for p in sorted((self.repo / 'photutils').rglob('*.py')):
            rel = p.relative_to(self.repo)
            if 'tests' in rel.parts or rel.parts[1:2] == ('extern',):
                continue
            name = '.'.join(rel.with_suffix('').parts)
            if name.endswith('.__init__'):
                name = name[:-9]
            try:
                m = Module(name, p)
            except SyntaxError:
                continue
            self.mods[name] = m
            for k, v in list(m.funcs.items()) + list(m.classes.items()):
                self.defs.setdefault(k, []).append((name, v))

    def resolve(self, qual):
        """qualified photutils name -> (Module, FunctionDef|ClassDef) or None."""
        parts = qual.split('.')
        for i in range(len(parts) - 1, 0, -1):
            mn = '.'.join(parts[:i])
            if mn in self.mods and len(parts) - i == 1:
                m = self.mods[mn]
                nm = parts[i]
                if nm in m.funcs:
                    return m, m.funcs[nm]
                if nm in m.classes:
                    return m, m.classes[nm]
                if nm in m.imports and m.imports[nm] != qual:
                    return self.resolve(m.imports[nm])
                # re-exported through a package __init__ (star import): unique definition by name
                cands = [(a, b) for a, b in self.defs.get(nm, []) if a.startswith(mn + '.')]
                if len(cands) == 1:
                    return self.mods[cands[0][0]], cands[0][1]
                return None
        return None


# --------------------------------------------------------------------------
# the translator
# --------------------------------------------------------------------------
def seq(stmts):
    stmts = [s for s in stmts if s != ('Skip',)]
    if not stmts:
        return ('Skip',)
    out = stmts[-1]
    for s in reversed(stmts[:-1]):
        out = ('Seq', s, out)
    return out


class Frame:
    """One function instance (the target itself or an inlined callee)."""

    def __init__(self, tr, mod, fn, prefix, cls=None, selfname=None, parent=None):
        self.tr, self.mod, self.fn, self.prefix = tr, mod, fn, prefix
        self.cls, self.selfname, self.parent = cls, selfname, parent
        self.locals = {}
        self.local_imports = {}
        self.nested = {}
        self.origin = {}           # var id -> qualified constructor / class key
        self.containers = set()    # vars definitely holding a fresh local Python container
        self.arrays = set()        # vars definitely holding a numeric ndarray (item stores copy values)
        self.depth = 0 if parent is None else parent.depth + 1

    def var(self, name):
        if name not in self.locals:
            self.locals[name] = self.tr.newvar(self.prefix + name)
        return self.locals[name]

    is_nested = False


class Translator:
    MAX_DEPTH = 7

    def __init__(self, repo, assumptions=None):
        self.index = Index(repo)
        self.repo = Path(repo)
        self.vars = []            # id -> name
        self.blocks = []
        self.spans = {}
        self.assumed = set()
        self.unprobed = set()
        self.used_rows = set()
        self.assume_callables = dict(assumptions or {})
        self.stack = []

    # ---- variables / emission ----
    def newvar(self, name):
        self.vars.append(name)
        return len(self.vars) - 1

    def tmp(self, F, hint='t'):
        return self.newvar(f'{F.prefix}${hint}{len(self.vars)}')

    def emit(self, s):
        self.blocks[-1].append(s)

    def block(self, fn):
        self.blocks.append([])
        fn()
        return seq(self.blocks.pop())

    def span(self, mod, node):
        seg = ast.get_source_segment(mod.src, node) or ''
        key = f'{mod.path.relative_to(self.repo)}::{getattr(node, "name", "?")}'
        self.spans[key] = {'file': str(mod.path.relative_to(self.repo)), 'lines': [node.lineno, node.end_lineno],
                           'sha1': hashlib.sha1(seg.encode()).hexdigest()[:16]}

    def fail(self, F, node, msg):
        raise Untranslatable(msg, node, str(F.mod.path.relative_to(self.repo)))

    # ---- name resolution ----
    def qualify(self, F, node):
        """Dotted expression rooted at an imported module / global name -> qualified name or None."""
        parts = []
        n = node
        while isinstance(n, ast.Attribute):
            parts.append(n.attr)
            n = n.value
        if not isinstance(n, ast.Name):
            return None
        root = n.id
        f = F
        while f is not None:
            if root in f.locals:
                return None
            if root in f.local_imports:
                return '.'.join([f.local_imports[root]] + parts[::-1])
            f = f.parent if f.is_nested else None
        if root in F.mod.imports:
            return '.'.join([F.mod.imports[root]] + parts[::-1])
        if root in F.mod.funcs or root in F.mod.classes:
            return '.'.join([F.mod.name, root] + parts[::-1])
        if root in F.mod.globals:
            return '.'.join([F.mod.name, root] + parts[::-1])
        import builtins
        if hasattr(builtins, root):
            return '.'.join(['builtins', root] + parts[::-1])
        return None

    # ---- expressions: return a var id, or None for a value without buffers ----
    def join(self, F, vs, hint='j'):
        vs = [v for v in vs if v is not None]
        if not vs:
            return None
        t = self.tmp(F, hint)
        self.emit(('Assign', t, ('EJoin', vs)))
        return t

    def fresh(self, F, hint='f'):
        t = self.tmp(F, hint)
        self.emit(('Assign', t, ('EFresh',)))
        return t

    def maybe(self, F, v, hint='m'):
        if v is None:
            return None
        t = self.tmp(F, hint)
        self.emit(('Assign', t, ('EMaybeView', v)))
        return t

    def expr(self, F, n):
        m = getattr(self, 'e_' + type(n).__name__, None)
        if m is None:
            self.fail(F, n, f'unsupported expression {type(n).__name__}')
        return m(F, n)

    def e_Constant(self, F, n):
        return None

    def e_JoinedStr(self, F, n):
        for v in n.values:
            if isinstance(v, ast.FormattedValue):
                self.expr(F, v.value)
        return None

    def selfvar(self, F):
        key = f'{F.cls.key}.self'
        if key not in self.tr_attrs:
            self.tr_attrs[key] = self.newvar(key)
        return self.tr_attrs[key]

    def e_Name(self, F, n):
        if F.selfname and n.id == F.selfname:
            return self.selfvar(F)       # the object reaches whatever was stored on it
        f = F
        while f is not None:
            if n.id in f.locals:
                return f.locals[n.id]
            f = f.parent if f.is_nested else None
        if self.qualify(F, n) is not None:
            return None        # module, function, class or module-level constant used as a value
        g = F
        while g is not None:
            if n.id in g.nested:
                return None    # a nested function used as a value
            g = g.parent if g.is_nested else None
        self.fail(F, n, f'unbound name {n.id}')

    def e_Attribute(self, F, n):
        if F.selfname and isinstance(n.value, ast.Name) and n.value.id == F.selfname:
            return self.self_attr(F, n)
        if self.qualify(F, n) is not None:
            return None        # np.nan, np.newaxis, u.electron ...
        v = self.expr(F, n.value)
        if v is None or n.attr in SCALAR_ATTRS:
            return None
        t = self.tmp(F, 'a')
        self.emit(('Assign', t, ('EView', v)))      # anything reachable from x.attr is reachable from x
        return t

    def e_Subscript(self, F, n):
        # self.__dict__['name'] -> the attribute
        if (F.selfname and isinstance(n.value, ast.Attribute) and isinstance(n.value.value, ast.Name)
                and n.value.value.id == F.selfname and n.value.attr == '__dict__'
                and isinstance(n.slice, ast.Constant)):
            return self.attrvar(F, n.slice.value)
        if F.selfname and isinstance(n.value, ast.Name) and n.value.id == F.selfname:
            kind, owner, node = F.cls.member('__getitem__')
            if node is not None:
                return self.inline(F, owner, node, [self.expr(F, n.slice)], {}, n, cls=F.cls, selfval=True)
        v = self.expr(F, n.value)
        self.expr(F, n.slice)
        r = self.maybe(F, v, 'i')
        if v is not None and F.origin.get(v) in self.safe_classes:
            F.origin[r] = F.origin[v]          # cat[idx] is again a catalog
        return r

    def e_Slice(self, F, n):
        for p in (n.lower, n.upper, n.step):
            if p is not None:
                self.expr(F, p)
        return None

    def e_Tuple(self, F, n):
        return self.join(F, [self.expr(F, e) for e in n.elts])
    e_List = e_Set = e_Tuple

    def e_Starred(self, F, n):
        return self.expr(F, n.value)

    def e_Dict(self, F, n):
        vs = [self.expr(F, k) for k in n.keys if k is not None] + [self.expr(F, v) for v in n.values]
        return self.join(F, vs)

    def e_BinOp(self, F, n):
        self.expr(F, n.left)
        self.expr(F, n.right)
        return self.fresh(F)

    def e_UnaryOp(self, F, n):
        self.expr(F, n.operand)
        return self.fresh(F)

    def e_Compare(self, F, n):
        self.expr(F, n.left)
        for c in n.comparators:
            self.expr(F, c)
        return self.fresh(F)

    def e_BoolOp(self, F, n):
        # `a or b` returns one of its operands; later operands run conditionally
        vs = [self.expr(F, n.values[0])]
        for v in n.values[1:]:
            holder = []
            body = self.block(lambda v=v: holder.append(self.expr(F, v)))
            if holder[0] is not None:
                t = self.tmp(F, 'b')
                body = ('Seq', body, ('Assign', t, ('EView', holder[0])))
                vs.append(t)
            self.emit(('If', body, ('Skip',)))
        return self.join(F, vs) if any(v is not None for v in vs) else None

    def e_IfExp(self, F, n):
        self.expr(F, n.test)
        t = self.tmp(F, 'c')
        res = []

        def arm(e):
            v = self.expr(F, e)
            res.append(v)
            self.emit(('Assign', t, ('EView', v) if v is not None else ('EScalar',)))
        a = self.block(lambda: arm(n.body))
        b = self.block(lambda: arm(n.orelse))
        self.emit(('If', a, b))
        return t if any(r is not None for r in res) else None

    def e_Lambda(self, F, n):
        self.fail(F, n, 'lambda')

    def comprehension(self, F, n, elts):
        res = self.tmp(F, 'comp')
        self.emit(('Assign', res, ('EJoin', [])))

        def gen(i):
            if i == len(n.generators):
                vs = [self.expr(F, e) for e in elts]
                self.emit(('Assign', res, ('EJoin', [res] + [v for v in vs if v is not None])))
                return
            g = n.generators[i]
            it = self.expr(F, g.iter)

            def body():
                self.bind_target(F, g.target, it, element=True)
                for c in g.ifs:
                    self.expr(F, c)
                gen(i + 1)
            self.loop(F, [n], body)
        gen(0)
        return res

    def e_ListComp(self, F, n):
        return self.comprehension(F, n, [n.elt])
    e_SetComp = e_GeneratorExp = e_ListComp

    def e_DictComp(self, F, n):
        return self.comprehension(F, n, [n.key, n.value])

    # ---- attributes of self ----
    def attrvar(self, F, name):
        key = f'{F.cls.key}.self.{name}'
        if key not in self.tr_attrs:
            self.tr_attrs[key] = self.newvar(key)
            if name in self.own_attr_names or (name in self.display_attrs and not self.dynamic_self_store):
                self.own_containers = set(self.own_containers) | {self.tr_attrs[key]}
        return self.tr_attrs[key]

    tr_attrs = None

    def store_attr(self, F, name, v, element=False):
        x = self.attrvar(F, name)
        self.emit(('Assign', x, (('EMaybeView', v) if element else ('EView', v)) if v is not None else ('EScalar',)))
        if v is not None:
            sv = self.selfvar(F)
            self.emit(('Assign', sv, ('EJoin', [sv, v])))

    def self_attr(self, F, n):
        if n.attr == '__dict__':
            return self.selfvar(F)
        kind, owner, node = F.cls.member(n.attr)
        if kind in ('lazy', None):
            if self.dynamic_self_store:
                return self.join(F, [self.attrvar(F, n.attr), self.selfvar(F)], 'dyn')
            return self.attrvar(F, n.attr)      # cached value / plain instance attribute
        if kind == 'property':
            return self.inline(F, owner, node, [], {}, n, cls=F.cls, selfval=True)
        if kind == 'classattr':
            return None
        # bound method used as a value
        return None

    # ---- calls ----
    def args_of(self, F, call):
        pos = [self.expr(F, a) for a in call.args]
        kw = {}
        for k in call.keywords:
            v = self.expr(F, k.value)
            if k.arg is None:
                pos.append(v)          # **mapping: treated as one more aliasable argument
            else:
                kw[k.arg] = v
        return pos, kw

    @staticmethod
    def const_kw(call, name):
        for k in call.keywords:
            if k.arg == name and isinstance(k.value, ast.Constant):
                return k.value.value
        return 'absent' if not any(k.arg == name for k in call.keywords) else 'dynamic'

    def apply_row(self, F, call, key, row, recv, pos, kw):
        self.used_rows.add(key)
        if row['probe'] is None and row['ret'] == 'fresh' and not key.startswith('photutils.m'):
            self.unprobed.add(key)
        allv = ([recv] if recv is not None else []) + pos + list(kw.values())
        allv = [v for v in allv if v is not None]
        muts = []
        for m in row['mut']:
            tgt = recv if m == 'self' else (pos[m] if isinstance(m, int) and m < len(pos) else kw.get(m))
            if tgt is not None:
                muts.append(tgt)
        ret = row['ret']
        base = recv if recv is not None else (pos[0] if pos else None)
        # keyword-dependent behaviour
        if 'out' in kw and kw['out'] is not None:
            self.emit(('InPlace', kw['out']))
            t = self.tmp(F, 'out')
            self.emit(('Assign', t, ('EView', kw['out'])))
            return t
        ck = self.const_kw(call, 'copy')
        leaf = key.split('.')[-1]
        if leaf in ('array', 'astype', 'nan_to_num', 'Quantity', 'meshgrid') and key not in ('numpy.ma.array',):
            if ck not in ('absent', True):
                ret = 'maybe' if leaf != 'meshgrid' else 'maybeall'
        if key in ('numpy.ma.array', 'numpy.ma.masked_array', 'numpy.ma.MaskedArray'):
            if ck is True:
                ret = 'fresh'
        if key == 'numpy.ma.masked_invalid' and ck not in ('absent', True):
            ret = 'maybe'
        if key == 'numpy.asarray' or key == 'numpy.asanyarray':
            pass
        for m in muts:
            self.emit(('InPlace', m))
        if ret == 'scalar':
            return None
        t = self.tmp(F, 'r')
        if key + '.__call__' in EXT:
            F.origin[t] = key
        if ret == 'fresh':
            self.emit(('Assign', t, ('EFresh',)))
        elif ret == 'view':
            if base is None:
                return None
            self.emit(('Assign', t, ('EView', base)))
        elif ret == 'maybe':
            if base is None:
                self.emit(('Assign', t, ('EFresh',)))
            else:
                self.emit(('Assign', t, ('EMaybeView', base)))
        elif ret == 'join':
            self.emit(('Assign', t, ('EJoin', allv)))
        elif ret == 'maybeall':
            self.emit(('Call', t, [], allv))
        else:
            raise AssertionError(ret)
        return t

    def e_Call(self, F, n):
        f = n.func
        # ---- methods of self ----
        if (F.selfname and isinstance(f, ast.Attribute) and isinstance(f.value, ast.Name)
                and f.value.id == F.selfname):
            kind, owner, node = F.cls.member(f.attr)
            pos, kw = self.args_of(F, n)
            if kind in ('method', 'static', 'classmethod'):
                return self.inline(F, owner, node, pos, kw, n, cls=F.cls, selfval=(kind == 'method'),
                                   skipfirst=(kind == 'classmethod'))
            if kind == 'lazy' or kind is None or kind == 'property':
                # calling a stored callable (e.g. self.finder(...), self.gaussian_fit(r))
                callee = self.self_attr(F, f)
                return self.unknown_callable(F, n, f'self.{f.attr}', callee, pos, kw)
            self.fail(F, n, f'call of self.{f.attr} ({kind})')
        # super().__init__(...) etc.
        if (isinstance(f, ast.Attribute) and isinstance(f.value, ast.Call) and isinstance(f.value.func, ast.Name)
                and f.value.func.id == 'super' and F.cls is not None):
            kind, owner, node = F.cls.member(f.attr, after=F.fn_owner)
            pos, kw = self.args_of(F, n)
            if node is None:
                return None
            return self.inline(F, owner, node, pos, kw, n, cls=F.cls, selfval=True)
        q = self.qualify(F, f)
        if (q == 'builtins.getattr' and len(n.args) >= 2 and isinstance(n.args[1], ast.Constant)
                and n.args[1].value in SCALAR_ATTRS):
            for a_ in n.args:
                self.expr(F, a_)
            return None                      # getattr(x, 'unit', None) and the like
        if (q == 'builtins.len' and F.selfname and len(n.args) == 1 and isinstance(n.args[0], ast.Name)
                and n.args[0].id == F.selfname):
            kind, owner, node = F.cls.member('__len__')
            if node is not None:
                self.inline(F, owner, node, [], {}, n, cls=F.cls, selfval=True)
                return None
        if q is not None:
            pos, kw = self.args_of(F, n)
            if (q == 'builtins.setattr' and len(pos) == 3 and F.selfname and isinstance(n.args[0], ast.Name)
                    and n.args[0].id == F.selfname):
                # setattr(self, <computed name>, v): a store on the object itself; attribute reads
                # of this class fall back to "anything stored on self" (dynamic_self_store)
                if pos[2] is not None:
                    sv = self.selfvar(F)
                    self.emit(('Assign', sv, ('EJoin', [sv, pos[2]])))
                return None
            if q == 'builtins.setattr' and len(pos) == 3:
                if pos[0] is None:
                    self.fail(F, n, 'setattr on a value without buffers')
                if pos[0] not in F.containers:
                    self.emit(('InPlace', pos[0]))
                if pos[2] is not None:
                    self.emit(('Assign', pos[0], ('EJoin', [pos[0], pos[2]])))
                return None
            if q in EXT:
                return self.apply_row(F, n, q, EXT[q], None, pos, kw)
            if q.startswith('photutils.'):
                r = self.index.resolve(q)
                if r is not None and f'{r[0].name}.{r[1].name}' in SUMMARIES:
                    k = f'{r[0].name}.{r[1].name}'
                    self.assumed.add(f'summary:{k}: no write to its arguments; result may reach them')
                    return self.apply_row(F, n, k, SUMMARIES[k], None, pos, kw)
                if r is not None:
                    m, node = r
                    if isinstance(node, ast.FunctionDef):
                        return self.inline(F, m, node, pos, kw, n)
                    return self.construct(F, n, q, m, node, pos, kw)
            self.fail(F, n, f'call of {q}: not in the operation table')
        # nested function of an enclosing frame
        if isinstance(f, ast.Name):
            g = F
            while g is not None:
                if f.id in g.nested:
                    pos, kw = self.args_of(F, n)
                    return self.inline(F, g.mod, g.nested[f.id], pos, kw, n, closure=g)
                g = g.parent if g.is_nested else None
        # method call on a value
        if isinstance(f, ast.Attribute):
            recv = self.expr(F, f.value)
            pos, kw = self.args_of(F, n)
            name = f.attr
            org = F.origin.get(recv)
            if org is not None and f'{org}.{name}' in EXT:
                return self.apply_row(F, n, f'{org}.{name}', EXT[f'{org}.{name}'], recv, pos, kw)
            if name in CONTAINER_MUT or name in CONTAINER_POP:
                if recv is None:
                    return None
                if recv not in F.containers:
                    self.emit(('InPlace', recv))
                args = [v for v in pos + list(kw.values()) if v is not None]
                if name in CONTAINER_MUT and args:
                    self.emit(('Assign', recv, ('EJoin', [recv] + args)))
                return self.maybe(F, recv, 'pop') if name in CONTAINER_POP or name == 'setdefault' else None
            if org is not None and org in self.safe_classes:
                # method of an object of a class analysed on its own (class life-cycle obligation):
                # no write to anything reachable from the object or the arguments; the result and
                # the object may afterwards reach the arguments
                self.assumed.add(f'class:{org}')
                args = [v for v in [recv] + pos + list(kw.values()) if v is not None]
                self.emit(('Assign', recv, ('EJoin', args)))
                t = self.tmp(F, 'mr')
                self.emit(('Assign', t, ('EJoin', args)))
                F.origin[t] = org if name in self.same_class_methods else None
                return t
            if name in SUMMARY_METHODS:
                self.assumed.add(f'summary:method .{name}(): no write to its receiver or arguments'
                                 + ('; new result' if SUMMARY_METHODS[name]['ret'] == 'fresh' else ''))
                return self.apply_row(F, n, 'photutils.method.' + name, SUMMARY_METHODS[name], recv, pos, kw)
            if name in METHODS:
                if recv is None:
                    for v in pos + list(kw.values()):
                        pass
                    return None if METHODS[name]['ret'] in ('scalar', 'view', 'maybe') else self.fresh(F)
                return self.apply_row(F, n, 'method.' + name, METHODS[name], recv, pos, kw)
            self.fail(F, n, f'method .{name}() is not in the operation table')
        # call of a local variable
        if isinstance(f, ast.Name):
            callee = self.e_Name(F, f)
            pos, kw = self.args_of(F, n)
            return self.unknown_callable(F, n, f.id, callee, pos, kw)
        if isinstance(f, ast.Call):
            callee = self.expr(F, f)
            pos, kw = self.args_of(F, n)
            return self.unknown_callable(F, n, '<call result>', callee, pos, kw)
        self.fail(F, n, 'unsupported call form')

    safe_classes = ()
    same_class_methods = ('apply_filters', 'select_brightest', 'apply_all_filters', '__getitem__', 'copy')

    def unknown_callable(self, F, n, name, callee, pos, kw):
        org = F.origin.get(callee) if callee is not None else None
        if org is not None and f'{org}.__call__' in EXT:
            return self.apply_row(F, n, f'{org}.__call__', EXT[f'{org}.__call__'], callee, pos, kw)
        if name in self.assume_callables:
            # assumption recorded in the evidence.  A plain text = the callable obeys the property
            # itself (writes nothing, result may alias anything); a dict gives its summary:
            # positional arguments written through and the kind of result
            spec = self.assume_callables[name]
            text = spec if isinstance(spec, str) else spec['text']
            self.assumed.add(f'callable:{name}: {text}')
            args = [v for v in [callee] + pos + list(kw.values()) if v is not None]
            muts, ret = [], 'alias'
            if isinstance(spec, dict) and 'by_kw' in spec:      # summary chosen by a constant keyword
                k_ = spec['by_kw']
                val_ = self.const_kw(n, k_)
                if val_ == 'dynamic' or val_ not in spec['cases']:
                    self.fail(F, n, f'callable `{name}`: no summary for {k_}={val_}')
                spec = spec['cases'][val_]
            if isinstance(spec, dict):
                if spec.get('when_kw'):          # e.g. copy=False
                    k_, val_ = spec['when_kw']
                    if self.const_kw(n, k_) != val_:
                        self.fail(F, n, f'callable `{name}`: summary only covers {k_}={val_}')
                muts = [pos[i] for i in spec.get('mut', ()) if i < len(pos) and pos[i] is not None]
                ret = spec.get('ret', 'alias')
            t = self.tmp(F, 'cr')
            if ret == 'fresh':
                for m in muts:
                    self.emit(('InPlace', m))
                self.emit(('Assign', t, ('EFresh',)))
            else:
                self.emit(('Call', t, muts, args))
            return t
        self.fail(F, n, f'call of unknown callable `{name}`')

    def construct(self, F, n, q, m, node, pos, kw):
        key = f'{m.name}.{node.name}'
        if key not in self.safe_classes:
            self.fail(F, n, f'constructor {key}: class is not among the analysed / listed classes')
        self.assumed.add(f'class:{key}')
        args = [v for v in pos + list(kw.values()) if v is not None]
        t = self.tmp(F, 'obj')
        self.emit(('Assign', t, ('EJoin', args)))
        F.origin[t] = key
        return t

    # ---- inlining ----
    def inline(self, F, mod, fn, pos, kw, callnode, cls=None, selfval=False, skipfirst=False, closure=None):
        key = (mod.name, fn.name, fn.lineno)
        if F.depth >= self.MAX_DEPTH or key in self.stack:
            self.fail(F, callnode, f'inlining depth / recursion at {fn.name}')
        self.stack.append(key)
        self.span(mod, fn)
        G = Frame(self, mod, fn, f'{F.prefix}{fn.name}@{callnode.lineno}.', cls=cls if (selfval or cls) else None,
                  parent=F)
        G.is_nested = closure is not None
        if closure is not None:
            G.parent = closure
            G.depth = F.depth + 1
        G.fn_owner = getattr(fn, '_owner', None)
        a = fn.args
        params = [x.arg for x in a.posonlyargs + a.args]
        if selfval or skipfirst:
            if selfval:
                G.selfname = params[0]
            params = params[1:]
        elif cls is not None and params and params[0] in ('self',):
            G.selfname = params[0]
            params = params[1:]
        if cls is None:
            G.cls = None
        defaults = dict(zip([x.arg for x in (a.posonlyargs + a.args)][-len(a.defaults):], a.defaults)) if a.defaults else {}
        kwdefaults = {x.arg: d for x, d in zip(a.kwonlyargs, a.kw_defaults) if d is not None}
        res = self.tmp(F, 'ret_' + fn.name)

        def body():
            bound = set()
            extra = []
            for i, v in enumerate(pos):
                if i < len(params):
                    self.bind_name(G, params[i], v)
                    bound.add(params[i])
                else:
                    extra.append(v)
            if a.vararg is not None:
                self.bind_name(G, a.vararg.arg, self.join(G, extra))
            elif extra:
                self.fail(F, callnode, f'too many positional arguments for {fn.name}')
            extrakw = []
            allnames = params + [x.arg for x in a.kwonlyargs]
            for k, v in kw.items():
                if k in allnames:
                    self.bind_name(G, k, v)
                    bound.add(k)
                else:
                    extrakw.append(v)
            if a.kwarg is not None:
                self.bind_name(G, a.kwarg.arg, self.join(G, extrakw))
                G.containers.add(G.locals[a.kwarg.arg])
            elif extrakw:
                self.fail(F, callnode, f'unexpected keyword for {fn.name}')
            for p in allnames:
                if p not in bound:
                    d = defaults.get(p, kwdefaults.get(p))
                    if d is None and p not in defaults and p not in kwdefaults:
                        self.fail(F, callnode, f'missing argument {p} for {fn.name}')
                    self.bind_name(G, p, self.expr(G, d) if d is not None else None)
            self.stmts(G, fn.body)
        b = self.block(body)
        self.emit(('Scope', res, b))
        self.stack.pop()
        if G.ret_origin:
            F.origin[res] = G.ret_origin
        return res

    # ---- binding ----
    def bind_name(self, F, name, v):
        x = F.var(name)
        F.containers.discard(x)
        F.arrays.discard(x)
        self.emit(('Assign', x, ('EView', v) if v is not None else ('EScalar',)))
        if v is not None and v in F.origin:
            F.origin[x] = F.origin[v]
        elif v is not None and F.parent is not None and v in F.parent.origin:
            F.origin[x] = F.parent.origin[v]
        return x

    def bind_target(self, F, t, v, element=False):
        if isinstance(t, ast.Name):
            x = F.var(t.id)
            F.containers.discard(x)
            F.arrays.discard(x)
            if v is None:
                self.emit(('Assign', x, ('EScalar',)))
            else:
                self.emit(('Assign', x, ('EMaybeView', v) if element else ('EView', v)))
                if not element and v in F.origin:
                    F.origin[x] = F.origin[v]
                elif x in F.origin:
                    del F.origin[x]
        elif isinstance(t, (ast.Tuple, ast.List)):
            for e in t.elts:
                self.bind_target(F, e.value if isinstance(e, ast.Starred) else e, v, element=True)
        elif isinstance(t, ast.Attribute):
            if F.selfname and isinstance(t.value, ast.Name) and t.value.id == F.selfname:
                self.store_attr(F, t.attr, v, element)
            else:
                o = self.expr(F, t.value)
                if o is None:
                    self.fail(F, t, 'attribute store on a value without buffers')
                if o not in F.containers and o not in self.own_containers:
                    self.emit(('InPlace', o))       # the object itself is modified
                if v is not None:
                    self.emit(('Assign', o, ('EJoin', [o, v])))
        elif isinstance(t, ast.Subscript):
            if (F.selfname and isinstance(t.value, ast.Attribute) and isinstance(t.value.value, ast.Name)
                    and t.value.value.id == F.selfname and t.value.attr == '__dict__'
                    and isinstance(t.slice, ast.Constant)):
                self.store_attr(F, t.slice.value, v)
                return
            if isinstance(t.value, ast.Attribute) and t.value.attr == '__dict__':
                o = self.expr(F, t.value.value)       # x.__dict__[k] = v  is  setattr(x, k, v)
            else:
                o = self.expr(F, t.value)
            self.expr(F, t.slice)
            if o is None:
                self.fail(F, t, 'item store on a value without buffers')
            if o not in F.containers and o not in self.own_containers:
                self.emit(('InPlace', o))
            if v is not None and o not in F.arrays and not self.array_index(t.slice):
                self.emit(('Assign', o, ('EJoin', [o, v])))      # a container / object array keeps a reference
        else:
            self.fail(F, t, f'unsupported assignment target {type(t).__name__}')

    # ---- statements ----
    def stmts(self, F, body):
        for s in body:
            if (isinstance(s, ast.Expr) and isinstance(s.value, ast.Constant) and isinstance(s.value.value, str)):
                continue
            m = getattr(self, 's_' + type(s).__name__, None)
            if m is None:
                self.fail(F, s, f'unsupported statement {type(s).__name__}')
            m(F, s)

    def is_display(self, v, F=None):
        """Expressions that build a NEW container object (whose elements may alias others)."""
        if isinstance(v, ast.IfExp):
            return self.is_display(v.body, F) and self.is_display(v.orelse, F)
        if isinstance(v, (ast.List, ast.Dict, ast.Set, ast.ListComp, ast.DictComp, ast.SetComp)):
            return True
        if (isinstance(v, ast.Call) and isinstance(v.func, ast.Attribute) and v.func.attr == '__new__'
                and isinstance(v.func.value, ast.Name) and v.func.value.id == 'object'):
            return True          # a bare new object: attribute stores on it are container stores
        if isinstance(v, ast.Call) and F is not None and self.qualify(F, v.func) == 'copy.copy':
            return True          # a shallow copy is a NEW shell: attribute / item stores on it do not write
                                 # through to the original (its contents still alias the original's)
        if isinstance(v, ast.Call) and F is not None and self.qualify(F, v.func) in (
                'astropy.table.QTable', 'astropy.table.Table'):
            return True          # a new table: setting a column stores (a copy of) the values in it
        return (isinstance(v, ast.Call) and isinstance(v.func, ast.Name)
                and v.func.id in ('list', 'dict', 'set', 'sorted'))

    @staticmethod
    def array_index(sl):
        """Index forms only an ndarray (or Table) accepts - a boolean expression (x[x < c]),
        `~m`, `a & b`, or a tuple containing a slice / Ellipsis (x[:, 0], x[a:b, c:d]): a store
        through such an index copies VALUES into the target, it cannot keep a reference."""
        if isinstance(sl, ast.Compare):
            return True
        if isinstance(sl, ast.UnaryOp) and isinstance(sl.op, ast.Invert):
            return True
        if isinstance(sl, ast.BinOp) and isinstance(sl.op, (ast.BitAnd, ast.BitOr)):
            return True
        if isinstance(sl, ast.Tuple):
            return any(isinstance(e, ast.Slice) or (isinstance(e, ast.Constant) and e.value is Ellipsis)
                       for e in sl.elts)
        return False

    def is_numeric_array(self, F, v):
        """Expressions whose value is certainly a numeric ndarray / numpy scalar (never a Python
        container or an object array): storing into it copies VALUES, not references."""
        if isinstance(v, (ast.BinOp, ast.UnaryOp, ast.Compare)):
            return True
        if isinstance(v, ast.Call):
            q = self.qualify(F, v.func)
            if q and q.startswith('numpy.') and q in EXT and EXT[q]['ret'] in ('fresh', 'maybe', 'view'):
                for k in v.keywords:       # (a dtype taken from the caller's numeric image is numeric)
                    if k.arg == 'dtype' and (isinstance(k.value, ast.Name) and k.value.id == 'object'
                                             or isinstance(k.value, ast.Constant) and k.value.value in ('O', 'object')):
                        return False
                return all(not (isinstance(a, ast.Name) and a.id == 'object') for a in v.args)
        return False

    def rebound_in(self, F, nodes):
        """Var ids of the names (re)bound anywhere inside the given statements."""
        out = set()
        for root in nodes:
            for node in ast.walk(root):
                if isinstance(node, ast.Name) and isinstance(node.ctx, (ast.Store, ast.Del)) and node.id in F.locals:
                    out.add(F.locals[node.id])
        return out

    def s_Expr(self, F, s):
        self.expr(F, s.value)

    def s_Pass(self, F, s):
        pass

    def s_Assign(self, F, s):
        v = self.expr(F, s.value)
        for t in s.targets:
            self.bind_target(F, t, v)
            if isinstance(t, ast.Name) and self.is_display(s.value, F):
                F.containers.add(F.locals[t.id])      # definitely a fresh local container from here on
            if isinstance(t, ast.Name) and self.is_numeric_array(F, s.value):
                F.arrays.add(F.locals[t.id])
            if isinstance(t, ast.Name) and isinstance(s.value, ast.Call):
                q = self.qualify(F, s.value.func)
                if q == 'builtins.object.__new__' and F.cls is not None:
                    F.origin[F.locals[t.id]] = F.cls.key       # another instance of the class itself
                elif q is not None and (q in EXT or q + '.__call__' in EXT):
                    F.origin[F.locals[t.id]] = q

    def s_AnnAssign(self, F, s):
        if s.value is not None:
            self.bind_target(F, s.target, self.expr(F, s.value))

    def s_AugAssign(self, F, s):
        self.expr(F, s.value)
        t = s.target
        if isinstance(t, ast.Name):
            x = self.e_Name(F, t)
            if x is not None:
                self.emit(('InPlace', x))
        elif isinstance(t, ast.Attribute):
            if F.selfname and isinstance(t.value, ast.Name) and t.value.id == F.selfname:
                self.emit(('InPlace', self.attrvar(F, t.attr)))
            else:
                o = self.expr(F, t.value)
                if o is not None:
                    self.emit(('InPlace', o))
        elif isinstance(t, ast.Subscript):
            o = self.expr(F, t.value)
            self.expr(F, t.slice)
            if o is not None and o not in F.containers:
                self.emit(('InPlace', o))
        else:
            self.fail(F, s, 'augmented assignment target')

    def s_If(self, F, s):
        self.expr(F, s.test)
        c0, r0 = set(F.containers), set(F.arrays)
        a = self.block(lambda: self.stmts(F, s.body))
        ca, ra = set(F.containers), set(F.arrays)
        F.containers, F.arrays = set(c0), set(r0)
        b = self.block(lambda: self.stmts(F, s.orelse))
        F.containers &= ca                 # definitely a container / array on both paths
        F.arrays &= ra
        self.emit(('If', a, b))

    def s_For(self, F, s):
        if s.orelse:
            self.fail(F, s, 'for-else')
        it = self.expr(F, s.iter)

        def body():
            self.bind_target(F, s.target, it, element=True)
            self.stmts(F, s.body)
        self.loop(F, [s], body)

    def loop(self, F, nodes, body):
        """Names rebound anywhere in the loop are not known containers inside or after it
        (first pass discovers the names, second pass is the translation that is kept)."""
        c0, r0 = set(F.containers), set(F.arrays)
        self.block(body)                                   # discovery pass (creates the locals)
        rb = self.rebound_in(F, nodes)
        F.containers, F.arrays = c0 - rb, r0 - rb
        c1, r1 = set(F.containers), set(F.arrays)
        self.emit(('Loop', self.block(body)))
        F.containers &= c1
        F.arrays &= r1

    def s_While(self, F, s):
        if s.orelse:
            self.fail(F, s, 'while-else')

        def body():
            self.expr(F, s.test)
            self.stmts(F, s.body)
        self.loop(F, [s], body)
        self.expr(F, s.test)

    def s_With(self, F, s):
        for it in s.items:
            v = self.expr(F, it.context_expr)
            if it.optional_vars is not None:
                self.bind_target(F, it.optional_vars, v)
        self.stmts(F, s.body)

    def s_Try(self, F, s):
        if s.finalbody:
            self.fail(F, s, 'try-finally')
        c0, r0 = set(F.containers), set(F.arrays)
        b = self.block(lambda: (self.stmts(F, s.body), self.stmts(F, s.orelse)))
        cb, rb_ = set(F.containers), set(F.arrays)
        reb = self.rebound_in(F, s.body)
        F.containers, F.arrays = (c0 & cb) - reb, (r0 & rb_) - reb

        def handlers():
            hs = []
            for h in s.handlers:
                def one(h=h):
                    if h.name:
                        self.emit(('Assign', F.var(h.name), ('EScalar',)))
                    self.stmts(F, h.body)
                hs.append(self.block(one))
            cur = ('Raise',)           # no handler matches: the exception propagates
            for hb in reversed(hs):
                cur = ('If', hb, cur)
            self.emit(cur)
        hb = self.block(handlers)
        F.containers &= cb
        F.arrays &= rb_
        self.emit(('Try', b, hb))

    def s_Return(self, F, s):
        v = self.expr(F, s.value) if s.value is not None else None
        if v is not None and v in F.origin and F.origin[v]:
            F.ret_origin = F.origin[v]
        self.emit(('Return', ('EView', v) if v is not None else ('EScalar',)))

    def s_Raise(self, F, s):
        if s.exc is not None:
            self.expr(F, s.exc)
        self.emit(('Raise',))

    def s_Break(self, F, s):
        self.emit(('Break',))

    def s_Continue(self, F, s):
        self.emit(('Continue',))

    def s_Assert(self, F, s):
        self.expr(F, s.test)
        self.emit(('If', ('Raise',), ('Skip',)))

    def s_Import(self, F, s):
        for a in s.names:
            F.local_imports[a.asname or a.name.split('.')[0]] = a.name if a.asname else a.name.split('.')[0]

    def s_ImportFrom(self, F, s):
        if s.level:
            self.fail(F, s, 'relative import inside a function')
        for a in s.names:
            F.local_imports[a.asname or a.name] = (s.module or '') + '.' + a.name

    def s_FunctionDef(self, F, s):
        F.nested[s.name] = s

    def s_Delete(self, F, s):
        pass

    def s_Global(self, F, s):
        self.fail(F, s, 'global')

    # ---- entry points ----
    def function(self, modname, fname, protect=None):
        """IR of a module-level function: (protected parameter ids, all parameter ids, program)."""
        mod = self.index.mods[modname]
        fn = mod.funcs[fname]
        self.span(mod, fn)
        F = Frame(self, mod, fn, f'{fname}.')
        self.tr_attrs = {}
        self.stack = [(mod.name, fn.name, fn.lineno)]
        a = fn.args
        names = [x.arg for x in a.posonlyargs + a.args + a.kwonlyargs]
        if a.vararg:
            names.append(a.vararg.arg)
        if a.kwarg:
            names.append(a.kwarg.arg)
        ids = [F.var(nm) for nm in names]
        if a.kwarg:
            F.containers.add(F.locals[a.kwarg.arg])
        prog = self.block(lambda: self.stmts(F, fn.body))
        prot = [i for nm, i in zip(names, ids) if protect is None or nm in protect]
        return prot, dict(zip(names, ids)), prog

    def methods(self, modname, cname, only, own=(), unprotected=()):
        """IR of selected methods of a class taken alone (no constructor): everything stored on
        `self` is treated as caller-supplied, like the parameters - except the attributes named in
        `own`, which are the object's private cache containers (recorded as an assumption)."""
        self.own_attr_names = tuple(own)
        for nm in own:
            self.assumed.add(f'own:{cname}.{nm} is a private cache container of the object, not caller data')
        prot, params, prog = self.lifecycle(modname, cname, only=tuple(only))
        drop = {v for k, v in params.items() if k.split('(')[-1].rstrip(')') in unprotected and '(' in k}
        for nm in unprotected:
            self.assumed.add(f'unprotected:{cname} parameter `{nm}` is not one of the kinds of object the property protects')
        return [p for p in prot if p not in drop], params, prog

    own_attr_names = ()
    own_containers = frozenset()
    dynamic_self_store = False
    display_attrs = frozenset()

    @staticmethod
    def class_scan(C):
        """(does some method call setattr(self, ...)?,  attributes that are ONLY ever assigned a display
        / comprehension in the whole class: they hold a container created by the object itself)"""
        dyn = False
        disp, other = set(), set()
        for mod, node in C.mro:
            for fn in node.body:
                if not isinstance(fn, ast.FunctionDef) or not fn.args.args:
                    continue
                me = fn.args.args[0].arg
                for x in ast.walk(fn):
                    if (isinstance(x, ast.Call) and isinstance(x.func, ast.Name) and x.func.id == 'setattr' and x.args
                            and isinstance(x.args[0], ast.Name) and x.args[0].id == me):
                        dyn = True
                    tg = []
                    if isinstance(x, ast.Assign):
                        tg = [(t, x.value) for t in x.targets]
                    elif isinstance(x, (ast.AugAssign, ast.AnnAssign)):
                        tg = [(x.target, None)]
                    for t, v in tg:
                        for a in ast.walk(t):
                            if (isinstance(a, ast.Attribute) and isinstance(a.value, ast.Name) and a.value.id == me
                                    and isinstance(a.ctx, ast.Store)):
                                if a is t and v is not None and isinstance(v, (ast.Dict, ast.List, ast.Set, ast.DictComp,
                                                                                   ast.ListComp, ast.SetComp)):
                                    disp.add(a.attr)
                                else:
                                    other.add(a.attr)
        return dyn, disp - other

    def lifecycle(self, modname, cname, only=None, own=None):
        """IR of a class life cycle:  __init__ ; Loop (one of the methods / lazy properties)."""
        mod = self.index.mods[modname]
        C = ClassInfo(self, mod, mod.classes[cname])
        if own is not None:
            self.own_attr_names = tuple(own)
            for nm in own:
                self.assumed.add(f'own:{cname}.{nm} is an object created and owned by the instance, not caller data')
        self.safe_classes = tuple(self.safe_classes) + (C.key,)
        self.dynamic_self_store, self.display_attrs = self.class_scan(C)
        self.tr_attrs = {}
        self.stack = []
        F = Frame(self, mod, C.node, f'{cname}.', cls=C, selfname='self')
        F.fn = ast.parse('def _(): pass').body[0]
        params = {}
        bodies = []

        def member(name, kind, owner, node):
            self.span(owner, node)
            a = node.args
            pn = [x.arg for x in a.posonlyargs + a.args + a.kwonlyargs]
            if kind not in ('static',):
                pn = pn[1:]
            pos = []
            kw = {}
            for p in pn:
                v = self.newvar(f'{cname}.{name}({p})')
                params[f'{name}({p})'] = v
                kw[p] = v
            fake = ast.copy_location(ast.Call(func=ast.Name(id=name, ctx=ast.Load()), args=[], keywords=[]), node)
            return self.inline(F, owner, node, pos, kw, fake, cls=C, selfval=(kind not in ('static',)))

        kind, owner, node = C.member('__init__')
        init = (self.block(lambda: member('__init__', 'method', owner, node))
                if node is not None and only is None else ('Skip',))
        if only is not None:
            for nm in only:
                if C.member(nm)[2] is None:
                    raise Untranslatable(f'{cname} has no member {nm}', C.node, str(mod.path.relative_to(self.repo)))
        for name in C.all_members():
            kind, owner, node = C.member(name)
            if (name == '__init__' and only is None) or kind in ('classattr', None) or name in self.skip_members:
                continue
            if only is not None and name not in only:
                continue

            def one(name=name, kind=kind, owner=owner, node=node):
                r = member(name, kind, owner, node)
                if kind == 'lazy':
                    self.store_attr(F, name, r)
                out = self.tr_attrs.setdefault('$out', self.newvar(f'{cname}.$results'))
                if r is not None:
                    self.emit(('Assign', out, ('EJoin', [out, r])))
            bodies.append(self.block(one))
        cur = ('Skip',)
        for b in reversed(bodies):
            cur = ('If', b, cur)
        prog = ('Seq', init, ('Loop', cur))
        if only is not None and tuple(only) != ('__init__',):     # (a constructor starts from an empty object)
            for k, v in self.tr_attrs.items():
                if k != '$out' and k.split('.self.')[-1] not in self.own_attr_names:
                    params['self:' + k] = v
        return list(params.values()), params, prog

    skip_members = ('plot', 'plot_error', 'imshow', 'imshow_map', 'plot_meshes', '__repr__', '__str__')


class ClassInfo:
    """A class with its photutils base classes (method resolution by name through the MRO)."""

    def __init__(self, tr, mod, node):
        self.tr, self.mod, self.node = tr, mod, node
        self.key = f'{mod.name}.{node.name}'
        self.mro = []
        self._linearise(mod, node)

    def _linearise(self, mod, node):
        self.mro.append((mod, node))
        for b in node.bases:
            q = None
            if isinstance(b, ast.Name):
                if b.id in mod.classes:
                    self._linearise(mod, mod.classes[b.id])
                    continue
                q = mod.imports.get(b.id)
            if q and q.startswith('photutils.'):
                r = self.tr.index.resolve(q)
                if r is not None:
                    self._linearise(r[0], r[1])

    @staticmethod
    def _kind(fn):
        for d in fn.decorator_list:
            nm = d.id if isinstance(d, ast.Name) else (d.attr if isinstance(d, ast.Attribute) else
                                                       (d.func.id if isinstance(d, ast.Call) and isinstance(d.func, ast.Name) else ''))
            if nm == 'lazyproperty':
                return 'lazy'
            if nm == 'property':
                return 'property'
            if nm == 'staticmethod':
                return 'static'
            if nm == 'classmethod':
                return 'classmethod'
            if nm in ('setter', 'deleter'):
                return 'skip'
        return 'method'

    def member(self, name, after=None):
        seen_after = after is None
        for mod, node in self.mro:
            if not seen_after:
                if node is after:
                    seen_after = True
                continue
            for s in node.body:
                if isinstance(s, ast.FunctionDef) and s.name == name:
                    k = self._kind(s)
                    if k == 'skip':
                        continue
                    # decorators other than the known ones wrap the function: fail closed later
                    s._owner = node
                    s._decos = [ast.dump(d) for d in s.decorator_list]
                    return k, mod, s
                if isinstance(s, ast.Assign) and any(isinstance(t, ast.Name) and t.id == name for t in s.targets):
                    return 'classattr', mod, s
        return None, None, None

    def all_members(self):
        names = []
        for mod, node in self.mro:
            for s in node.body:
                if isinstance(s, ast.FunctionDef) and s.name not in names and self._kind(s) != 'skip':
                    names.append(s.name)
        return names


Frame.ret_origin = None
Frame.fn_owner = None
Frame.container_names = frozenset()


# --------------------------------------------------------------------------
# rendering
# --------------------------------------------------------------------------
def to_coq(t):
    k = t[0]
    nat = lambda i: f'{i}%N'
    lst = lambda xs: '[' + '; '.join(nat(x) for x in xs) + ']'
    if k in ('Skip', 'Raise', 'Break', 'Continue', 'EFresh', 'EScalar'):
        return k
    if k in ('EView', 'EMaybeView'):
        return f'({k} {nat(t[1])})'
    if k == 'EJoin':
        return f'(EJoin {lst(t[1])})'
    if k in ('Seq', 'If', 'Try'):
        return f'({k} {to_coq(t[1])} {to_coq(t[2])})'
    if k == 'Loop':
        return f'(Loop {to_coq(t[1])})'
    if k == 'Assign':
        return f'(Assign {nat(t[1])} {to_coq(t[2])})'
    if k == 'InPlace':
        return f'(InPlace {nat(t[1])})'
    if k == 'Call':
        return f'(Call {nat(t[1])} {lst(t[2])} {lst(t[3])})'
    if k == 'Scope':
        return f'(Scope {nat(t[1])} {to_coq(t[2])})'
    if k == 'Return':
        return f'(Return {to_coq(t[1])})'
    raise ValueError(k)


def size(t):
    return 1 + sum(size(x) for x in t[1:] if isinstance(x, tuple))


def pretty(t, names, ind=0):
    """Readable listing of an IR term (for evidence and diagnostics)."""
    p = '  ' * ind
    k = t[0]
    nm = lambda i: names[i]
    if k == 'Seq':
        return pretty(t[1], names, ind) + pretty(t[2], names, ind)
    if k == 'Skip':
        return ''
    if k in ('Raise', 'Break', 'Continue'):
        return f'{p}{k}\n'
    if k == 'Assign':
        e = t[2]
        rhs = {'EFresh': 'fresh', 'EScalar': 'scalar'}.get(e[0]) or (
            f'view({nm(e[1])})' if e[0] == 'EView' else f'maybe_view({nm(e[1])})' if e[0] == 'EMaybeView'
            else 'join(' + ', '.join(nm(x) for x in e[1]) + ')')
        return f'{p}{nm(t[1])} := {rhs}\n'
    if k == 'InPlace':
        return f'{p}WRITE {nm(t[1])}\n'
    if k == 'Call':
        return f'{p}{nm(t[1])} := call(writes [{", ".join(nm(x) for x in t[2])}], aliases [{", ".join(nm(x) for x in t[3])}])\n'
    if k == 'If':
        return f'{p}if:\n{pretty(t[1], names, ind + 1)}{p}else:\n{pretty(t[2], names, ind + 1)}'
    if k == 'Loop':
        return f'{p}loop:\n{pretty(t[1], names, ind + 1)}'
    if k == 'Try':
        return f'{p}try:\n{pretty(t[1], names, ind + 1)}{p}except:\n{pretty(t[2], names, ind + 1)}'
    if k == 'Scope':
        return f'{p}{nm(t[1])} := scope:\n{pretty(t[2], names, ind + 1)}'
    if k == 'Return':
        e = t[1]
        return f'{p}return {"scalar" if e[0] == "EScalar" else nm(e[1])}\n'
    return f'{p}{t}\n'


# --------------------------------------------------------------------------
# diagnostic replica of C10_Model.analyze (NOT the decider: only used to name the rejected
# write in messages; the verdict always comes from Coq)
# --------------------------------------------------------------------------
class Rejected(Exception):
    pass


def diagnose(params, prog, names):
    """Return None if the replica accepts, else a text naming the first rejected write."""
    def aeval(a, e):
        k = e[0]
        if k in ('EFresh', 'EScalar'):
            return False
        if k in ('EView', 'EMaybeView'):
            return e[1] in a
        return any(x in a for x in e[1])

    def aset(a, x, t):
        return (a | {x}) if t else (a - {x})

    def an(s, A):
        k = s[0]
        norm, acc, brk, cnt, ret = A
        if k == 'Skip' or k == 'Raise':
            return A
        if k == 'Seq':
            return an(s[2], an(s[1], A))
        if k == 'Assign':
            n2 = aset(norm, s[1], aeval(norm, s[2]))
            return (n2, acc | n2, brk, cnt, ret)
        if k == 'InPlace':
            if s[1] in norm:
                raise Rejected(f'write through `{names[s[1]]}`, which may reach a caller-supplied buffer')
            return A
        if k == 'Call':
            for m in s[2]:
                if m in norm:
                    raise Rejected(f'call writes through `{names[m]}`, which may reach a caller-supplied buffer')
            n2 = aset(norm, s[1], any(x in norm for x in s[3]))
            return (n2, acc | n2, brk, cnt, ret)
        if k == 'If':
            A1 = an(s[1], A)
            A2 = an(s[2], (norm, A1[1], A1[2], A1[3], A1[4]))
            return (A1[0] | A2[0], A2[1], A2[2], A2[3], A2[4])
        if k == 'Loop':
            inv = norm
            while True:
                B = an(s[1], (inv, acc | inv, frozenset(), frozenset(), ret))
                back = B[0] | B[3]
                if back <= inv:
                    return (inv | B[2], B[1] | B[2], brk, cnt, B[4])
                inv = inv | back
        if k == 'Try':
            A1 = an(s[1], (norm, norm, brk, cnt, ret))
            A2 = an(s[2], (A1[1], A1[1], A1[2], A1[3], A1[4]))
            return (A1[0] | A2[0], acc | A2[1], A2[2], A2[3], A2[4])
        if k == 'Scope':
            B = an(s[2], (norm, norm, frozenset(), frozenset(), False))
            n2 = aset(B[1], s[1], B[4])
            return (n2, acc | B[1] | n2, brk, cnt, ret)
        if k == 'Return':
            return (norm, acc, brk, cnt, ret or aeval(norm, s[1]))
        if k == 'Break':
            return (norm, acc, brk | norm, cnt, ret)
        if k == 'Continue':
            return (norm, acc, brk, cnt | norm, ret)
        raise ValueError(k)
    p = frozenset(params)
    try:
        an(prog, (p, p, frozenset(), frozenset(), False))
    except Rejected as e:
        return str(e)
    return None
